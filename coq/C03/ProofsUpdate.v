(* C03 — the propagation loop of update.py establishes a consistent state. *)
From Coq Require Import PArith List Bool Lia.
From C03 Require Import Model Statement ProofsBfs.
Import ListNotations.

Lemma insert_pos_NoDup : forall x l, ~ In x l -> NoDup l -> NoDup (insert_pos x l).
Proof.
  intros x l Hx Hl. induction Hl as [|a l Ha Hl IH]; simpl.
  - constructor; [intros []|constructor].
  - destruct (Pos.leb x a).
    + constructor; [assumption | constructor; assumption].
    + constructor.
      * rewrite insert_pos_In. intros [H|H]; [subst; apply Hx; left; reflexivity | contradiction].
      * apply IH. intro H. apply Hx. right. assumption.
Qed.

Lemma sort_pos_NoDup : forall l, NoDup l -> NoDup (sort_pos l).
Proof.
  intros l H. induction H as [|a l Ha Hl IH]; simpl; [constructor|].
  apply insert_pos_NoDup; [rewrite sort_pos_In; assumption | assumption].
Qed.

Section U.
  Variables (src sig err : Type).
  Variable mod_of : target -> module.
  Variable units_of : module -> src -> list target.
  Variable owner : symbol -> target.
  Variable trig_of : symbol -> trigger.
  Variable lookup_target : prog src -> target -> list target.
  Variable check_target : src -> env sig -> target -> result sig err.
  Variable diff : module -> env sig -> env sig -> list trigger.

  Notation dstate := (dstate src sig err).
  Notation resmap := (resmap sig err).
  Notation env_of := (env_of sig err owner).
  Notation is_unit := (is_unit src mod_of units_of).
  Notation hits := (hits src lookup_target).
  Notation reprocess_one := (reprocess_one src sig err owner check_target).
  Notation reprocess_nodes := (reprocess_nodes src sig err units_of owner check_target diff).
  Notation d_live := (d_live src sig err).

  Hypothesis Hnames : names_ok src mod_of units_of lookup_target.
  Hypothesis Hdeps : deps_complete src sig err trig_of lookup_target check_target.
  Hypothesis Hdiff : diff_complete sig mod_of owner trig_of diff.

  Definition dsub (D D' : depmap) : Prop := forall g, incl (deps_get D g) (deps_get D' g).

  Lemma dsub_refl : forall D, dsub D D.
  Proof. intros D g. apply incl_refl. Qed.

  Lemma dsub_trans : forall D1 D2 D3, dsub D1 D2 -> dsub D2 D3 -> dsub D1 D3.
  Proof. intros D1 D2 D3 H1 H2 g. eapply incl_tran; [apply H1 | apply H2]. Qed.

  Definition mid (e0 e1 e : env sig) : Prop := forall x, e x = e0 x \/ e x = e1 x.

  (* st' is st after (re)processing exactly the units in T, each once *)
  Definition touched (st st' : dstate) (T : list target) : Prop :=
    d_prog st' = d_prog st /\
    (forall w, ~ In w T -> d_res st' w = d_res st w) /\
    (forall w, In w T -> exists s e,
        d_prog st (mod_of w) = Some s /\ In w (units_of (mod_of w) s) /\
        d_res st' w = Some (check_target s e w) /\
        mid (env_of (d_res st)) (env_of (d_res st')) e) /\
    dsub (d_deps st) (d_deps st') /\
    (forall w r, In w T -> d_res st' w = Some r -> dsub (r_deps r) (d_deps st')) /\
    d_prev st' = d_prev st /\
    (forall w, ~ In w T -> d_errs st' w = d_errs st w) /\
    (forall w, In w T -> d_errs st' w = errs_of sig err (d_res st' w)).

  Definition iter (st st' : dstate) (T : list target) (F : list trigger) : Prop :=
    touched st st' T /\
    (forall x, ~ In (trig_of x) F -> env_of (d_res st) x = env_of (d_res st') x).

  Lemma env_of_same : forall (r1 r2 : resmap) x, r1 (owner x) = r2 (owner x) -> env_of r1 x = env_of r2 x.
  Proof. intros r1 r2 x H. unfold Model.env_of. rewrite H. reflexivity. Qed.

  Lemma touched_nil : forall st, touched st st [].
  Proof.
    intro st. repeat split; try reflexivity.
    - intros w [].
    - apply dsub_refl.
    - intros w r [].
    - intros w [].
  Qed.

  Lemma iter_nil : forall st, iter st st [] [].
  Proof. intro st. split; [apply touched_nil | reflexivity]. Qed.

  (* the middle environment of a composition is between the outer ones *)
  Lemma mid_compose : forall st st1 st2 T1 T2,
    touched st st1 T1 -> touched st1 st2 T2 -> (forall w, In w T1 -> ~ In w T2) ->
    forall x, env_of (d_res st1) x = env_of (d_res st) x \/ env_of (d_res st1) x = env_of (d_res st2) x.
  Proof.
    intros st st1 st2 T1 T2 (_ & H1o & _) (_ & H2o & _) Hd x.
    destruct (in_dec Pos.eq_dec (owner x) T2) as [Hin|Hnin].
    - left. apply env_of_same. apply H1o. intro H. exact (Hd _ H Hin).
    - right. apply env_of_same. symmetry. apply H2o. assumption.
  Qed.

  Lemma touched_compose : forall st st1 st2 T1 T2,
    touched st st1 T1 -> touched st1 st2 T2 -> (forall w, In w T1 -> ~ In w T2) ->
    touched st st2 (T1 ++ T2).
  Proof.
    intros st st1 st2 T1 T2 H1 H2 Hd.
    pose proof (mid_compose st st1 st2 T1 T2 H1 H2 Hd) as Hmid.
    destruct H1 as (P1 & O1 & I1 & S1 & C1 & V1 & EO1 & EI1). destruct H2 as (P2 & O2 & I2 & S2 & C2 & V2 & EO2 & EI2).
    split; [congruence|]. split; [|split; [|split; [|split; [|split; [|split]]]]].
    - intros w Hw. rewrite O2, O1; [reflexivity| |]; intro H; apply Hw; apply in_or_app; tauto.
    - intros w Hw. apply in_app_or in Hw. destruct Hw as [Hw|Hw].
      + destruct (I1 w Hw) as (s & e & Hp & Hu & Hr & Hm).
        exists s, e. split; [assumption|]. split; [assumption|]. split.
        * rewrite O2; [assumption | apply Hd; assumption].
        * intro x. destruct (Hm x) as [H|H]; [left; assumption|].
          rewrite H. apply Hmid.
      + destruct (I2 w Hw) as (s & e & Hp & Hu & Hr & Hm).
        exists s, e. split; [congruence|]. split; [assumption|]. split; [assumption|].
        intro x. destruct (Hm x) as [H|H]; [|right; assumption].
        rewrite H. apply Hmid.
    - eapply dsub_trans; eassumption.
    - intros w r Hw Hr. apply in_app_or in Hw. destruct Hw as [Hw|Hw].
      + eapply dsub_trans; [|exact S2]. apply (C1 w r Hw).
        rewrite <- Hr. symmetry. apply O2. apply Hd. assumption.
      + apply (C2 w r Hw Hr).
    - congruence.
    - intros w Hw. rewrite EO2, EO1; [reflexivity| |]; intro H; apply Hw; apply in_or_app; tauto.
    - intros w Hw. apply in_app_or in Hw. destruct Hw as [Hw|Hw].
      + rewrite EO2, O2 by (apply Hd; assumption). apply EI1. assumption.
      + apply EI2. assumption.
  Qed.

  Lemma iter_compose : forall st st1 st2 T1 T2 F1 F2,
    iter st st1 T1 F1 -> iter st1 st2 T2 F2 -> (forall w, In w T1 -> ~ In w T2) ->
    iter st st2 (T1 ++ T2) (F1 ++ F2).
  Proof.
    intros st st1 st2 T1 T2 F1 F2 (H1 & E1) (H2 & E2) Hd. split.
    - eapply touched_compose; eassumption.
    - intros x Hx. rewrite E1, E2; [reflexivity| |]; intro H; apply Hx; apply in_or_app; tauto.
  Qed.

  Lemma touched_one : forall st s u,
    d_prog st (mod_of u) = Some s -> In u (units_of (mod_of u) s) ->
    touched st (reprocess_one s st u) [u].
  Proof.
    intros st s u Hp Hu. unfold Model.reprocess_one. split; [reflexivity|]. simpl.
    split; [|split; [|split; [|split; [|split; [|split]]]]].
    - intros w Hw. unfold upd. destruct (Pos.eqb w u) eqn:E; [|reflexivity].
      apply Pos.eqb_eq in E. subst. exfalso. apply Hw. left. reflexivity.
    - intros w [<-|[]]. exists s, (env_of (d_res st)). split; [assumption|]. split; [assumption|]. split.
      + unfold upd. rewrite Pos.eqb_refl. reflexivity.
      + intro x. left. reflexivity.
    - intro g. rewrite deps_get_merge. apply incl_appr. apply incl_refl.
    - intros w r [<-|[]] Hr. unfold upd in Hr. rewrite Pos.eqb_refl in Hr. injection Hr as <-.
      intro g. rewrite deps_get_merge. apply incl_appl. apply incl_refl.
    - reflexivity.
    - intros w Hw. unfold upd. destruct (Pos.eqb w u) eqn:E; [|reflexivity].
      apply Pos.eqb_eq in E. subst. exfalso. apply Hw. left. reflexivity.
    - intros w [<-|[]]. unfold upd. rewrite Pos.eqb_refl. reflexivity.
  Qed.

  Lemma touched_fold : forall s l st,
    NoDup l -> (forall u, In u l -> d_prog st (mod_of u) = Some s /\ In u (units_of (mod_of u) s)) ->
    touched st (fold_left (reprocess_one s) l st) l.
  Proof.
    intros s l. induction l as [|u l IH]; intros st Nd Hl; simpl.
    - apply touched_nil.
    - inversion Nd as [|? ? Hnin Nl]; subst.
      destruct (Hl u (or_introl eq_refl)) as [Hp Hu].
      pose proof (touched_one st s u Hp Hu) as H1.
      assert (H2 : touched (reprocess_one s st u) (fold_left (reprocess_one s) l (reprocess_one s st u)) l).
      { apply IH; [assumption|]. intros w Hw. destruct (Hl w (or_intror Hw)). split; assumption. }
      change (u :: l) with ([u] ++ l). eapply touched_compose; [exact H1 | exact H2 |].
      intros w [<-|[]]. assumption.
  Qed.

  (* ---- one call of reprocess_nodes *)
  Lemma iter_nodes : forall st m nodes st' F,
    reprocess_nodes st m nodes = (st', F) ->
    exists T, iter st st' T F /\ (forall u, In u T -> mod_of u = m) /\
              (forall u s, d_prog st m = Some s -> In u nodes -> In u (units_of m s) -> In u T).
  Proof.
    intros st m nodes st' F H. unfold Model.reprocess_nodes in H.
    destruct Hnames as (Hmod & Hnd & _).
    destruct (d_prog st m) as [s|] eqn:Hp.
    - injection H as Hst HF.
      set (T := filter (fun u => mem_pos u nodes) (units_of m s)) in *.
      rewrite Hst in HF.
      assert (HTm : forall u, In u T -> mod_of u = m).
      { intros u Hu. apply filter_In in Hu. destruct Hu as [Hu _]. eapply Hmod. eassumption. }
      exists T. split; [|split].
      + assert (Ht : touched st st' T).
        { subst st'.
          match goal with |- touched _ (fold_left _ _ ?c) _ =>
            assert (Hc : touched c (fold_left (reprocess_one s) T c) T) end.
          { apply touched_fold.
            - apply NoDup_filter. apply Hnd.
            - intros u Hu. pose proof (HTm u Hu) as E. apply filter_In in Hu. destruct Hu as [Hu _].
              simpl. rewrite E. split; assumption. }
          destruct Hc as (c1 & c2 & c3 & c4 & c5 & c6 & c7 & c8).
          split; [exact c1|]. split; [exact c2|]. split; [exact c3|]. split; [exact c4|]. split; [exact c5|].
          split; [exact c6|]. split; [|exact c8].
          intros w Hw. rewrite (c7 w Hw). simpl.
          destruct (mem_pos w T) eqn:E; [|reflexivity]. apply mem_pos_In in E. contradiction. }
        split; [exact Ht|].
        intros x Hx. subst F.
        destruct (Pos.eq_dec (mod_of (owner x)) m) as [E|E].
        * apply (Hdiff m _ _ x E Hx).
        * apply env_of_same. destruct Ht as (_ & Ho & _). symmetry. apply Ho.
          intro Hin. apply E. apply HTm. assumption.
      + exact HTm.
      + intros u s' Hs' Hu Hin. injection Hs' as <-. apply filter_In. split; [assumption|].
        apply mem_pos_In. assumption.
    - injection H as <- <-. exists []. split; [apply iter_nil|]. split.
      + intros u [].
      + intros u s Hs. discriminate.
  Qed.

  Definition step_fn (todo : list target) :=
    fun (acc : dstate * list trigger) (m : module) =>
      let (s', fr) := reprocess_nodes (fst acc) m (filter (fun u => Pos.eqb (mod_of u) m) todo) in
      (s', snd acc ++ fr).

  Lemma iter_all_gen : forall todo ms st0 acc0,
    NoDup ms ->
    exists T F, snd (fold_left (step_fn todo) ms (st0, acc0)) = acc0 ++ F /\
      iter st0 (fst (fold_left (step_fn todo) ms (st0, acc0))) T F /\
      (forall u, In u T -> In (mod_of u) ms) /\
      (forall u s, In (mod_of u) ms -> d_prog st0 (mod_of u) = Some s -> In u todo ->
                   In u (units_of (mod_of u) s) -> In u T).
  Proof.
    intros todo ms. induction ms as [|m ms IH]; intros st0 acc0 Nd; simpl.
    - exists [], []. rewrite app_nil_r. split; [reflexivity|]. split; [apply iter_nil|]. split.
      + intros u [].
      + intros u s [].
    - inversion Nd as [|? ? Hnin Nms]; subst.
      destruct (reprocess_nodes st0 m (filter (fun u => Pos.eqb (mod_of u) m) todo)) as [st1 fr] eqn:E1.
      assert (Hstep : step_fn todo (st0, acc0) m = (st1, acc0 ++ fr))
        by (unfold step_fn; simpl; rewrite E1; reflexivity).
      rewrite Hstep.
      destruct (iter_nodes _ _ _ _ _ E1) as (T1 & I1 & M1 & C1).
      destruct (IH st1 (acc0 ++ fr) Nms) as (T2 & F2 & Hs & I2 & M2 & C2).
      exists (T1 ++ T2), (fr ++ F2). split; [rewrite Hs; rewrite app_assoc; reflexivity|].
      split; [|split].
      + eapply iter_compose; [exact I1 | exact I2 |].
        intros w Hw1 Hw2. apply Hnin. rewrite <- (M1 w Hw1). apply M2. assumption.
      + intros u Hu. apply in_app_or in Hu. destruct Hu as [Hu|Hu]; [left; symmetry; apply M1; assumption | right; apply M2; assumption].
      + intros u s Hm Hp Hu Hin. apply in_or_app.
        destruct (Pos.eq_dec (mod_of u) m) as [E|E].
        * left. apply (C1 u s); [rewrite <- E; assumption | | rewrite <- E; assumption].
          apply filter_In. split; [assumption|]. apply Pos.eqb_eq. assumption.
        * right. apply (C2 u s); try assumption.
          -- destruct Hm as [Hm|Hm]; [exfalso; apply E; symmetry; assumption | assumption].
          -- destruct I1 as ((P1 & _) & _). rewrite P1. assumption.
  Qed.

  (* ---- the invariant of the loop *)
  Definition pinv (st : dstate) (F : list trigger) (U : list module) : Prop :=
    (forall u, is_unit (d_prog st) u = false -> d_res st u = None) /\
    (forall u r, d_res st u = Some r -> dsub (r_deps r) (d_deps st)) /\
    (forall u s, d_prog st (mod_of u) = Some s -> In u (units_of (mod_of u) s) ->
                 In (mod_of u) U \/ ~ hits (d_prog st) (d_deps st) F u ->
                 d_res st u = Some (check_target s (env_of (d_res st)) u)).

  Notation lookup := (fun st : dstate => lookup_target (d_prog st)).
  Notation todo_of := (todo_of dstate mod_of d_live lookup).
  Notation reprocess_all := (reprocess_all dstate mod_of reprocess_nodes).
  Notation propagate := (propagate dstate (@d_deps src sig err) mod_of d_live lookup reprocess_nodes).

  Lemma is_unit_true : forall p u s, p (mod_of u) = Some s -> In u (units_of (mod_of u) s) -> is_unit p u = true.
  Proof. intros p u s Hp Hu. unfold Model.is_unit. rewrite Hp. apply mem_pos_In. assumption. Qed.

  Lemma step_ok : forall st F U E reached st' F',
    pinv st F U ->
    reachable_targets (d_deps st) F = Some reached ->
    reprocess_all st (todo_of st U (reached ++ E)) = (st', F') ->
    d_prog st' = d_prog st /\ pinv st' (dedup_pos F') [].
  Proof.
    intros st F U E reached st' F' (Ha & Hb & Hc) Hreach Hall.
    set (todo := todo_of st U (reached ++ E)) in *.
    unfold Model.reprocess_all in Hall.
    destruct (iter_all_gen todo (sort_pos (dedup_pos (map mod_of todo))) st [])
      as (T & F0 & Hs & Hit & HM & HC).
    { apply sort_pos_NoDup. apply dedup_pos_NoDup. }
    fold (step_fn todo) in Hall. rewrite Hall in Hs, Hit. simpl in Hs, Hit. subst F0.
    destruct Hit as ((Hp & Ho & Hi & Hsub & Hcov & _) & Henv).
    destruct (reachable_targets_spec (d_deps st) F) as (l & Hl & Hlspec).
    rewrite Hreach in Hl. injection Hl as <-.
    destruct Hnames as (Hmod & Hnd & Hlm & Hls).
    split; [exact Hp|].
    assert (HTunit : forall w, In w T -> is_unit (d_prog st) w = true).
    { intros w Hw. destruct (Hi w Hw) as (s & e & Hps & Hu & _). eapply is_unit_true; eassumption. }
    assert (Hb' : forall u r, d_res st' u = Some r -> dsub (r_deps r) (d_deps st')).
    { intros u r Hr. destruct (in_dec Pos.eq_dec u T) as [Hin|Hnin].
      - apply (Hcov u r Hin Hr).
      - rewrite (Ho u Hnin) in Hr. eapply dsub_trans; [apply (Hb u r Hr) | exact Hsub]. }
    split; [|split].
    - intros u Hu. rewrite Hp in Hu. destruct (in_dec Pos.eq_dec u T) as [Hin|Hnin].
      + rewrite (HTunit u Hin) in Hu. discriminate.
      + rewrite (Ho u Hnin). apply Ha. assumption.
    - exact Hb'.
    - intros u s Hps Hu [[]|Hnh]. rewrite Hp in Hps, Hnh.
      assert (Hex : exists e, mid (env_of (d_res st)) (env_of (d_res st')) e /\
                              d_res st' u = Some (check_target s e u)).
      { destruct (in_dec Pos.eq_dec u T) as [Hin|Hnin].
        - destruct (Hi u Hin) as (s' & e & Hps' & _ & Hr & Hm). rewrite Hps in Hps'. injection Hps' as <-.
          exists e. split; assumption.
        - exists (env_of (d_res st)). split; [intro x; left; reflexivity|].
          rewrite (Ho u Hnin). apply (Hc u s Hps Hu).
          destruct (mem_pos (mod_of u) U) eqn:EU; [left; apply mem_pos_In; assumption|].
          right. intros (t & Hrt & Hlk). apply Hnin.
          apply (HC u s); try assumption.
          + apply sort_pos_In. apply dedup_pos_In. apply in_map.
            unfold todo, Model.todo_of. apply dedup_pos_In. apply in_flat_map. exists t. split; [|exact Hlk].
            apply filter_In. split; [apply in_or_app; left; apply Hlspec; assumption|].
            rewrite <- (Hlm _ _ _ Hlk). unfold Model.d_live. rewrite Hps. rewrite EU. reflexivity.
          + unfold todo, Model.todo_of. apply dedup_pos_In. apply in_flat_map. exists t. split; [|exact Hlk].
            apply filter_In. split; [apply in_or_app; left; apply Hlspec; assumption|].
            rewrite <- (Hlm _ _ _ Hlk). unfold Model.d_live. rewrite Hps. rewrite EU. reflexivity. }
      destruct Hex as (e & Hm & Hr).
      rewrite Hr. f_equal. symmetry.
      apply (Hdeps (d_prog st) s e (env_of (d_res st')) u (d_deps st')).
      + apply (Hb' u _ Hr).
      + intros x Hx.
        assert (Hnf : ~ In (trig_of x) F').
        { intro Hin. apply Hnh. destruct Hx as (t & Hrt & Hlk). exists t. split; [|exact Hlk].
          eapply reach_init_mono; [|exact Hrt]. intros g [<-|[]]. apply dedup_pos_In. assumption. }
        pose proof (Henv x Hnf) as He. destruct (Hm x) as [H|H]; congruence.
  Qed.

  Lemma reach_nil : forall D x, ~ reach D [] x.
  Proof. intros D x H. induction H as [g []|]; assumption. Qed.

  Lemma propagate_S : forall f st F U E,
    propagate (S f) st F U E =
    match F, E with
    | [], [] => Some st
    | _, _ =>
      match reachable_targets (d_deps st) F with
      | None => None
      | Some reached =>
        let (st', F') := reprocess_all st (todo_of st U (reached ++ E)) in
        propagate f st' (dedup_pos F') [] []
      end
    end.
  Proof. intros; destruct F, E; reflexivity. Qed.

  Theorem propagate_sound : forall fuel st F U E st',
    pinv st F U -> propagate fuel st F U E = Some st' ->
    d_prog st' = d_prog st /\ pinv st' [] [].
  Proof.
    induction fuel as [|f IH]; intros st F U E st' Hinv Hrun.
    - destruct F, E; simpl in Hrun; try discriminate. injection Hrun as <-.
      split; [reflexivity|]. destruct Hinv as (Ha & Hb & Hc). split; [exact Ha|]. split; [exact Hb|].
      intros u s Hp Hu _. apply (Hc u s Hp Hu). right. intros (t & Hr & _). exact (reach_nil _ _ Hr).
    - assert (Hbody : (F = [] /\ E = [] /\ st' = st) \/
              exists reached st1 F1, reachable_targets (d_deps st) F = Some reached /\
                reprocess_all st (todo_of st U (reached ++ E)) = (st1, F1) /\
                propagate f st1 (dedup_pos F1) [] [] = Some st').
      { rewrite propagate_S in Hrun.
        destruct F as [|g F]; [destruct E as [|t E]|]; cbv beta iota zeta in Hrun.
        - left. injection Hrun as <-. auto.
        - right. destruct (reachable_targets (d_deps st) []) as [reached|]; [|discriminate].
          destruct (reprocess_all st (todo_of st U (reached ++ t :: E))) as [st1 F1] eqn:E1.
          exists reached, st1, F1. auto.
        - right. destruct (reachable_targets (d_deps st) (g :: F)) as [reached|]; [|discriminate].
          destruct (reprocess_all st (todo_of st U (reached ++ E))) as [st1 F1] eqn:E1.
          exists reached, st1, F1. auto. }
      destruct Hbody as [(-> & -> & ->) | (reached & st1 & F1 & Hr & Hall & Hrest)].
      + split; [reflexivity|]. destruct Hinv as (Ha & Hb & Hc). split; [exact Ha|]. split; [exact Hb|].
        intros u s Hp Hu _. apply (Hc u s Hp Hu). right. intros (t & Hrt & _). exact (reach_nil _ _ Hrt).
      + destruct (step_ok st F U E reached st1 F1 Hinv Hr Hall) as (Hp1 & Hinv1).
        destruct (IH st1 (dedup_pos F1) [] [] st' Hinv1 Hrest) as (Hp2 & Hinv2).
        split; [congruence | exact Hinv2].
  Qed.

  (* a state satisfying the invariant with nothing pending is consistent *)
  Lemma pinv_consistent : forall st, pinv st [] [] ->
    consistent src sig err mod_of units_of owner check_target (d_prog st) (d_res st).
  Proof.
    intros st (Ha & Hb & Hc). split.
    - intros u s Hp Hu. apply (Hc u s Hp Hu). right. intros (t & Hr & _). exact (reach_nil _ _ Hr).
    - exact Ha.
  Qed.

  (* ---- the Errors map through the loop *)
  Definition esync (st : dstate) (u : target) : Prop := d_errs st u = errs_of sig err (d_res st u).

  Lemma propagate_0 : forall st F U E st',
    propagate 0 st F U E = Some st' -> F = [] /\ E = [] /\ st' = st.
  Proof. intros st F U E st' H. destruct F, E; simpl in H; try discriminate. injection H as <-. auto. Qed.

  Lemma propagate_cases : forall f st F U E st',
    propagate (S f) st F U E = Some st' ->
    (F = [] /\ E = [] /\ st' = st) \/
    exists reached st1 F1, reachable_targets (d_deps st) F = Some reached /\
      reprocess_all st (todo_of st U (reached ++ E)) = (st1, F1) /\
      propagate f st1 (dedup_pos F1) [] [] = Some st'.
  Proof.
    intros f st F U E st' Hrun. rewrite propagate_S in Hrun.
    destruct F as [|g F]; [destruct E as [|t E]|]; cbv beta iota zeta in Hrun.
    - left. injection Hrun as <-. auto.
    - right. destruct (reachable_targets (d_deps st) []) as [reached|]; [|discriminate].
      destruct (reprocess_all st (todo_of st U (reached ++ t :: E))) as [st1 F1] eqn:E1.
      exists reached, st1, F1. auto.
    - right. destruct (reachable_targets (d_deps st) (g :: F)) as [reached|]; [|discriminate].
      destruct (reprocess_all st (todo_of st U (reached ++ E))) as [st1 F1] eqn:E1.
      exists reached, st1, F1. auto.
  Qed.

  Lemma step_errs : forall st U E reached st1 F1,
    reprocess_all st (todo_of st U (reached ++ E)) = (st1, F1) ->
    d_prev st1 = d_prev st /\ d_prog st1 = d_prog st /\
    (forall u, esync st1 u \/ (d_errs st1 u = d_errs st u /\ d_res st1 u = d_res st u)) /\
    (forall u s, In u E -> d_prog st (mod_of u) = Some s -> In u (units_of (mod_of u) s) ->
                 ~ In (mod_of u) U -> esync st1 u).
  Proof.
    intros st U E reached st1 F1 Hall.
    set (todo := todo_of st U (reached ++ E)) in *.
    unfold Model.reprocess_all in Hall.
    destruct (iter_all_gen todo (sort_pos (dedup_pos (map mod_of todo))) st [])
      as (T & F0 & Hs & Hit & HM & HC).
    { apply sort_pos_NoDup. apply dedup_pos_NoDup. }
    fold (step_fn todo) in Hall. rewrite Hall in Hs, Hit. simpl in Hs, Hit.
    destruct Hit as ((Hp & Ho & Hi & Hsub & Hcov & Hv & Heo & Hei) & _).
    destruct Hnames as (Hmod & Hnd & Hlm & Hls).
    split; [exact Hv|]. split; [exact Hp|]. split.
    - intro u. destruct (in_dec Pos.eq_dec u T) as [Hin|Hnin].
      + left. apply Hei. assumption.
      + right. split; [apply Heo | apply Ho]; assumption.
    - intros u s Hu Hps Hin HnU. apply Hei. apply (HC u s); try assumption.
      + apply sort_pos_In. apply dedup_pos_In. apply in_map.
        unfold todo, Model.todo_of. apply dedup_pos_In. apply in_flat_map. exists u. split.
        * apply filter_In. split; [apply in_or_app; right; assumption|].
          unfold Model.d_live. rewrite Hps. apply mem_pos_false in HnU. rewrite HnU. reflexivity.
        * apply Hls. eapply is_unit_true; eassumption.
      + unfold todo, Model.todo_of. apply dedup_pos_In. apply in_flat_map. exists u. split.
        * apply filter_In. split; [apply in_or_app; right; assumption|].
          unfold Model.d_live. rewrite Hps. apply mem_pos_false in HnU. rewrite HnU. reflexivity.
        * apply Hls. eapply is_unit_true; eassumption.
  Qed.

  Lemma propagate_errs : forall fuel st F U E st',
    propagate fuel st F U E = Some st' ->
    d_prev st' = d_prev st /\
    (forall u, esync st' u \/ (d_errs st' u = d_errs st u /\ d_res st' u = d_res st u)) /\
    (forall u s, In u E -> d_prog st (mod_of u) = Some s -> In u (units_of (mod_of u) s) ->
                 ~ In (mod_of u) U -> esync st' u).
  Proof.
    induction fuel as [|f IH]; intros st F U E st' Hrun.
    - apply propagate_0 in Hrun. destruct Hrun as (-> & -> & ->).
      split; [reflexivity|]. split; [intro u; right; split; reflexivity|]. intros u s [].
    - apply propagate_cases in Hrun.
      destruct Hrun as [(-> & -> & ->) | (reached & st1 & F1 & Hr & Hall & Hrest)].
      + split; [reflexivity|]. split; [intro u; right; split; reflexivity|]. intros u s [].
      + destruct (step_errs _ _ _ _ _ _ Hall) as (Hv1 & Hp1 & Hu1 & He1).
        destruct (IH _ _ _ _ _ Hrest) as (Hv2 & Hu2 & _).
        split; [congruence|]. split.
        * intro u. destruct (Hu2 u) as [H|[H2e H2r]]; [left; assumption|].
          destruct (Hu1 u) as [H|[H1e H1r]].
          -- left. unfold esync in *. congruence.
          -- right. split; congruence.
        * intros u s Hu Hps Hin HnU. pose proof (He1 u s Hu Hps Hin HnU) as H1.
          destruct (Hu2 u) as [H|[H2e H2r]]; [assumption|]. unfold esync in *. congruence.
  Qed.

  (* ---- one changed module: update_module keeps the state consistent *)
  Variable check_module : prog src -> env sig -> module -> src -> target -> option (result sig err).
  Hypothesis Hcm : check_module_consistent src sig err mod_of units_of owner check_target check_module.

  Definition core_ok (st : dstate) : Prop :=
    consistent src sig err mod_of units_of owner check_target (d_prog st) (d_res st) /\
    (forall u r, d_res st u = Some r -> dsub (r_deps r) (d_deps st)).

  Notation update_module :=
    (update_module src sig err mod_of units_of owner lookup_target check_target check_module diff).

  Theorem update_module_ok : forall mods p' st m st',
    core_ok st -> update_module mods p' st m = Some st' ->
    core_ok st' /\ (forall x, d_prog st' x = if Pos.eqb x m then p' m else d_prog st x).
  Proof.
    intros mods p' st m st' ((Hc1 & Hc2) & Hcov) Hrun.
    unfold Model.update_module, Model.d_propagate in Hrun. cbv zeta in Hrun.
    set (pm := fun x => if Pos.eqb x m then p' m else d_prog st x) in *.
    set (res' := match p' m with
                 | None => fun u => if Pos.eqb (mod_of u) m then None else d_res st u
                 | Some s => fun u => if Pos.eqb (mod_of u) m
                                      then check_module pm (env_of (d_res st)) m s u else d_res st u
                 end) in *.
    set (nd := match p' m with
               | None => []
               | Some s => flat_map (fun u => match res' u with Some r => r_deps r | None => [] end) (units_of m s)
               end) in *.
    set (tr := diff m (env_of (d_res st)) (env_of res')) in *.
    match type of Hrun with match propagate _ ?s1 _ _ _ with _ => _ end = _ => set (st1 := s1) in * end.
    destruct Hnames as (Hmod & Hnd & Hlm & Hls).
    assert (Hpm_m : pm m = p' m) by (unfold pm; rewrite Pos.eqb_refl; reflexivity).
    assert (Hpm_o : forall x, x <> m -> pm x = d_prog st x).
    { intros x Hx. unfold pm. apply Pos.eqb_neq in Hx. rewrite Hx. reflexivity. }
    assert (Hres_o : forall u, mod_of u <> m -> res' u = d_res st u).
    { intros u Hu. apply Pos.eqb_neq in Hu. unfold res'. destruct (p' m); rewrite Hu; reflexivity. }
    assert (Hin : pinv st1 (dedup_pos tr) [m]).
    { unfold pinv.
      change (d_prog st1) with pm. change (d_res st1) with res'.
      change (d_deps st1) with (deps_merge (d_deps st) nd).
      assert (Hcons_m : forall s, p' m = Some s ->
                (forall u, In u (units_of m s) -> res' u = Some (check_target s (env_of res') u)) /\
                (forall u, mod_of u = m -> ~ In u (units_of m s) -> res' u = None)).
      { intros s Hs. pose proof (Hcm pm (d_res st) m s) as H. rewrite Hpm_m in H. specialize (H Hs).
        unfold res'. rewrite Hs. exact H. }
      split; [|split].
      - intros u Hu. destruct (Pos.eq_dec (mod_of u) m) as [E|E].
        + unfold Model.is_unit in Hu. rewrite E, Hpm_m in Hu.
          destruct (p' m) as [s|] eqn:Hs.
          * apply (proj2 (Hcons_m s eq_refl)); [assumption|]. apply mem_pos_false. assumption.
          * unfold res'. try rewrite Hs. apply Pos.eqb_eq in E. rewrite E. reflexivity.
        + rewrite (Hres_o u E). apply Hc2. unfold Model.is_unit in *. rewrite (Hpm_o _ E) in Hu. assumption.
      - intros u r Hr g. rewrite deps_get_merge.
        destruct (Pos.eq_dec (mod_of u) m) as [E|E].
        + apply incl_appl. destruct (p' m) as [s|] eqn:Hs.
          * destruct (in_dec Pos.eq_dec u (units_of m s)) as [Hi|Hni].
            -- intros y Hy. unfold nd. apply deps_get_In in Hy. destruct Hy as (l & Hl & Hy).
               apply deps_get_In. exists l. split; [|assumption].
               apply in_flat_map. exists u. split; [assumption|]. rewrite Hr. assumption.
            -- rewrite (proj2 (Hcons_m s eq_refl) u E Hni) in Hr. discriminate.
          * unfold res' in Hr. try rewrite Hs in Hr. apply Pos.eqb_eq in E. rewrite E in Hr. discriminate.
        + apply incl_appr. rewrite (Hres_o u E) in Hr. apply (Hcov u r Hr).
      - intros u s Hps Hu Hor. destruct (Pos.eq_dec (mod_of u) m) as [E|E].
        + rewrite E in Hps, Hu. rewrite Hpm_m in Hps. apply (proj1 (Hcons_m s Hps)). assumption.
        + destruct Hor as [[H|[]]|Hnh]; [exfalso; apply E; symmetry; assumption|].
          rewrite (Hres_o u E). rewrite (Hpm_o _ E) in Hps.
          rewrite (Hc1 u s Hps Hu). f_equal. symmetry.
          apply (Hdeps pm s (env_of (d_res st)) (env_of res') u (deps_merge (d_deps st) nd)).
          * intro g. rewrite deps_get_merge. apply incl_appr. apply (Hcov u _ (Hc1 u s Hps Hu)).
          * intros x Hx.
            assert (Hnf : ~ In (trig_of x) tr).
            { intro Hi. apply Hnh. destruct Hx as (t & Hrt & Hlk). exists t. split; [|exact Hlk].
              eapply reach_init_mono; [|exact Hrt]. intros g [<-|[]]. apply dedup_pos_In. assumption. }
            destruct (Pos.eq_dec (mod_of (owner x)) m) as [Eo|Eo].
            -- symmetry. apply (Hdiff m _ _ x Eo Hnf).
            -- apply env_of_same. apply Hres_o. assumption. }
    match type of Hrun with match ?X with _ => _ end = _ => destruct X as [st2|] eqn:E2; [|discriminate] end.
    injection Hrun as <-. simpl.
    destruct (propagate_sound _ _ _ _ _ _ Hin E2) as (Hp2 & Hinv2).
    split.
    - split; [apply pinv_consistent; assumption | exact (proj1 (proj2 Hinv2))].
    - intro x. rewrite Hp2. reflexivity.
  Qed.

  Lemma propagate_prog : forall fuel st F U E st',
    propagate fuel st F U E = Some st' -> d_prog st' = d_prog st.
  Proof.
    induction fuel as [|f IH]; intros st F U E st' Hrun.
    - apply propagate_0 in Hrun. destruct Hrun as (_ & _ & ->). reflexivity.
    - apply propagate_cases in Hrun.
      destruct Hrun as [(_ & _ & ->) | (reached & st1 & F1 & Hr & Hall & Hrest)]; [reflexivity|].
      destruct (step_errs _ _ _ _ _ _ Hall) as (_ & Hp1 & _).
      rewrite (IH _ _ _ _ _ Hrest). exact Hp1.
  Qed.

  (* ---- the Errors-map protocol of update_module / update *)
  Definition wk (st : dstate) : Prop :=
    (forall u, esync st u \/ (d_errs st u = [] /\ In u (d_prev st))) /\
    (forall u, d_errs st u <> [] -> In u (d_prev st)).

  Definition mods_ok (mods : list module) (p p' : prog src) : Prop :=
    forall x, p x <> None \/ p' x <> None -> In x mods.

  Lemma err_targets_cover : forall (st : dstate) mods u,
    consistent src sig err mod_of units_of owner check_target (d_prog st) (d_res st) ->
    (forall x, d_prog st x <> None -> In x mods) ->
    esync st u -> d_errs st u <> [] ->
    In u (err_targets src sig err st (all_units src units_of (d_prog st) mods)).
  Proof.
    intros st mods u (_ & Hc2) Hm He Hne. unfold Model.err_targets. apply filter_In. split.
    - destruct (is_unit (d_prog st) u) eqn:Eu.
      + unfold Model.is_unit in Eu. destruct (d_prog st (mod_of u)) as [s|] eqn:Ep; [|discriminate].
        unfold Model.all_units. apply in_flat_map. exists (mod_of u). split.
        * apply Hm. rewrite Ep. discriminate.
        * rewrite Ep. apply mem_pos_In. assumption.
      + exfalso. apply Hne. rewrite He. rewrite (Hc2 u Eu). reflexivity.
    - destruct (d_errs st u); [contradiction | reflexivity].
  Qed.

  Theorem update_module_errs : forall mods p' st m st',
    core_ok st -> wk st -> mods_ok mods (d_prog st) p' ->
    update_module mods p' st m = Some st' ->
    wk st' /\ (forall u, mod_of u = m -> esync st' u).
  Proof.
    intros mods p' st m st' Hcore (Hw & Hk) Hmods Hrun.
    destruct (update_module_ok mods p' st m st' Hcore Hrun) as ((Hcons' & _) & Hprog').
    unfold Model.update_module, Model.d_propagate in Hrun. cbv zeta in Hrun.
    match type of Hrun with match Model.propagate _ _ _ _ _ _ _ ?s1 _ _ _ with _ => _ end = _ => set (st1 := s1) in * end.
    match type of Hrun with match ?X with _ => _ end = _ => destruct X as [st2|] eqn:E2; [|discriminate] end.
    injection Hrun as <-.
    destruct (propagate_errs _ _ _ _ _ _ E2) as (Hv & Hu & _).
    assert (Hres1 : forall u, mod_of u <> m -> d_res st1 u = d_res st u).
    { intros u Hu1. apply Pos.eqb_neq in Hu1. simpl. destruct (p' m); rewrite Hu1; reflexivity. }
    assert (Herr1m : forall u, mod_of u = m -> esync st1 u).
    { intros u Hu1. apply Pos.eqb_eq in Hu1. unfold esync. simpl. rewrite Hu1. reflexivity. }
    assert (Herr1o : forall u, mod_of u <> m -> d_errs st1 u = []).
    { intros u Hu1. apply Pos.eqb_neq in Hu1. simpl. rewrite Hu1. reflexivity. }
    assert (Hm2 : forall u, mod_of u = m -> esync st2 u).
    { intros u Hum. destruct (Hu u) as [H|[He Hr]]; [assumption|].
      pose proof (Herr1m u Hum) as H1. unfold esync in *. congruence. }
    assert (Hclass : forall u, esync st2 u \/ (d_errs st2 u = [] /\ In u (d_prev st))).
    { intro u. destruct (Hu u) as [H|[He Hr]]; [left; assumption|].
      destruct (Pos.eq_dec (mod_of u) m) as [Em|Em]; [left; apply Hm2; assumption|].
      rewrite (Herr1o u Em) in He. rewrite (Hres1 u Em) in Hr.
      destruct (errs_of sig err (d_res st u)) as [|e l] eqn:Ee.
      - left. unfold esync. rewrite He, Hr, Ee. reflexivity.
      - right. split; [assumption|]. destruct (Hw u) as [Hs|[_ Hin]]; [|assumption].
        apply Hk. rewrite Hs, Ee. discriminate. }
    split; [split|].
    - intro u. simpl. destruct (Hclass u) as [H|[He Hin]]; [left; exact H|].
      right. split; [assumption|]. apply in_or_app. right. rewrite Hv. assumption.
    - intros u Hne. simpl in Hne.
      pose proof (propagate_prog _ _ _ _ _ _ E2) as Hp2.
      assert (Hgoal : In u (err_targets src sig err st2 (all_units src units_of (d_prog st2) mods))).
      { destruct (Hclass u) as [H|[He _]]; [|contradiction].
        apply err_targets_cover; try assumption.
        intros x Hx. simpl in Hprog'. rewrite Hprog' in Hx. apply Hmods.
        destruct (Pos.eqb x m) eqn:Ex; [apply Pos.eqb_eq in Ex; subst; right | left]; assumption. }
      rewrite Hp2 in Hgoal. simpl. apply in_or_app. left. exact Hgoal.
    - intros u Hum. apply (Hm2 u Hum).
  Qed.

  Notation update_modules :=
    (update_modules src sig err mod_of units_of owner lookup_target check_target check_module diff).
  Notation update :=
    (Model.update src sig err mod_of units_of owner lookup_target check_target check_module diff).

  Lemma update_modules_ok : forall mods p' changed st st1 last,
    core_ok st -> wk st -> mods_ok mods (d_prog st) p' ->
    update_modules mods p' st changed = Some (st1, last) ->
    core_ok st1 /\ wk st1 /\ mods_ok mods (d_prog st1) p' /\
    (forall x, d_prog st1 x = if mem_pos x changed then p' x else d_prog st x) /\
    match last with
    | Some m => forall u, mod_of u = m -> esync st1 u
    | None => changed = []
    end.
  Proof.
    intros mods p' changed. induction changed as [|m rest IH]; intros st st1 last Hc Hw Hm Hrun.
    - simpl in Hrun. injection Hrun as <- <-.
      split; [assumption|]. split; [assumption|]. split; [assumption|]. split; [intro x; reflexivity | reflexivity].
    - simpl in Hrun.
      destruct (update_module mods p' st m) as [st'|] eqn:E1; [|discriminate].
      destruct (update_module_ok mods p' st m st' Hc E1) as (Hc' & Hp').
      destruct (update_module_errs mods p' st m st' Hc Hw Hm E1) as (Hw' & Hl').
      assert (Hm' : mods_ok mods (d_prog st') p').
      { intros x Hx. apply Hm. rewrite Hp' in Hx.
        destruct (Pos.eqb x m) eqn:Ex; [apply Pos.eqb_eq in Ex; subst; right; tauto | exact Hx]. }
      destruct rest as [|m2 rest'].
      + injection Hrun as <- <-. split; [assumption|]. split; [assumption|]. split; [assumption|]. split; [|assumption].
        intro x. rewrite Hp'. simpl. destruct (Pos.eqb x m) eqn:Ex; simpl; [apply Pos.eqb_eq in Ex; subst; reflexivity | reflexivity].
      + destruct (IH st' st1 last Hc' Hw' Hm' Hrun) as (Hc1 & Hw1 & Hm1 & Hp1 & Hl1).
        split; [assumption|]. split; [assumption|]. split; [assumption|]. split.
        * intro x. rewrite Hp1, Hp'. change (mem_pos x (m :: m2 :: rest')) with (Pos.eqb x m || mem_pos x (m2 :: rest')).
          destruct (mem_pos x (m2 :: rest')) eqn:E2; [rewrite orb_true_r; reflexivity|].
          rewrite orb_false_r. destruct (Pos.eqb x m) eqn:Ex; [apply Pos.eqb_eq in Ex; subst; reflexivity | reflexivity].
        * destruct last; [assumption | discriminate].
  Qed.

  Variable full_check : prog src -> resmap.
  Hypothesis Hfc : full_check_consistent src sig err mod_of units_of owner check_target full_check.
  Hypothesis Huniq : consistent_unique src sig err mod_of units_of owner check_target.

  Lemma consistent_ext : forall p p' res, (forall x, p x = p' x) ->
    consistent src sig err mod_of units_of owner check_target p res ->
    consistent src sig err mod_of units_of owner check_target p' res.
  Proof.
    intros p p' res He (H1 & H2). split.
    - intros u s Hp. apply H1. rewrite He. assumption.
    - intros u Hu. apply H2. unfold Model.is_unit in *. rewrite He. assumption.
  Qed.

  Notation state_ok := (state_ok src sig err mod_of units_of owner check_target).

  Theorem update_eq_full_thm : forall mods st p' changed st',
    state_ok st -> edit_ok src sig err mods st p' changed ->
    update mods st p' changed = Some st' ->
    (forall u, errors src sig err st' u = errs_of sig err (full_check p' u)) /\
    (forall m, d_prog st' m = p' m) /\
    state_ok st'.
  Proof.
    intros mods st p' changed st' (Hcons & Hcov & Herrs & Hk) (Hsame & Hmods) Hrun.
    assert (Hfinish : forall st2 : dstate, (forall m, d_prog st2 m = p' m) ->
              consistent src sig err mod_of units_of owner check_target (d_prog st2) (d_res st2) ->
              (forall u, esync st2 u) ->
              forall u, d_errs st2 u = errs_of sig err (full_check p' u)).
    { intros st2 Hp Hc He u. rewrite (He u). f_equal.
      apply (Huniq p'); [eapply consistent_ext; eassumption | apply Hfc]. }
    assert (Hcore : core_ok st) by (split; [assumption | intros u r Hr g; apply (Hcov u r g Hr)]).
    assert (Hwk : wk st) by (split; [intro u; left; apply Herrs | assumption]).
    unfold Model.update in Hrun. destruct changed as [|m0 rest0].
    - injection Hrun as <-.
      assert (Hp : forall m, d_prog st m = p' m) by (intro m; apply Hsame; intros []).
      split; [|split; [exact Hp | exact (conj Hcons (conj Hcov (conj Herrs Hk)))]].
      apply (Hfinish st Hp Hcons). exact Herrs.
    - set (changed := m0 :: rest0) in *.
      destruct (update_modules mods p' st changed) as [[st1 last]|] eqn:E1; [|discriminate].
      destruct (update_modules_ok mods p' changed st st1 last Hcore Hwk Hmods E1)
        as ((Hc1 & Hcov1) & (Hw1 & Hk1) & Hm1 & Hp1 & Hl1).
      destruct last as [m|]; [|discriminate].
      unfold Model.d_propagate in Hrun.
      match type of Hrun with match ?X with _ => _ end = _ => destruct X as [st2|] eqn:E2; [|discriminate] end.
      injection Hrun as <-.
      assert (Hin : pinv st1 [] [m]).
      { split; [apply Hc1|]. split; [exact Hcov1|]. intros u s Hps Hu _. apply (proj1 Hc1 u s Hps Hu). }
      destruct (propagate_sound _ _ _ _ _ _ Hin E2) as (Hp2 & Hinv2).
      pose proof (pinv_consistent _ Hinv2) as Hc2.
      destruct (propagate_errs _ _ _ _ _ _ E2) as (Hv2 & Hu2 & He2).
      assert (Hsync : forall u, esync st2 u).
      { intro u.
        assert (Hkeep : esync st1 u -> esync st2 u).
        { intro H1. destruct (Hu2 u) as [H|[He Hr]]; [assumption|]. unfold esync in *. congruence. }
        destruct (Hw1 u) as [H|[He Hin1]]; [apply Hkeep; assumption|].
        destruct (d_res st1 u) as [r|] eqn:Er.
        - destruct (is_unit (d_prog st1) u) eqn:Eu.
          + unfold Model.is_unit in Eu. destruct (d_prog st1 (mod_of u)) as [s|] eqn:Ep; [|discriminate].
            apply mem_pos_In in Eu.
            destruct (Pos.eq_dec (mod_of u) m) as [Em|Em].
            * apply Hkeep. apply Hl1. assumption.
            * apply (He2 u s Hin1 Ep Eu). intros [H|[]]. apply Em. symmetry. assumption.
          + rewrite (proj2 Hc1 u Eu) in Er. discriminate.
        - apply Hkeep. unfold esync. rewrite He, Er. reflexivity. }
      assert (Hp' : forall x, d_prog st2 x = p' x).
      { intro x. rewrite Hp2, Hp1. destruct (mem_pos x changed) eqn:Ex; [reflexivity|].
        apply Hsame. apply mem_pos_false. assumption. }
      simpl. split; [|split; [exact Hp'|]].
      + apply (Hfinish st2 Hp' Hc2 Hsync).
      + split; [exact Hc2|]. split; [|split].
        * intros u r g Hr. apply (proj1 (proj2 Hinv2) u r Hr g).
        * exact Hsync.
        * intros u Hne. simpl in *. apply err_targets_cover; try assumption; [|apply Hsync].
          intros x Hx. rewrite Hp2 in Hx. apply Hm1. left. assumption.
  Qed.
End U.

(* ---- the statements of Statement.v *)
Section Final.
  Variables (src sig err : Type).
  Variable mod_of : target -> module.
  Variable units_of : module -> src -> list target.
  Variable owner : symbol -> target.
  Variable trig_of : symbol -> trigger.
  Variable lookup_target : prog src -> target -> list target.
  Variable check_target : src -> env sig -> target -> result sig err.
  Variable check_module : prog src -> env sig -> module -> src -> target -> option (result sig err).
  Variable diff : module -> env sig -> env sig -> list trigger.
  Variable full_check : prog src -> resmap sig err.

  Lemma update_eq_full_proof :
    update_eq_full_stmt src sig err mod_of units_of owner trig_of lookup_target check_target check_module diff full_check.
  Proof.
    intros Hn Hd Hf Hc Hfc Hu mods st p' changed st' Hok Hed Hrun.
    exact (update_eq_full_thm src sig err mod_of units_of owner trig_of lookup_target check_target diff
             Hn Hd Hf check_module Hc full_check Hfc Hu mods st p' changed st' Hok Hed Hrun).
  Qed.

  Lemma edits_ok_ext : forall mods edits (p q : prog src),
    (forall m, p m = q m) ->
    edits_ok src mods p edits -> edits_ok src mods q edits.
  Proof.
    intros mods edits p q He H. destruct edits as [|[p' ch] rest]; simpl in *; [exact I|].
    destruct H as (H1 & H2 & H3). split; [|split; [|exact H3]].
    - intros m Hm. rewrite <- He. apply H1. assumption.
    - intros m Hm. apply H2. rewrite He. assumption.
  Qed.

  Lemma update_eq_full_history_proof :
    update_eq_full_history_stmt src sig err mod_of units_of owner trig_of lookup_target check_target check_module diff full_check.
  Proof.
    intros Hn Hd Hf Hc Hfc Hu mods edits.
    induction edits as [|[p' ch] rest IH]; intros st sts Hok Hed Hrun; simpl in Hrun.
    - injection Hrun as <-. constructor.
    - simpl in Hed. destruct Hed as (H1 & H2 & H3).
      destruct (update src sig err mod_of units_of owner lookup_target check_target check_module diff mods st p' ch)
        as [st'|] eqn:E1; [|discriminate].
      destruct (run src sig err mod_of units_of owner lookup_target check_target check_module diff mods st' rest)
        as [l|] eqn:E2; [|discriminate].
      injection Hrun as <-.
      destruct (update_eq_full_proof Hn Hd Hf Hc Hfc Hu mods st p' ch st' Hok (conj H1 H2) E1) as (He & Hp & Hok').
      constructor.
      + exact He.
      + apply (IH st' l Hok'); [|exact E2].
        eapply edits_ok_ext; [|exact H3]. intro m. symmetry. apply Hp.
  Qed.

  Lemma stale_errors_removed_proof :
    stale_errors_removed_stmt src sig err mod_of units_of owner trig_of lookup_target check_target check_module diff full_check.
  Proof.
    intros Hn Hd Hf Hc Hfc Hu mods st p' changed st' u e Hok Hed Hrun Hin.
    destruct (update_eq_full_proof Hn Hd Hf Hc Hfc Hu mods st p' changed st' Hok Hed Hrun) as (He & _).
    rewrite <- He. exact Hin.
  Qed.

  Lemma no_error_missed_proof :
    no_error_missed_stmt src sig err mod_of units_of owner trig_of lookup_target check_target check_module diff full_check.
  Proof.
    intros Hn Hd Hf Hc Hfc Hu mods st p' changed st' u e Hok Hed Hrun Hin.
    destruct (update_eq_full_proof Hn Hd Hf Hc Hfc Hu mods st p' changed st' Hok Hed Hrun) as (He & _).
    rewrite He. exact Hin.
  Qed.
End Final.
