(* C03 — the generic propagation loop of Model.v run on the implementation's OBSERVED data:
   the deps map at the call, and finite tables with the answers lookup_target / reprocess_nodes
   gave (keyed by the number of reprocess_nodes calls made so far, which identifies the iteration).
   The result is the list of node sets reprocessed per iteration; the harness compares it with
   what update.py did.  Definitions only. *)
From Coq Require Import PArith List Bool Arith.
From C03 Require Import Model.
Import ListNotations.

Record tstate := mkT { t_calls : nat; t_deps : depmap; t_bad : bool }.

Fixpoint assoc_pos {A} (k : positive) (l : list (positive * A)) : option A :=
  match l with
  | [] => None
  | (k', a) :: r => if Pos.eqb k k' then Some a else assoc_pos k r
  end.

Fixpoint assoc_nat {A} (k : nat) (l : list (nat * A)) : option A :=
  match l with
  | [] => None
  | (k', a) :: r => if Nat.eqb k k' then Some a else assoc_nat k r
  end.

Fixpoint assoc2 {A} (i : nat) (k : positive) (l : list ((nat * positive) * A)) : option A :=
  match l with
  | [] => None
  | ((i', k'), a) :: r => if Nat.eqb i i' && Pos.eqb k k' then Some a else assoc2 i k r
  end.

Definition run_trace (D0 : depmap) (modtab : list (target * module))
           (looktab : list ((nat * target) * list target))
           (reptab : list (nat * (module * (list trigger * depmap))))
           (livetab : list (nat * list module))
           (F : list trigger) (U : list module) (E : list target)
  : option (list (list target)) :=
  let mod_of := fun t => match assoc_pos t modtab with Some m => m | None => 1%positive end in
  let live := fun (st : tstate) m =>
                match assoc_nat (t_calls st) livetab with Some l => mem_pos m l | None => false end in
  let lookup := fun (st : tstate) t =>
                  match assoc2 (t_calls st) t looktab with Some l => l | None => [] end in
  let reprocess := fun (st : tstate) (m : module) (_ : list target) =>
      match assoc_nat (t_calls st) reptab with
      | Some (m', (fired, nd)) =>
        (mkT (S (t_calls st)) (deps_merge (t_deps st) nd)
             (t_bad st || negb (Pos.eqb m m')), fired)
      | None => (mkT (S (t_calls st)) (t_deps st) true, [])
      end in
  match propagate_trace tstate t_deps mod_of live lookup reprocess MAX_ITER
                        (mkT 0 D0 false) F U E [] with
  | Some (st, tr) => if t_bad st then None else Some (map sort_pos tr)
  | None => None
  end.
