(* C03 — find_targets_recursive: the worklist terminates and computes exactly reachability. *)
From Coq Require Import PArith List Bool Lia Arith.
From C03 Require Import Model Statement.
Import ListNotations.

Lemma loc_eqb_eq : forall a b, loc_eqb a b = true <-> a = b.
Proof.
  destruct a, b; simpl; try rewrite Pos.eqb_eq; split; intro H; try discriminate; congruence.
Qed.

Lemma mem_loc_In : forall x l, mem_loc x l = true <-> In x l.
Proof.
  intros x l. unfold mem_loc. rewrite existsb_exists. split.
  - intros (y & Hy & E). apply loc_eqb_eq in E. subst. assumption.
  - intro H. exists x. split; [assumption | apply loc_eqb_eq; reflexivity].
Qed.

Lemma mem_pos_In : forall x l, mem_pos x l = true <-> In x l.
Proof.
  intros x l. unfold mem_pos. rewrite existsb_exists. split.
  - intros (y & Hy & E). apply Pos.eqb_eq in E. subst. assumption.
  - intro H. exists x. split; [assumption | apply Pos.eqb_eq; reflexivity].
Qed.

Lemma mem_pos_false : forall x l, mem_pos x l = false <-> ~ In x l.
Proof.
  intros x l. rewrite <- mem_pos_In. destruct (mem_pos x l); split; intro H; congruence.
Qed.

Lemma mem_loc_false : forall x l, mem_loc x l = false <-> ~ In x l.
Proof.
  intros x l. rewrite <- mem_loc_In. destruct (mem_loc x l); split; intro H; congruence.
Qed.

Lemma dedup_loc_In : forall x l, In x (dedup_loc l) <-> In x l.
Proof.
  intros x l. induction l as [|a l IH]; simpl; [tauto|].
  destruct (mem_loc a l) eqn:E.
  - rewrite IH. split; [tauto|]. intros [H|H]; [subst; apply mem_loc_In; assumption | assumption].
  - simpl. rewrite IH. tauto.
Qed.

Lemma dedup_loc_NoDup : forall l, NoDup (dedup_loc l).
Proof.
  induction l as [|a l IH]; simpl; [constructor|].
  destruct (mem_loc a l) eqn:E; [assumption|].
  constructor; [|assumption]. rewrite dedup_loc_In. apply mem_loc_false. assumption.
Qed.

Lemma dedup_pos_In : forall x l, In x (dedup_pos l) <-> In x l.
Proof.
  intros x l. induction l as [|a l IH]; simpl; [tauto|].
  destruct (mem_pos a l) eqn:E.
  - rewrite IH. split; [tauto|]. intros [H|H]; [subst; apply mem_pos_In; assumption | assumption].
  - simpl. rewrite IH. tauto.
Qed.

Lemma dedup_pos_NoDup : forall l, NoDup (dedup_pos l).
Proof.
  induction l as [|a l IH]; simpl; [constructor|].
  destruct (mem_pos a l) eqn:E; [assumption|].
  constructor; [|assumption]. rewrite dedup_pos_In. apply mem_pos_false. assumption.
Qed.

Lemma insert_pos_In : forall x y l, In x (insert_pos y l) <-> x = y \/ In x l.
Proof.
  intros x y l. induction l as [|a l IH]; simpl.
  - intuition.
  - destruct (Pos.leb y a); simpl; [intuition|]. rewrite IH. intuition.
Qed.

Lemma sort_pos_In : forall x l, In x (sort_pos l) <-> In x l.
Proof.
  intros x l. induction l as [|a l IH]; simpl; [tauto|].
  rewrite insert_pos_In, IH. intuition.
Qed.

Lemma NoDup_app_intro : forall (A : Type) (l1 l2 : list A),
  NoDup l1 -> NoDup l2 -> (forall x, In x l1 -> ~ In x l2) -> NoDup (l1 ++ l2).
Proof.
  intros A l1 l2 H1 H2 Hd. induction H1 as [|a l1 Ha H1 IH]; simpl; [assumption|].
  constructor.
  - rewrite in_app_iff. intros [H|H]; [contradiction|]. apply (Hd a); [left; reflexivity | assumption].
  - apply IH. intros x Hx. apply Hd. right. assumption.
Qed.

Lemma deps_get_In : forall D g x, In x (deps_get D g) <-> exists l, In (g, l) D /\ In x l.
Proof.
  intros D g x. unfold deps_get. rewrite in_flat_map. split.
  - intros ((g', l) & Hin & Hx). simpl in Hx. destruct (Pos.eqb g' g) eqn:E; [|contradiction].
    apply Pos.eqb_eq in E. subst. exists l. split; assumption.
  - intros (l & Hin & Hx). exists (g, l). split; [assumption|]. simpl. rewrite Pos.eqb_refl. assumption.
Qed.

Lemma deps_get_universe : forall D init g x, In x (deps_get D g) -> In x (universe D init).
Proof.
  intros D init g x H. apply deps_get_In in H. destruct H as (l & Hin & Hx).
  unfold universe. apply in_or_app. right. apply in_flat_map. exists (g, l). split; assumption.
Qed.

Lemma deps_get_merge : forall D new g, deps_get (deps_merge D new) g = deps_get new g ++ deps_get D g.
Proof.
  intros D new g. unfold deps_get, deps_merge. apply flat_map_app.
Qed.

Lemma successors_reach : forall D init x y,
  reach D init x -> In y (successors D x) -> reach D init y.
Proof.
  intros D init x y Hx Hy. destruct x as [g|t]; simpl in Hy; [|contradiction].
  eapply reach_step; eassumption.
Qed.

Lemma bfs_correct : forall D init fuel wl pr,
  NoDup wl -> NoDup pr -> (forall x, In x wl -> ~ In x pr) ->
  incl wl (universe D init) -> incl pr (universe D init) ->
  length (universe D init) - length pr < fuel ->
  (forall x, In x wl \/ In x pr -> reach D init x) ->
  (forall g, In g init -> In (Trig g) wl \/ In (Trig g) pr) ->
  (forall x y, In x pr -> In y (successors D x) -> In y pr \/ In y wl) ->
  exists res, bfs fuel D wl pr = Some res /\ (forall x, In x res <-> reach D init x).
Proof.
  intros D init fuel. induction fuel as [|f IH]; intros wl pr Nw Np Hdis Iw Ip Hm Hs Hi Hc.
  - lia.
  - destruct wl as [|a w].
    + simpl. exists pr. split; [reflexivity|]. intro x. split.
      * intro H. apply Hs. right. assumption.
      * intro H. induction H as [g Hg | g x Hg IHg Hx].
        -- destruct (Hi g Hg) as [[]|H]; assumption.
        -- destruct (Hc (Trig g) x IHg Hx) as [H|[]]. assumption.
    + set (wl := a :: w) in *.
      change (bfs (S f) D wl pr) with
        (bfs f D (dedup_loc (filter (fun x => negb (mem_loc x (wl ++ pr))) (flat_map (successors D) wl))) (wl ++ pr)).
      assert (Npr' : NoDup (wl ++ pr)) by (apply NoDup_app_intro; assumption).
      assert (Ipr' : incl (wl ++ pr) (universe D init)) by (apply incl_app; assumption).
      assert (Hlen : length (wl ++ pr) <= length (universe D init)) by (apply NoDup_incl_length; assumption).
      assert (Hlen2 : length (wl ++ pr) = S (length w) + length pr) by (rewrite app_length; reflexivity).
      apply IH.
      * apply dedup_loc_NoDup.
      * assumption.
      * intros x Hx. apply -> dedup_loc_In in Hx. apply filter_In in Hx. destruct Hx as [_ Hx].
        apply -> negb_true_iff in Hx. apply -> mem_loc_false in Hx. assumption.
      * intros x Hx. apply -> dedup_loc_In in Hx. apply filter_In in Hx. destruct Hx as [Hx _].
        apply in_flat_map in Hx. destruct Hx as (z & Hz & Hx).
        destruct z as [g|t]; simpl in Hx; [|contradiction].
        eapply deps_get_universe. eassumption.
      * assumption.
      * lia.
      * intros x [Hx|Hx].
        -- apply -> dedup_loc_In in Hx. apply filter_In in Hx. destruct Hx as [Hx _].
           apply in_flat_map in Hx. destruct Hx as (z & Hz & Hx).
           eapply successors_reach; [|eassumption]. apply Hs. left. assumption.
        -- apply in_app_or in Hx. apply Hs. tauto.
      * intros g Hg. right. apply in_or_app. destruct (Hi g Hg); tauto.
      * intros x y Hx Hy. apply in_app_or in Hx.
        destruct (mem_loc y (wl ++ pr)) eqn:E.
        -- left. apply mem_loc_In. assumption.
        -- destruct Hx as [Hx|Hx].
           ++ right. apply dedup_loc_In. apply filter_In. split.
              ** apply in_flat_map. exists x. split; assumption.
              ** rewrite E. reflexivity.
           ++ left. apply in_or_app. destruct (Hc x y Hx Hy); tauto.
Qed.

Lemma targets_in_In : forall t l, In t (targets_in l) <-> In (Targ t) l.
Proof.
  intros t l. unfold targets_in. rewrite in_flat_map. split.
  - intros (x & Hx & Ht). destruct x as [g|u]; simpl in Ht; [contradiction|].
    destruct Ht as [Ht|[]]. subst. assumption.
  - intro H. exists (Targ t). split; [assumption | left; reflexivity].
Qed.

Theorem find_targets_recursive_spec : find_targets_recursive_spec_stmt.
Proof.
  intros D init. unfold reachable_targets.
  destruct (bfs_correct D init (bfs_fuel D init) (dedup_loc (map Trig init)) []) as (res & Hres & Hspec).
  - apply dedup_loc_NoDup.
  - constructor.
  - intros x _ [].
  - intros x Hx. apply -> dedup_loc_In in Hx. unfold universe. apply in_or_app. left. assumption.
  - intros x [].
  - unfold bfs_fuel. simpl. lia.
  - intros x [Hx|[]]. apply -> dedup_loc_In in Hx. apply in_map_iff in Hx.
    destruct Hx as (g & <- & Hg). apply reach_init. assumption.
  - intros g Hg. left. apply dedup_loc_In. apply in_map. assumption.
  - intros x y [].
  - rewrite Hres. eexists. split; [reflexivity|]. intro t. rewrite targets_in_In. apply Hspec.
Qed.

(* ---- facts about reachability used by the propagation proof *)

Lemma reach_mono : forall D D' init x,
  (forall g, incl (deps_get D g) (deps_get D' g)) -> reach D init x -> reach D' init x.
Proof.
  intros D D' init x Hinc H. induction H as [g Hg | g x Hg IH Hx].
  - apply reach_init. assumption.
  - eapply reach_step; [exact IH | apply Hinc; assumption].
Qed.

Lemma reach_init_mono : forall D init init' x,
  incl init init' -> reach D init x -> reach D init' x.
Proof.
  intros D init init' x Hinc H. induction H as [g Hg | g x Hg IH Hx].
  - apply reach_init. apply Hinc. assumption.
  - eapply reach_step; eassumption.
Qed.

Lemma reach_single : forall D init x, reach D init x -> exists g, In g init /\ reach D [g] x.
Proof.
  intros D init x H. induction H as [g Hg | g x Hg IH Hx].
  - exists g. split; [assumption|]. apply reach_init. left. reflexivity.
  - destruct IH as (g0 & Hin & Hr). exists g0. split; [assumption|]. eapply reach_step; eassumption.
Qed.

Lemma reachable_targets_spec : forall D init,
  exists l, reachable_targets D init = Some l /\ forall t, In t l <-> reach D init (Targ t).
Proof. exact find_targets_recursive_spec. Qed.
