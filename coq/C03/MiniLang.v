(* C03 — a mini module language for which the contracts of update_eq_full are PROVED (ProofsMini.v).
   Modules contain: `from m import x`, annotated module attributes, module-level functions with annotated
   parameters / return, classes with single or MULTIPLE inheritance (a list of bases; members are looked up along the
   bases left to right, depth first), annotated attributes and methods.  Function and
   method bodies contain annotated assignments `y: t = e`, `return e` and expression statements over
   parameters, literals, `m.x`, from-imported names, attribute access and calls with 0 or 1 argument.
   The checker reads every other definition through [read] only; every read is logged and becomes a
   dependency edge  <symbol> -> target  (deps_of_target).  All symbol-table entries are DECLARED (there is no
   inference), so snapshots are a function of the source.  Definitions only. *)
From Coq Require Import PArith List Bool.
From C03 Require Import Model.
Import ListNotations.

Definition ident := positive.
Inductive ty := TInt | TStr | TInst (m : module) (c : ident).
Definition skey := (module * ident * option ident)%type.      (* m.x  /  m.C.a *)
Definition tkey := (module * option (ident * option ident))%type.   (* m  /  m.f  /  m.C.meth *)

(* snapshot entries (what astdiff.snapshot_definition records for these constructs) *)
Inductive sig :=
| SigFunc (params : list ty) (ret : ty)
| SigClass (bases : list (module * ident))     (* direct bases, in order (multiple inheritance) *)
| SigVar (t : ty)
| SigAlias (m : module) (x : ident).            (* cross reference created by `from m import x` *)

Inductive expr :=
| EParam (i : nat) | EInt | EStr
| EGlobal (m : module) (x : ident)              (* `m.x` after `import m`; also a name of the own module *)
| EFrom (x : ident)                             (* bare name bound by `from m import x` in the own module *)
| EAttr (e : expr) (a : ident)
| ECall0 (f : expr)
| ECall1 (f : expr) (a : expr).

Inductive stmt := SCheck (t : ty) (e : expr) | SReturn (e : expr) | SExpr (e : expr).

Record fdef := mkF { f_params : list ty; f_ret : ty; f_body : list stmt }.
Record cdef := mkC { c_bases : list (module * ident); c_attrs : list (ident * ty); c_meths : list (ident * fdef) }.
Record msrc := mkM { m_from : list (ident * (module * ident)); m_vars : list (ident * ty);
                     m_funcs : list (ident * fdef); m_classes : list (ident * cdef) }.

Inductive merr := ENoAttr | ENotCallable | EArity | EArgType | EAssign | EReturn | EUndefined | EBadBase | EOverride.

Fixpoint aget {A} (k : positive) (l : list (positive * A)) : option A :=
  match l with
  | [] => None
  | (k', a) :: r => if Pos.eqb k k' then Some a else aget k r
  end.

Definition sig_of_f (f : fdef) : sig := SigFunc (f_params f) (f_ret f).

(* the symbol-table entry the source [s] declares for the key (module component not inspected) *)
Definition decl (s : msrc) (k : skey) : option sig :=
  match k with
  | (_, x, None) =>
    match aget x (m_classes s) with
    | Some c => Some (SigClass (c_bases c))
    | None =>
      match aget x (m_funcs s) with
      | Some f => Some (sig_of_f f)
      | None =>
        match aget x (m_vars s) with
        | Some t => Some (SigVar t)
        | None => match aget x (m_from s) with Some (m2, x2) => Some (SigAlias m2 x2) | None => None end
        end
      end
    end
  | (_, c, Some a) =>
    match aget c (m_classes s) with
    | Some cd =>
      match aget a (c_attrs cd) with
      | Some t => Some (SigVar t)
      | None => match aget a (c_meths cd) with Some f => Some (sig_of_f f) | None => None end
      end
    | None => None
    end
  end.

Definition ty_eqb (a b : ty) : bool :=
  match a, b with
  | TInt, TInt => true | TStr, TStr => true
  | TInst m c, TInst m' c' => Pos.eqb m m' && Pos.eqb c c'
  | _, _ => false
  end.
Fixpoint tys_eqb (a b : list ty) : bool :=
  match a, b with
  | [], [] => true
  | x :: a', y :: b' => ty_eqb x y && tys_eqb a' b'
  | _, _ => false
  end.

Section Mini.
  (* the naming scheme: how keys are interned as symbols / targets (any scheme with these laws) *)
  Variable sym : skey -> symbol.
  Variable key_of : symbol -> skey.
  Variable tgt : tkey -> target.
  Variable tkey_of : target -> tkey.
  Variable syms_of : module -> list symbol.       (* the finitely many symbols of a module *)
  Variable FUEL : nat.                            (* bound on alias / inheritance chains *)

  Definition kmod (x : symbol) : module := fst (fst (key_of x)).
  Definition mmod_of (t : target) : module := fst (tkey_of t).
  Definition mowner (x : symbol) : target := tgt (kmod x, None).
  Definition init_id : ident := 1%positive.      (* `__init__` *)

  Notation menv := (env sig).

  (* ---- the logging reader: every access to another definition goes through [read] *)
  Definition R (A : Type) := menv -> (list symbol * A)%type.
  Definition ret {A} (a : A) : R A := fun _ => ([], a).
  Definition bind {A B} (c : R A) (f : A -> R B) : R B :=
    fun e => let (l1, a) := c e in let (l2, b) := f a e in (l1 ++ l2, b).
  Definition read (k : skey) : R (option sig) := fun e => ([sym k], e (sym k)).

  (* the first base (left to right) that yields something / whether some base satisfies a test *)
  Fixpoint first_some {A B} (f : A -> R (option B)) (l : list A) : R (option B) :=
    match l with
    | [] => ret None
    | a :: r => bind (f a) (fun o => match o with Some b => ret (Some b) | None => first_some f r end)
    end.
  Fixpoint any_true {A} (f : A -> R bool) (l : list A) : R bool :=
    match l with
    | [] => ret false
    | a :: r => bind (f a) (fun b => if b then ret true else any_true f r)
    end.

  (* follow `from` aliases to the definition *)
  Fixpoint resolve (fuel : nat) (m : module) (x : ident) : R (option (module * ident * sig)) :=
    bind (read (m, x, None)) (fun o =>
      match o with
      | Some (SigAlias m2 x2) => match fuel with O => ret None | S f => resolve f m2 x2 end
      | Some s => ret (Some (m, x, s))
      | None => ret None
      end).

  (* attribute / method lookup along the base-class chain *)
  Fixpoint find_member (fuel : nat) (m : module) (c : ident) (a : ident) : R (option sig) :=
    bind (read (m, c, Some a)) (fun o =>
      match o with
      | Some s => ret (Some s)
      | None =>
        bind (read (m, c, None)) (fun oc =>
          match oc with
          | Some (SigClass bases) =>
            match fuel with
            | O => ret None
            | S f => first_some (fun b : module * ident => find_member f (fst b) (snd b) a) bases
            end
          | _ => ret None
          end)
      end).

  Fixpoint subclass (fuel : nat) (m : module) (c : ident) (m' : module) (c' : ident) : R bool :=
    if Pos.eqb m m' && Pos.eqb c c' then ret true
    else bind (read (m, c, None)) (fun oc =>
      match oc with
      | Some (SigClass bases) =>
        match fuel with
        | O => ret false
        | S f => any_true (fun b : module * ident => subclass f (fst b) (snd b) m' c') bases
        end
      | _ => ret false
      end).

  Definition subtype (t1 t2 : ty) : R bool :=
    match t1, t2 with
    | TInt, TInt => ret true
    | TStr, TStr => ret true
    | TInst m c, TInst m' c' => subclass FUEL m c m' c'
    | _, _ => ret false
    end.

  Inductive vty := VTy (t : ty) | VFunc (ps : list ty) (r : ty) | VClass (m : module) (c : ident) | VBad.

  Definition v_of (o : option (module * ident * sig)) : vty * list merr :=
    match o with
    | Some (_, _, SigFunc ps r) => (VFunc ps r, [])
    | Some (m, x, SigClass _) => (VClass m x, [])
    | Some (_, _, SigVar t) => (VTy t, [])
    | _ => (VBad, [EUndefined])
    end.

  Definition call (v : vty) (arg : option (vty * list merr)) : R (vty * list merr) :=
    let check_args (ps : list ty) (res : vty) : R (vty * list merr) :=
        match ps, arg with
        | [], None => ret (res, [])
        | [p], Some (VTy t, ea) => bind (subtype t p) (fun ok => ret (res, ea ++ (if ok then [] else [EArgType])))
        | [p], Some (VBad, ea) => ret (res, ea)
        | [p], Some (_, ea) => ret (res, ea ++ [EArgType])
        | _, Some (_, ea) => ret (res, ea ++ [EArity])
        | _, None => ret (res, [EArity])
        end in
    match v with
    | VFunc ps r => check_args ps (VTy r)
    | VClass m c =>
      bind (find_member FUEL m c init_id) (fun o =>
        match o with
        | Some (SigFunc ps _) => check_args ps (VTy (TInst m c))
        | _ => check_args [] (VTy (TInst m c))
        end)
    | VBad => ret (VBad, match arg with Some (_, ea) => ea | None => [] end)
    | VTy _ => ret (VBad, (match arg with Some (_, ea) => ea | None => [] end) ++ [ENotCallable])
    end.

  Fixpoint infer (self_mod : module) (params : list ty) (ex : expr) : R (vty * list merr) :=
    match ex with
    | EParam i => ret (match nth_error params i with Some t => (VTy t, []) | None => (VBad, [EUndefined]) end)
    | EInt => ret (VTy TInt, [])
    | EStr => ret (VTy TStr, [])
    | EGlobal m x => bind (resolve FUEL m x) (fun o => ret (v_of o))
    | EFrom x => bind (resolve FUEL self_mod x) (fun o => ret (v_of o))
    | EAttr e a =>
      bind (infer self_mod params e) (fun ve =>
        match fst ve with
        | VTy (TInst m c) | VClass m c =>
          bind (find_member FUEL m c a) (fun o =>
            match o with
            | Some (SigVar t) => ret (VTy t, snd ve)
            | Some (SigFunc ps r) => ret (VFunc ps r, snd ve)
            | _ => ret (VBad, snd ve ++ [ENoAttr])
            end)
        | VBad => ret (VBad, snd ve)
        | _ => ret (VBad, snd ve ++ [ENoAttr])
        end)
    | ECall0 f =>
      bind (infer self_mod params f) (fun vf =>
        bind (call (fst vf) None) (fun r => ret (fst r, snd vf ++ snd r)))
    | ECall1 f a =>
      bind (infer self_mod params f) (fun vf =>
        bind (infer self_mod params a) (fun va =>
          bind (call (fst vf) (Some va)) (fun r => ret (fst r, snd vf ++ snd r))))
    end.

  Definition check_stmt (self_mod : module) (params : list ty) (rt : ty) (st : stmt) : R (list merr) :=
    let against (t : ty) (e : expr) (bad : merr) : R (list merr) :=
        bind (infer self_mod params e) (fun ve =>
          match fst ve with
          | VTy t' => bind (subtype t' t) (fun ok => ret (snd ve ++ (if ok then [] else [bad])))
          | VBad => ret (snd ve)
          | _ => ret (snd ve ++ [bad])
          end) in
    match st with
    | SCheck t e => against t e EAssign
    | SReturn e => against rt e EReturn
    | SExpr e => bind (infer self_mod params e) (fun ve => ret (snd ve))
    end.

  Fixpoint check_body (self_mod : module) (params : list ty) (rt : ty) (b : list stmt) : R (list merr) :=
    match b with
    | [] => ret []
    | st :: r => bind (check_stmt self_mod params rt st) (fun e1 =>
                 bind (check_body self_mod params rt r) (fun e2 => ret (e1 ++ e2)))
    end.

  (* class definitions at module top level: the base must be a class; overriding methods must keep the signature *)
  Fixpoint check_overrides (bm : module) (bc : ident) (ms : list (ident * fdef)) : R (list merr) :=
    match ms with
    | [] => ret []
    | (a, f) :: r =>
      bind (find_member FUEL bm bc a) (fun o =>
      bind (check_overrides bm bc r) (fun e2 =>
        ret ((match o with
              | Some (SigFunc ps rt) => if tys_eqb ps (f_params f) && ty_eqb rt (f_ret f) then [] else [EOverride]
              | Some _ => [EOverride]
              | None => []
              end) ++ e2)))
    end.

  (* every base must be a class; the methods must be compatible with what EACH base chain provides *)
  Fixpoint check_bases (ms : list (ident * fdef)) (bs : list (module * ident)) : R (list merr) :=
    match bs with
    | [] => ret []
    | (bm, bc) :: r =>
      bind (resolve FUEL bm bc) (fun o =>
      bind (match o with
            | Some (bm', bc', SigClass _) => check_overrides bm' bc' ms
            | _ => ret [EBadBase]
            end) (fun e1 =>
      bind (check_bases ms r) (fun e2 => ret (e1 ++ e2))))
    end.

  Fixpoint check_classes (cs : list (ident * cdef)) : R (list merr) :=
    match cs with
    | [] => ret []
    | (_, cd) :: r =>
      bind (check_bases (c_meths cd) (c_bases cd)) (fun e1 =>
      bind (check_classes r) (fun e2 => ret (e1 ++ e2)))
    end.

  (* what processing one target reads and reports *)
  Definition run_target (s : msrc) (u : target) : R (list merr) :=
    match tkey_of u with
    | (m, None) => check_classes (m_classes s)
    | (m, Some (f, None)) =>
      match aget f (m_funcs s) with
      | Some fd => check_body m (f_params fd) (f_ret fd) (f_body fd)
      | None => ret []
      end
    | (m, Some (c, Some a)) =>
      match aget c (m_classes s) with
      | Some cd => match aget a (c_meths cd) with
                   | Some fd => check_body m (TInst m c :: f_params fd) (f_ret fd) (f_body fd)
                   | None => ret []
                   end
      | None => ret []
      end
    end.

  (* get_dependencies_of_target: one edge  <x> -> u  per definition read *)
  Definition deps_of_reads (u : target) (reads : list symbol) : depmap :=
    map (fun x => (x, [Targ u])) reads.

  Definition mcheck_target (s : msrc) (e : menv) (u : target) : result sig merr :=
    let (reads, errs) := run_target s u e in
    mkResult errs
             (fun x => match tkey_of u with
                       | (m, None) => if Pos.eqb (kmod x) m then decl s (key_of x) else None
                       | _ => None
                       end)
             (deps_of_reads u reads).

  Definition munits_of (m : module) (s : msrc) : list target :=
    dedup_pos (tgt (m, None)
               :: map (fun f => tgt (m, Some (fst f, None))) (m_funcs s)
               ++ flat_map (fun c => map (fun a => tgt (m, Some (fst c, Some (fst a)))) (c_meths (snd c)))
                           (m_classes s)).

  (* the symbol tables after the file [s] of module [m] has been (re)analysed *)
  Definition override (e : menv) (m : module) (s : msrc) : menv :=
    fun x => if Pos.eqb (kmod x) m then decl s (key_of x) else e x.

  Definition mcheck_module (p : prog msrc) (e : menv) (m : module) (s : msrc) (u : target)
    : option (result sig merr) :=
    if mem_pos u (munits_of m s) then Some (mcheck_target s (override e m s) u) else None.

  (* symbol tables of a whole program, and the batch build *)
  Definition genv (p : prog msrc) : menv :=
    fun x => match p (kmod x) with Some s => decl s (key_of x) | None => None end.

  Definition mfull_check (p : prog msrc) : resmap sig merr :=
    fun u => match p (mmod_of u) with
             | Some s => if mem_pos u (munits_of (mmod_of u) s) then Some (mcheck_target s (genv p) u) else None
             | None => None
             end.

  (* astdiff: compare the entries of every symbol of the module; fire the trigger of each that differs *)
  Variable osig_eqb : option sig -> option sig -> bool.
  Definition mdiff (m : module) (e e' : menv) : list trigger :=
    filter (fun x => negb (osig_eqb (e x) (e' x))) (syms_of m).

  Definition mlookup_target (p : prog msrc) (t : target) : list target := [t].
End Mini.
