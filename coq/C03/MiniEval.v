(* C03 — the mini language with a concrete slot table (K = 16 names per level), for evaluation by the harness. *)
From Coq Require Import PArith NArith List Bool.
From C03 Require Import Model MiniLang ProofsMini MiniScheme.
Import ListNotations.

Definition K1 : N := 17.                      (* slot = (x-1) * 17 + (0 | member) *)
Definition e_w : nat := 16 * 17 - 1.
Definition e_key_slot (k : ident * option ident) : N :=
  (Pos.pred_N (fst k) * K1 + match snd k with None => 0 | Some a => Npos a end)%N.
Definition e_slot_key (r : N) : ident * option ident :=
  (N.succ_pos (r / K1), match (r mod K1)%N with N0 => None | Npos a => Some a end).

Definition e_sym := c_sym e_w e_key_slot.
Definition e_key_of := c_key_of e_w e_slot_key.
Definition e_fuel : nat := 20.
Definition prog_of (l : list (module * msrc)) : prog msrc := fun m => aget m l.

(* symbols read (= dependency triggers) when target [u] of module source [s] is processed in program [l] *)
Definition e_reads (l : list (module * msrc)) (s : msrc) (u : tkey) : list symbol :=
  fst (run_target e_sym c_tkey_of e_fuel s (c_tgt u) (genv e_key_of (prog_of l))).
Definition e_errs (l : list (module * msrc)) (s : msrc) (u : tkey) : list merr :=
  snd (run_target e_sym c_tkey_of e_fuel s (c_tgt u) (genv e_key_of (prog_of l))).
(* triggers fired for module [m] between two programs *)
Definition e_diff (l l' : list (module * msrc)) (m : module) : list trigger :=
  mdiff (c_syms_of e_w) osig_eqb m (genv e_key_of (prog_of l)) (genv e_key_of (prog_of l')).

(* a multiple-inheritance example: class 4 has bases [3; 2]; attribute 2 is declared only in the SECOND base *)
Open Scope positive_scope.
Definition mi_mod : msrc :=
  mkM [] []
      [(6, mkF [TInst 1 4] TInt [SCheck TInt (EAttr (EParam 0%nat) 2); SCheck TStr (EAttr (EParam 0%nat) 2)])]
      [(2, mkC [] [(2, TInt)] []); (3, mkC [] [] []); (4, mkC [(1, 3); (1, 2)] [] [])].
