(* C03 — fine-grained daemon update (mypy/server/update.py) and file watcher (mypy/fswatcher.py).
   Executable definitions only.  Names are interned: targets ('mod', 'mod.f', 'mod.C.m'),
   triggers ('<mod.f>'), modules and symbols are [positive]s (the harness interns module names
   in sorted order so that [Pos] order = the order of [sorted(todo.items())]).

   Part 1  find_targets_recursive: the level-synchronous worklist of update.py.
   Part 2  propagate_changes_using_dependencies: the outer loop, generic in the state and in
           [reprocess] (so that the harness can run it on the implementation's observed answers).
   Part 3  the daemon: state, reprocess_nodes, update_module, update; the un-modelled code
           (parser + semantic analyzer + checker + deps.py + astdiff.py) are Section variables.
   Part 4  FileSystemWatcher._find_changed. *)
From Coq Require Import PArith List Bool.
Import ListNotations.

Definition target := positive.
Definition trigger := positive.
Definition module := positive.
Definition symbol := positive.

(* an entry of a dependency set: deps.py maps a trigger to targets AND to other triggers *)
Inductive loc := Trig (g : trigger) | Targ (t : target).

(* dict[str, set[str]] as an association list; several entries for one key are united *)
Definition depmap := list (trigger * list loc).

Definition loc_eqb (a b : loc) : bool :=
  match a, b with
  | Trig x, Trig y => Pos.eqb x y
  | Targ x, Targ y => Pos.eqb x y
  | _, _ => false
  end.

Definition mem_loc (x : loc) (l : list loc) : bool := existsb (loc_eqb x) l.
Definition mem_pos (x : positive) (l : list positive) : bool := existsb (Pos.eqb x) l.

Fixpoint dedup_loc (l : list loc) : list loc :=
  match l with
  | [] => []
  | x :: r => if mem_loc x r then dedup_loc r else x :: dedup_loc r
  end.

Fixpoint dedup_pos (l : list positive) : list positive :=
  match l with
  | [] => []
  | x :: r => if mem_pos x r then dedup_pos r else x :: dedup_pos r
  end.

Fixpoint insert_pos (x : positive) (l : list positive) : list positive :=
  match l with
  | [] => [x]
  | y :: r => if Pos.leb x y then x :: l else y :: insert_pos x r
  end.
Definition sort_pos (l : list positive) : list positive := fold_right insert_pos [] l.

(* deps.get(trigger, set()) *)
Definition deps_get (D : depmap) (g : trigger) : list loc :=
  flat_map (fun e => if Pos.eqb (fst e) g then snd e else []) D.

(* deps.setdefault(trigger, set()).update(targets) for every item of [new] *)
Definition deps_merge (D new : depmap) : depmap := new ++ D.

(* ------------------------------------------------------------------ Part 1: find_targets_recursive *)

Definition successors (D : depmap) (x : loc) : list loc :=
  match x with Trig g => deps_get D g | Targ _ => [] end.

(* while worklist: processed |= worklist; current = worklist; worklist = set()
     for target in current: if target.startswith('<'): worklist |= deps.get(target, set()) - processed *)
Fixpoint bfs (fuel : nat) (D : depmap) (worklist processed : list loc) : option (list loc) :=
  match worklist with
  | [] => Some processed
  | _ :: _ =>
    match fuel with
    | O => None
    | S f =>
      let processed' := worklist ++ processed in
      let next := dedup_loc (filter (fun x => negb (mem_loc x processed'))
                                    (flat_map (successors D) worklist)) in
      bfs f D next processed'
    end
  end.

Definition targets_in (l : list loc) : list target :=
  flat_map (fun x => match x with Targ t => [t] | Trig _ => [] end) l.

(* every entry that can ever enter the worklist *)
Definition universe (D : depmap) (init : list trigger) : list loc :=
  map Trig init ++ flat_map snd D.

Definition bfs_fuel (D : depmap) (init : list trigger) : nat := S (length (universe D init)).

(* all non-trigger entries met by the worklist ("else:" branch), before the per-module filters *)
Definition reachable_targets (D : depmap) (init : list trigger) : option (list target) :=
  match bfs (bfs_fuel D init) D (dedup_loc (map Trig init)) [] with
  | Some p => Some (targets_in p)
  | None => None
  end.

(* the per-target filters of the "else:" branch:
   module_prefix is None (deleted module) / module in up_to_date_modules / module not loaded *)
Definition find_targets_recursive (mod_of : target -> module) (live loaded : module -> bool)
           (D : depmap) (U : list module) (triggers : list trigger)
  : option (list target * list module) :=
  match reachable_targets D triggers with
  | None => None
  | Some ts =>
    let ok := filter (fun t => live (mod_of t) && negb (mem_pos (mod_of t) U)) ts in
    Some (filter (fun t => loaded (mod_of t)) ok,
          dedup_pos (map mod_of (filter (fun t => negb (loaded (mod_of t))) ok)))
  end.

(* ------------------------------------------------------------------ Part 2: the propagation loop *)

Definition MAX_ITER : nat := 1000.

Section Loop.
  Variable S : Type.
  Variable deps_of_state : S -> depmap.
  Variable mod_of : target -> module.
  Variable live : S -> module -> bool.              (* module id in graph *)
  Variable lookup : S -> target -> list target.     (* lookup_target: a name in deps -> units to reprocess *)
  Variable reprocess : S -> module -> list target -> S * list trigger.   (* reprocess_nodes *)

  (* todo[module] for the reached targets and for the targets that used to have errors *)
  Definition todo_of (st : S) (U : list module) (names : list target) : list target :=
    dedup_pos (flat_map (lookup st)
       (filter (fun t => live st (mod_of t) && negb (mem_pos (mod_of t) U)) names)).

  Definition reprocess_all (st : S) (todo : list target) : S * list trigger :=
    fold_left (fun (acc : S * list trigger) (m : module) =>
                 let (s', fr) := reprocess (fst acc) m
                                   (filter (fun u => Pos.eqb (mod_of u) m) todo) in
                 (s', snd acc ++ fr))
              (sort_pos (dedup_pos (map mod_of todo))) (st, []).

  (* while triggered or targets_with_errors: ... ; None = RuntimeError (MAX_ITER) *)
  Fixpoint propagate (fuel : nat) (st : S) (F : list trigger) (U : list module) (E : list target)
    : option S :=
    match F, E with
    | [], [] => Some st
    | _, _ =>
      match fuel with
      | O => None
      | Datatypes.S f =>
        match reachable_targets (deps_of_state st) F with
        | None => None
        | Some reached =>
          let todo := todo_of st U (reached ++ E) in
          let (st', F') := reprocess_all st todo in
          propagate f st' (dedup_pos F') [] []
        end
      end
    end.

  (* the same loop, also returning the todo list of every iteration (for trace validation) *)
  Fixpoint propagate_trace (fuel : nat) (st : S) (F : list trigger) (U : list module)
           (E : list target) (acc : list (list target)) : option (S * list (list target)) :=
    match F, E with
    | [], [] => Some (st, rev acc)
    | _, _ =>
      match fuel with
      | O => None
      | Datatypes.S f =>
        match reachable_targets (deps_of_state st) F with
        | None => None
        | Some reached =>
          let todo := todo_of st U (reached ++ E) in
          let (st', F') := reprocess_all st todo in
          propagate_trace f st' (dedup_pos F') [] [] (todo :: acc)
        end
      end
    end.
End Loop.

(* ------------------------------------------------------------------ Part 3: the daemon *)

Section Daemon.
  Variables (src sig err : Type).

  Definition env := symbol -> option sig.          (* all symbol-table snapshots together *)
  Definition prog := module -> option src.         (* the files as they are; None = no such file *)

  (* what processing one target yields *)
  Record result := mkResult {
    r_errs : list err;                 (* its diagnostics (Errors entries with this target) *)
    r_snap : symbol -> option sig;     (* the snapshot entries it defines *)
    r_deps : depmap                    (* get_dependencies_of_target *)
  }.

  Variable mod_of : target -> module.                         (* module_prefix *)
  Variable units_of : module -> src -> list target.           (* targets of a file, in line order *)
  Variable owner : symbol -> target.                          (* the unit whose processing defines a symbol *)
  Variable lookup_target : prog -> target -> list target.     (* update.lookup_target *)
  Variable check_target : src -> env -> target -> result.     (* strip + semanal + check + deps of ONE target *)
  Variable check_module : prog -> env -> module -> src -> target -> option result.
                                                              (* update_module_isolated: the whole file *)
  Variable diff : module -> env -> env -> list trigger.       (* compare_symbol_table_snapshots + wildcards *)

  Definition resmap := target -> option result.

  Record dstate := mkD {
    d_prog : prog;
    d_res : resmap;                    (* in-memory ASTs / symbol tables / types, by target *)
    d_deps : depmap;                   (* FineGrainedBuildManager.deps *)
    d_errs : target -> list err;       (* manager.errors.error_info_map, by target *)
    d_prev : list target               (* previous_targets_with_errors *)
  }.

  Definition env_of (res : resmap) : env :=
    fun s => match res (owner s) with Some r => r_snap r s | None => None end.

  Definition upd {A} (f : target -> A) (u : target) (a : A) : target -> A :=
    fun x => if Pos.eqb x u then a else f x.

  Definition is_unit (p : prog) (u : target) : bool :=
    match p (mod_of u) with
    | Some s => mem_pos u (units_of (mod_of u) s)
    | None => false
    end.

  Definition d_live (st : dstate) (m : module) : bool :=
    match d_prog st m with Some _ => true | None => false end.

  (* reprocess_nodes: clear_errors_in_targets; re-check each node in line order against the symbol
     tables as they are at that moment; compare snapshots; update_deps *)
  Definition reprocess_one (s : src) (st : dstate) (u : target) : dstate :=
    let r := check_target s (env_of (d_res st)) u in
    mkD (d_prog st) (upd (d_res st) u (Some r)) (deps_merge (d_deps st) (r_deps r))
        (upd (d_errs st) u (r_errs r)) (d_prev st).

  Definition reprocess_nodes (st : dstate) (m : module) (nodes : list target) : dstate * list trigger :=
    match d_prog st m with
    | None => (st, [])                                        (* "not in graph (blocking errors or deleted?)" *)
    | Some s =>
      let nodes' := filter (fun u => mem_pos u nodes) (units_of m s) in     (* sorted by line, existing only *)
      let cleared := mkD (d_prog st) (d_res st) (d_deps st)
                         (fun u => if mem_pos u nodes' then [] else d_errs st u) (d_prev st) in
      let st' := fold_left (reprocess_one s) nodes' cleared in
      (st', diff m (env_of (d_res st)) (env_of (d_res st')))
    end.

  Definition d_propagate (st : dstate) (F : list trigger) (U : list module) (E : list target)
    : option dstate :=
    propagate dstate d_deps mod_of d_live (fun st => lookup_target (d_prog st)) reprocess_nodes
              MAX_ITER st F U E.

  (* Errors.targets() restricted to a finite candidate list *)
  Definition err_targets (st : dstate) (cands : list target) : list target :=
    filter (fun u => match d_errs st u with [] => false | _ => true end) cands.

  Definition all_units (p : prog) (mods : list module) : list target :=
    flat_map (fun m => match p m with Some s => units_of m s | None => [] end) mods.

  (* update_module (+ update_module_isolated / delete_module) for one changed module;
     [p'] = the files as they are now on disk; the in-memory program [d_prog] is replaced one
     module at a time; [mods] = every module id that exists before or after *)
  Definition update_module (mods : list module) (p' : prog) (st : dstate) (m : module)
    : option dstate :=
    let pm : prog := fun x => if Pos.eqb x m then p' m else d_prog st x in
    let old_env := env_of (d_res st) in
    let res' : resmap :=
        match p' m with
        | None => fun u => if Pos.eqb (mod_of u) m then None else d_res st u         (* delete_module *)
        | Some s => fun u => if Pos.eqb (mod_of u) m
                             then check_module pm old_env m s u else d_res st u
        end in
    let new_deps := match p' m with
                    | None => []
                    | Some s => flat_map (fun u => match res' u with Some r => r_deps r | None => [] end)
                                         (units_of m s)
                    end in
    (* manager.errors.reset(): every stored error is dropped; the file's own are regenerated *)
    let errs' := fun u => if Pos.eqb (mod_of u) m
                          then match res' u with Some r => r_errs r | None => [] end else [] in
    let triggered := diff m old_env (env_of res') in
    let st1 := mkD pm res' (deps_merge (d_deps st) new_deps) errs' (d_prev st) in
    match d_propagate st1 (dedup_pos triggered) [m] [] with
    | None => None
    | Some st2 =>
      (* self.previous_targets_with_errors.update(manager.errors.targets()) *)
      Some (mkD (d_prog st2) (d_res st2) (d_deps st2) (d_errs st2)
                (err_targets st2 (all_units pm mods) ++ d_prev st2))
    end.

  Fixpoint update_modules (mods : list module) (p' : prog) (st : dstate) (changed : list module)
    : option (dstate * option module) :=
    match changed with
    | [] => Some (st, None)
    | m :: rest =>
      match update_module mods p' st m with
      | None => None
      | Some st' =>
        match rest with
        | [] => Some (st', Some m)
        | _ => update_modules mods p' st' rest
        end
      end
    end.

  (* FineGrainedBuildManager.update(changed + removed): [p'] are the files now, [changed] the
     (deduplicated) modules reported by the watcher *)
  Definition update (mods : list module) (st : dstate) (p' : prog) (changed : list module)
    : option dstate :=
    match changed with
    | [] => Some st                                      (* return self.previous_messages *)
    | _ =>
      match update_modules mods p' st changed with
      | None => None
      | Some (st1, last) =>
        let U := match last with Some m => [m] | None => [] end in
        (* reprocess all targets that used to have errors, except in the module just checked *)
        match d_propagate st1 [] U (d_prev st1) with
        | None => None
        | Some st2 =>
          Some (mkD (d_prog st2) (d_res st2) (d_deps st2) (d_errs st2)
                    (err_targets st2 (all_units (d_prog st2) mods)))
        end
      end
    end.

  (* what the daemon reports: the diagnostics of every target *)
  Definition errors (st : dstate) : target -> list err := d_errs st.
End Daemon.

Arguments mkResult {sig err} _ _ _.
Arguments r_errs {sig err} _.
Arguments r_snap {sig err} _ _.
Arguments r_deps {sig err} _.
Arguments mkD {src sig err} _ _ _ _ _.
Arguments d_prog {src sig err} _ _.
Arguments d_res {src sig err} _ _.
Arguments d_deps {src sig err} _.
Arguments d_errs {src sig err} _ _.
Arguments d_prev {src sig err} _.

(* ------------------------------------------------------------------ Part 4: FileSystemWatcher *)

Section Watcher.
  Variable content : Type.
  Variable content_eqb : content -> content -> bool.
  Definition path := positive.

  (* os.stat + read: None = no such file; (int(st_mtime), st_size, bytes).
     hash_digest is modelled as the identity on contents (DESIGN section 3). *)
  Record fstat := mkStat { f_mtime : positive; f_size : positive; f_data : content }.
  Definition fs := path -> option fstat.
  Definition file_data := path -> option fstat.   (* FileData(st_mtime, st_size, hash) or None *)

  (* one iteration of the loop of _find_changed: (changed?, new _file_data[path]) *)
  Definition find_changed_one (old : option fstat) (st : option fstat) : bool * option fstat :=
    match st with
    | None => match old with
              | Some _ => (true, None)               (* File was deleted. *)
              | None => (false, None)
              end
    | Some s =>
      match old with
      | None => (true, Some s)                        (* File is new. *)
      | Some o =>
        if negb (Pos.eqb (f_size s) (f_size o)) || negb (Pos.eqb (f_mtime s) (f_mtime o))
        then (negb (Pos.eqb (f_size s) (f_size o)) || negb (content_eqb (f_data s) (f_data o)),
              Some s)                                 (* _update, then compare size / hash *)
        else (false, Some o)                          (* assumed unchanged: not even hashed *)
      end
    end.

  Fixpoint find_changed (paths : list path) (fd : file_data) (f : fs) : list path * file_data :=
    match paths with
    | [] => ([], fd)
    | p :: rest =>
      let (c, d) := find_changed_one (fd p) (f p) in
      let fd' := fun q => if Pos.eqb q p then d else fd q in
      let (cs, fd'') := find_changed rest fd' f in
      (if c then p :: cs else cs, fd'')
    end.
End Watcher.

Arguments mkStat {content} _ _ _.
Arguments f_mtime {content} _.
Arguments f_size {content} _.
Arguments f_data {content} _.
