(* C03 — FileSystemWatcher._find_changed reports exactly the changed paths (mtime discipline). *)
From Coq Require Import PArith List Bool.
From C03 Require Import Model Statement.
Import ListNotations.

Section W.
  Variable content : Type.
  Variable content_eqb : content -> content -> bool.
  Hypothesis eqb_spec : content_eqb_spec content content_eqb.

  Lemma one_spec : forall (old st : option (fstat content)),
    (forall o s, old = Some o -> st = Some s -> f_size s = f_size o -> f_mtime s = f_mtime o -> f_data s = f_data o) ->
    (forall o s, old = Some o -> st = Some s -> f_data s = f_data o -> f_size s = f_size o) ->
    (fst (find_changed_one content content_eqb old st) = true <-> data_of content old <> data_of content st) /\
    snd (find_changed_one content content_eqb old st) = st.
  Proof.
    intros old st Hm Hs. destruct st as [s|]; destruct old as [o|]; simpl.
    - destruct (Pos.eqb (f_size s) (f_size o)) eqn:Esz; simpl.
      + apply Pos.eqb_eq in Esz.
        destruct (Pos.eqb (f_mtime s) (f_mtime o)) eqn:Emt; simpl.
        * apply Pos.eqb_eq in Emt.
          assert (Hd : f_data s = f_data o) by (apply (Hm o s); auto).
          split.
          -- split; [discriminate|]. intro H. exfalso. apply H. rewrite Hd. reflexivity.
          -- destruct s, o; simpl in *; subst; reflexivity.
        * split; [|reflexivity].
          destruct (content_eqb (f_data s) (f_data o)) eqn:Ec; simpl.
          -- apply eqb_spec in Ec. split; [discriminate|]. intro H. exfalso. apply H. rewrite Ec. reflexivity.
          -- split; [|reflexivity]. intros _ H. injection H as H.
             assert (content_eqb (f_data s) (f_data o) = true) by (apply eqb_spec; symmetry; assumption).
             congruence.
      + split; [|reflexivity]. split; [|reflexivity]. intros _ H. injection H as H.
        assert (f_size s = f_size o) by (apply (Hs o s); auto).
        apply Pos.eqb_neq in Esz. contradiction.
    - split; [|reflexivity]. split; [discriminate | reflexivity].
    - split; [|reflexivity]. split; [discriminate | reflexivity].
    - split; [|reflexivity]. split; [discriminate|]. intro H. exfalso. apply H. reflexivity.
  Qed.

  Lemma find_changed_spec : forall (f f' : fs content),
    mtime_discipline content f f' -> size_of_data content f f' ->
    forall paths (fd : file_data content),
    NoDup paths -> (forall p, In p paths -> fd p = f p) ->
    (forall p, In p (fst (find_changed content content_eqb paths fd f')) <->
               In p paths /\ data_of content (f p) <> data_of content (f' p)) /\
    (forall p, In p paths -> snd (find_changed content content_eqb paths fd f') p = f' p) /\
    (forall q, ~ In q paths -> snd (find_changed content content_eqb paths fd f') q = fd q).
  Proof.
    intros f f' Hm Hs paths. induction paths as [|p rest IH]; intros fd Nd Hfd.
    - simpl. split; [|split].
      + intro p. split; [intros [] | intros [[] _]].
      + intros p [].
      + reflexivity.
    - inversion Nd as [|? ? Hnotin Nrest]; subst.
      simpl.
      destruct (find_changed_one content content_eqb (fd p) (f' p)) as [c d] eqn:E1.
      set (fd1 := fun q => if Pos.eqb q p then d else fd q).
      destruct (find_changed content content_eqb rest fd1 f') as [cs fd2] eqn:E2.
      assert (Hone := one_spec (fd p) (f' p)).
      rewrite E1 in Hone. simpl in Hone.
      destruct Hone as [Hc Hd].
      { intros o s Ho Hs'. rewrite (Hfd p (or_introl eq_refl)) in Ho. apply (Hm p o s); assumption. }
      { intros o s Ho Hs'. rewrite (Hfd p (or_introl eq_refl)) in Ho. apply (Hs p o s); assumption. }
      rewrite (Hfd p (or_introl eq_refl)) in Hc.
      assert (Hfd1 : forall q, In q rest -> fd1 q = f q).
      { intros q Hq. unfold fd1. destruct (Pos.eqb q p) eqn:Eq.
        - apply Pos.eqb_eq in Eq. subst. contradiction.
        - apply Hfd. right. assumption. }
      specialize (IH fd1 Nrest Hfd1). rewrite E2 in IH. simpl in IH.
      destruct IH as (IHc & IHin & IHout).
      simpl. split; [|split].
      + intro q. split.
        * intro H. destruct c.
          -- destruct H as [H|H].
             ++ subst q. split; [left; reflexivity | apply Hc; reflexivity].
             ++ apply IHc in H. tauto.
          -- apply IHc in H. tauto.
        * intros [[H|H] Hne].
          -- subst q. apply Hc in Hne. subst c. left. reflexivity.
          -- assert (In q cs) by (apply IHc; tauto). destruct c; [right|]; assumption.
      + intros q [H|H].
        * subst q. rewrite (IHout p Hnotin). unfold fd1. rewrite Pos.eqb_refl. assumption.
        * apply IHin. assumption.
      + intros q Hq. rewrite IHout by tauto. unfold fd1.
        destruct (Pos.eqb q p) eqn:Eq; [|reflexivity].
        apply Pos.eqb_eq in Eq. subst. exfalso. apply Hq. left. reflexivity.
  Qed.

  Theorem watcher_detects_every_change_sec : watcher_detects_every_change_stmt content content_eqb.
  Proof.
    intros _ paths fd f f' Nd Hfd Hm Hs.
    destruct (find_changed_spec f f' Hm Hs paths fd Nd Hfd) as (H1 & H2 & _).
    destruct (find_changed content content_eqb paths fd f') as [changed fd'].
    simpl in *. split; [exact H1 | exact H2].
  Qed.
End W.

Theorem watcher_detects_every_change : forall (content : Type) (content_eqb : content -> content -> bool),
  watcher_detects_every_change_stmt content content_eqb.
Proof.
  intros content content_eqb Hspec.
  exact (watcher_detects_every_change_sec content content_eqb Hspec Hspec).
Qed.
