(* C03 — the contracts of update_eq_full PROVED for the mini language of MiniLang.v. *)
From Coq Require Import PArith List Bool Lia.
From C03 Require Import Model Statement ProofsBfs ProofsUpdate MiniLang.
Import ListNotations.

Lemma ty_eq_dec : forall a b : ty, {a = b} + {a <> b}.
Proof. decide equality; apply Pos.eq_dec. Defined.

Lemma sig_eq_dec : forall a b : sig, {a = b} + {a <> b}.
Proof.
  decide equality; try apply ty_eq_dec; try apply Pos.eq_dec.
  - apply list_eq_dec. apply ty_eq_dec.
  - apply list_eq_dec. decide equality; apply Pos.eq_dec.
Defined.

Definition osig_eqb (a b : option sig) : bool :=
  match a, b with
  | None, None => true
  | Some x, Some y => if sig_eq_dec x y then true else false
  | _, _ => false
  end.

Lemma osig_eqb_eq : forall a b, osig_eqb a b = true -> a = b.
Proof.
  intros [x|] [y|]; simpl; try discriminate; try reflexivity.
  destruct (sig_eq_dec x y); [intros _; subst; reflexivity | discriminate].
Qed.

Lemma osig_eqb_refl : forall a, osig_eqb a a = true.
Proof. intros [x|]; simpl; [|reflexivity]. destruct (sig_eq_dec x x); [reflexivity | contradiction]. Qed.

Section P.
  Variable sym : skey -> symbol.
  Variable key_of : symbol -> skey.
  Variable tgt : tkey -> target.
  Variable tkey_of : target -> tkey.
  Variable syms_of : module -> list symbol.
  Variable FUEL : nat.
  (* laws of the naming scheme *)
  Hypothesis tkey_tgt : forall k, tkey_of (tgt k) = k.
  Hypothesis syms_fin : forall x, In x (syms_of (kmod key_of x)).

  Notation menv := (env sig).
  Notation R := (R).
  Notation read := (read sym).
  Notation resolve := (resolve sym).
  Notation find_member := (find_member sym).
  Notation subclass := (subclass sym).
  Notation subtype := (subtype sym FUEL).
  Notation call := (call sym FUEL).
  Notation infer := (infer sym FUEL).
  Notation check_stmt := (check_stmt sym FUEL).
  Notation check_body := (check_body sym FUEL).
  Notation check_overrides := (check_overrides sym FUEL).
  Notation check_classes := (check_classes sym FUEL).
  Notation run_target := (run_target sym tkey_of FUEL).
  Notation mcheck_target := (mcheck_target sym key_of tkey_of FUEL).
  Notation munits_of := (munits_of tgt).
  Notation mcheck_module := (mcheck_module sym key_of tgt tkey_of FUEL).
  Notation mfull_check := (mfull_check sym key_of tgt tkey_of FUEL).
  Notation mmod_of := (mmod_of tkey_of).
  Notation mowner := (mowner key_of tgt).
  Notation kmod := (kmod key_of).
  Notation mdiff := (mdiff syms_of osig_eqb).
  Notation genv := (genv key_of).
  Notation override := (override key_of).

  (* a computation depends on the symbol tables only through the symbols it logs *)
  Definition ok {A} (c : R A) : Prop :=
    forall e e' : menv, (forall x, In x (fst (c e)) -> e' x = e x) -> c e' = c e.

  Lemma ok_ret : forall A (a : A), ok (ret a).
  Proof. intros A a e e' _. reflexivity. Qed.

  Lemma ok_read : forall k, ok (read k).
  Proof. intros k e e' H. unfold MiniLang.read. rewrite (H (sym k)); [reflexivity | left; reflexivity]. Qed.

  Lemma ok_bind : forall A B (c : R A) (f : A -> R B), ok c -> (forall a, ok (f a)) -> ok (bind c f).
  Proof.
    intros A B c f Hc Hf e e' H. unfold bind in *.
    destruct (c e) as [l1 a] eqn:E1. destruct (f a e) as [l2 b] eqn:E2. simpl in H.
    assert (H1 : c e' = (l1, a)).
    { rewrite <- E1. apply Hc. rewrite E1. simpl. intros x Hx. apply H. apply in_or_app. left. assumption. }
    rewrite H1.
    assert (H2 : f a e' = (l2, b)).
    { rewrite <- E2. apply Hf. rewrite E2. simpl. intros x Hx. apply H. apply in_or_app. right. assumption. }
    rewrite H2. reflexivity.
  Qed.

  Lemma ok_first_some : forall A B (f : A -> R (option B)) l, (forall a, ok (f a)) -> ok (first_some f l).
  Proof.
    intros A B f l Hf. induction l as [|a r IH]; simpl; [apply ok_ret|].
    apply ok_bind; [apply Hf|]. intros [b|]; [apply ok_ret | exact IH].
  Qed.

  Lemma ok_any_true : forall A (f : A -> R bool) l, (forall a, ok (f a)) -> ok (any_true f l).
  Proof.
    intros A f l Hf. induction l as [|a r IH]; simpl; [apply ok_ret|].
    apply ok_bind; [apply Hf|]. intros [|]; [apply ok_ret | exact IH].
  Qed.

  Ltac ok_step :=
    match goal with
    | |- ok (ret _) => apply ok_ret
    | |- ok (first_some _ _) => apply ok_first_some; intro
    | |- ok (any_true _ _) => apply ok_any_true; intro
    | |- ok (read _) => apply ok_read
    | |- ok (bind _ _) => apply ok_bind; [|intro]
    | |- ok (match ?x with _ => _ end) => destruct x
    | |- ok (if ?x then _ else _) => destruct x
    | H : _ |- _ => solve [apply H]
    end.
  Ltac ok_auto := repeat ok_step.

  Lemma ok_resolve : forall fuel m x, ok (resolve fuel m x).
  Proof. induction fuel as [|f IH]; intros m x; simpl; ok_auto. Qed.

  Lemma ok_find_member : forall fuel m c a, ok (find_member fuel m c a).
  Proof. induction fuel as [|f IH]; intros m c a; simpl; ok_auto. Qed.

  Lemma ok_subclass : forall fuel m c m' c', ok (subclass fuel m c m' c').
  Proof. induction fuel as [|f IH]; intros m c m' c'; simpl; ok_auto. Qed.

  Lemma ok_subtype : forall t1 t2, ok (subtype t1 t2).
  Proof. intros t1 t2. unfold MiniLang.subtype. destruct t1, t2; try apply ok_ret. apply ok_subclass. Qed.

  Lemma ok_call : forall v arg, ok (call v arg).
  Proof.
    intros v arg. pose proof ok_subtype as Hs. pose proof (ok_find_member FUEL) as Hf.
    unfold MiniLang.call. cbv zeta. ok_auto.
  Qed.

  Lemma ok_infer : forall self_mod params ex, ok (infer self_mod params ex).
  Proof.
    intros self_mod params ex. pose proof (ok_resolve FUEL) as Hr. pose proof (ok_find_member FUEL) as Hf.
    pose proof ok_call as Hc.
    induction ex; simpl; ok_auto.
  Qed.

  Lemma ok_check_stmt : forall self_mod params rt st, ok (check_stmt self_mod params rt st).
  Proof.
    intros self_mod params rt st. pose proof (ok_infer self_mod params) as Hi. pose proof ok_subtype as Hs.
    unfold MiniLang.check_stmt. cbv zeta. destruct st; ok_auto.
  Qed.

  Lemma ok_check_body : forall self_mod params rt b, ok (check_body self_mod params rt b).
  Proof.
    intros self_mod params rt b. pose proof (ok_check_stmt self_mod params rt) as Hs.
    induction b as [|st r IH]; simpl; ok_auto.
  Qed.

  Lemma ok_check_overrides : forall bm bc ms, ok (check_overrides bm bc ms).
  Proof.
    intros bm bc ms. pose proof (ok_find_member FUEL) as Hf.
    induction ms as [|[a f] r IH]; simpl; ok_auto.
  Qed.

  Lemma ok_check_bases : forall ms bs, ok (check_bases sym FUEL ms bs).
  Proof.
    intros ms bs. pose proof (ok_resolve FUEL) as Hr. pose proof ok_check_overrides as Ho.
    induction bs as [|[bm bc] r IH]; simpl; ok_auto.
  Qed.

  Lemma ok_check_classes : forall cs, ok (check_classes cs).
  Proof.
    intros cs. pose proof ok_check_bases as Hb.
    induction cs as [|[c cd] r IH]; simpl; ok_auto.
  Qed.

  Lemma ok_run_target : forall s u, ok (run_target s u).
  Proof.
    intros s u. pose proof ok_check_classes as Hc. pose proof ok_check_body as Hb.
    unfold MiniLang.run_target. ok_auto.
  Qed.

  Lemma mcheck_agree : forall s e e' u,
    (forall x, In x (fst (run_target s u e)) -> e' x = e x) -> mcheck_target s e' u = mcheck_target s e u.
  Proof.
    intros s e e' u H. unfold MiniLang.mcheck_target. rewrite (ok_run_target s u e e' H). reflexivity.
  Qed.

  Lemma mcheck_ext : forall s e e' u, (forall x, e' x = e x) -> mcheck_target s e' u = mcheck_target s e u.
  Proof. intros s e e' u H. apply mcheck_agree. intros x _. apply H. Qed.

  Lemma snap_mcheck : forall s e u x,
    r_snap (mcheck_target s e u) x =
    match tkey_of u with
    | (m, None) => if Pos.eqb (kmod x) m then decl s (key_of x) else None
    | _ => None
    end.
  Proof. intros s e u x. unfold MiniLang.mcheck_target. destruct (run_target s u e). reflexivity. Qed.

  (* ---- deps_complete: PROVED for the mini language *)
  Theorem deps_complete_mini :
    deps_complete msrc sig merr (fun x => x) mlookup_target mcheck_target.
  Proof.
    intros p s e e' u D Hinc Hhits. apply mcheck_agree. intros x Hx. apply Hhits.
    exists u. split; [|left; reflexivity].
    eapply reach_step; [apply reach_init; left; reflexivity|].
    apply Hinc. unfold MiniLang.mcheck_target. destruct (run_target s u e) as [reads errs]. simpl in *.
    apply deps_get_In. exists [Targ u]. split; [|left; reflexivity].
    unfold deps_of_reads. apply in_map_iff. exists x. split; [reflexivity | assumption].
  Qed.

  Lemma mmod_mowner : forall x, mmod_of (mowner x) = kmod x.
  Proof. intro x. unfold MiniLang.mmod_of, MiniLang.mowner. rewrite tkey_tgt. reflexivity. Qed.

  (* ---- diff_complete: PROVED *)
  Theorem diff_complete_mini : diff_complete sig mmod_of mowner (fun x => x) mdiff.
  Proof.
    intros m e e' x Hm Hn. rewrite mmod_mowner in Hm. subst m.
    destruct (osig_eqb (e x) (e' x)) eqn:E; [apply osig_eqb_eq; assumption|].
    exfalso. apply Hn. unfold MiniLang.mdiff. apply filter_In. split; [apply syms_fin|]. rewrite E. reflexivity.
  Qed.

  (* the diff is also exact: it fires nothing when nothing differs *)
  Lemma mdiff_same : forall m e e', (forall x, e x = e' x) -> mdiff m e e' = [].
  Proof.
    intros m e e' H. unfold MiniLang.mdiff. induction (syms_of m) as [|x l IH]; simpl; [reflexivity|].
    rewrite H, osig_eqb_refl. simpl. exact IH.
  Qed.

  Lemma units_mod : forall m s u, In u (munits_of m s) -> mmod_of u = m.
  Proof.
    intros m s u H. unfold MiniLang.munits_of in H. apply -> dedup_pos_In in H.
    destruct H as [<-|H]; [unfold MiniLang.mmod_of; rewrite tkey_tgt; reflexivity|].
    apply in_app_or in H. destruct H as [H|H].
    - apply in_map_iff in H. destruct H as (f & <- & _). unfold MiniLang.mmod_of. rewrite tkey_tgt. reflexivity.
    - apply in_flat_map in H. destruct H as (c & _ & H). apply in_map_iff in H. destruct H as (a & <- & _).
      unfold MiniLang.mmod_of. rewrite tkey_tgt. reflexivity.
  Qed.

  Lemma top_unit : forall m s, In (tgt (m, None)) (munits_of m s).
  Proof. intros m s. unfold MiniLang.munits_of. apply dedup_pos_In. left. reflexivity. Qed.

  Theorem names_ok_mini : names_ok msrc mmod_of munits_of mlookup_target.
  Proof.
    split; [exact units_mod|]. split; [intros m s; apply dedup_pos_NoDup|]. split.
    - intros p t u [<-|[]]. reflexivity.
    - intros p u _. left. reflexivity.
  Qed.

  Notation menv_of := (env_of sig merr mowner).

  (* ---- check_module_consistent: PROVED *)
  Theorem check_module_consistent_mini :
    check_module_consistent msrc sig merr mmod_of munits_of mowner mcheck_target mcheck_module.
  Proof.
    intros p res m s Hp res'.
    assert (Henv : forall x, menv_of res' x = override (menv_of res) m s x).
    { intro x. unfold Model.env_of, MiniLang.override. unfold res' at 1. rewrite mmod_mowner.
      destruct (Pos.eqb (kmod x) m) eqn:E.
      - apply Pos.eqb_eq in E. unfold MiniLang.mcheck_module, MiniLang.mowner. rewrite E.
        assert (Hm : mem_pos (tgt (m, None)) (munits_of m s) = true) by (apply mem_pos_In; apply top_unit).
        rewrite Hm. rewrite snap_mcheck. rewrite tkey_tgt. rewrite E, Pos.eqb_refl. reflexivity.
      - reflexivity. }
    split.
    - intros u Hu. unfold res'. rewrite (units_mod _ _ _ Hu), Pos.eqb_refl.
      unfold MiniLang.mcheck_module. apply mem_pos_In in Hu. rewrite Hu. f_equal.
      symmetry. apply mcheck_ext. exact Henv.
    - intros u Hu Hn. unfold res'. rewrite Hu, Pos.eqb_refl. unfold MiniLang.mcheck_module.
      apply mem_pos_false in Hn. rewrite Hn. reflexivity.
  Qed.

  Lemma consistent_env : forall p r,
    consistent msrc sig merr mmod_of munits_of mowner mcheck_target p r ->
    forall x, menv_of r x = genv p x.
  Proof.
    intros p r (H1 & H2) x. unfold Model.env_of, MiniLang.genv.
    destruct (p (kmod x)) as [s|] eqn:Ep.
    - assert (Hu : r (mowner x) = Some (mcheck_target s (menv_of r) (mowner x))).
      { apply H1; rewrite mmod_mowner; [exact Ep | apply top_unit]. }
      rewrite Hu, snap_mcheck. unfold MiniLang.mowner. rewrite tkey_tgt, Pos.eqb_refl. reflexivity.
    - assert (Hu : r (mowner x) = None).
      { apply H2. unfold Model.is_unit. rewrite mmod_mowner, Ep. reflexivity. }
      rewrite Hu. reflexivity.
  Qed.

  Lemma full_env : forall p x, menv_of (mfull_check p) x = genv p x.
  Proof.
    intros p x. unfold Model.env_of, MiniLang.genv, MiniLang.mfull_check. rewrite mmod_mowner.
    destruct (p (kmod x)) as [s|] eqn:Ep; [|reflexivity].
    assert (Hm : mem_pos (mowner x) (munits_of (kmod x) s) = true) by (apply mem_pos_In; apply top_unit).
    rewrite Hm, snap_mcheck. unfold MiniLang.mowner. rewrite tkey_tgt, Pos.eqb_refl. reflexivity.
  Qed.

  (* ---- the batch-build contracts: PROVED (snapshots are declared, so the fixpoint is unique) *)
  Theorem full_check_consistent_mini :
    full_check_consistent msrc sig merr mmod_of munits_of mowner mcheck_target mfull_check.
  Proof.
    intro p. split.
    - intros u s Hp Hu. unfold MiniLang.mfull_check at 1. rewrite Hp. apply mem_pos_In in Hu. rewrite Hu. f_equal.
      symmetry. apply mcheck_ext. apply full_env.
    - intros u Hu. unfold Model.is_unit in Hu. unfold MiniLang.mfull_check.
      destruct (p (mmod_of u)); [rewrite Hu|]; reflexivity.
  Qed.

  Theorem consistent_unique_mini :
    consistent_unique msrc sig merr mmod_of munits_of mowner mcheck_target.
  Proof.
    intros p r1 r2 C1 C2 u.
    pose proof (consistent_env p r1 C1) as E1. pose proof (consistent_env p r2 C2) as E2.
    destruct C1 as (A1 & A2). destruct C2 as (B1 & B2).
    destruct (is_unit msrc mmod_of munits_of p u) eqn:Eu.
    - unfold Model.is_unit in Eu. destruct (p (mmod_of u)) as [s|] eqn:Ep; [|discriminate].
      apply mem_pos_In in Eu. rewrite (A1 u s Ep Eu), (B1 u s Ep Eu). f_equal.
      rewrite (mcheck_ext s (genv p) (menv_of r1) u E1). symmetry. apply (mcheck_ext s (genv p) (menv_of r2) u E2).
    - rewrite (A2 u Eu), (B2 u Eu). reflexivity.
  Qed.

  (* ---- update_eq_full without hypotheses about the checker / deps / diff (only the naming-scheme laws) *)
  Theorem update_eq_full_minilang_proof :
    forall mods st p' changed st',
      state_ok msrc sig merr mmod_of munits_of mowner mcheck_target st ->
      edit_ok msrc sig merr mods st p' changed ->
      update msrc sig merr mmod_of munits_of mowner mlookup_target mcheck_target mcheck_module mdiff
             mods st p' changed = Some st' ->
      (forall u, errors msrc sig merr st' u = errs_of sig merr (mfull_check p' u)) /\
      (forall m, d_prog st' m = p' m) /\
      state_ok msrc sig merr mmod_of munits_of mowner mcheck_target st'.
  Proof.
    exact (update_eq_full_proof msrc sig merr mmod_of munits_of mowner (fun x => x) mlookup_target mcheck_target
             mcheck_module mdiff mfull_check names_ok_mini deps_complete_mini diff_complete_mini
             check_module_consistent_mini full_check_consistent_mini consistent_unique_mini).
  Qed.

  (* ---- termination: in the mini language the propagation loop needs at most two rounds, so `update`
     never reaches MAX_ITER (all snapshot entries are declared: reprocessing a target cannot change them) *)
  Notation dstate := (dstate msrc sig merr).
  Notation reprocess_nodes := (reprocess_nodes msrc sig merr munits_of mowner mcheck_target mdiff).
  Notation reprocess_all := (reprocess_all dstate mmod_of reprocess_nodes).
  Notation lookupf := (fun st : dstate => mlookup_target (d_prog st)).
  Notation todo_of := (todo_of dstate mmod_of (d_live msrc sig merr) lookupf).
  Notation propagate := (propagate dstate (@d_deps msrc sig merr) mmod_of (d_live msrc sig merr) lookupf reprocess_nodes).

  Definition snaps_ok (st : dstate) : Prop := forall x, menv_of (d_res st) x = genv (d_prog st) x.

  Lemma reprocess_nodes_mini : forall st m nodes st' F,
    snaps_ok st -> reprocess_nodes st m nodes = (st', F) ->
    F = [] /\ snaps_ok st' /\ d_prog st' = d_prog st.
  Proof.
    intros st m nodes st' F Hs Hrun.
    destruct (iter_nodes msrc sig merr mmod_of munits_of mowner (fun x => x) mlookup_target mcheck_target mdiff
                names_ok_mini diff_complete_mini st m nodes st' F Hrun) as (T & ((Hp & Ho & Hi & _) & _) & _ & _).
    assert (Hs' : snaps_ok st').
    { intro x. rewrite Hp. rewrite <- (Hs x). unfold Model.env_of.
      destruct (in_dec Pos.eq_dec (mowner x) T) as [Hin|Hnin].
      - destruct (Hi _ Hin) as (s & e & Hps & _ & Hr & _). rewrite Hr, snap_mcheck.
        rewrite mmod_mowner in Hps. unfold MiniLang.mowner at 1. rewrite tkey_tgt, Pos.eqb_refl.
        pose proof (Hs x) as Hx. unfold MiniLang.genv in Hx. rewrite Hps in Hx. rewrite <- Hx. reflexivity.
      - rewrite (Ho _ Hnin). reflexivity. }
    split; [|split; [exact Hs' | exact Hp]].
    unfold Model.reprocess_nodes in Hrun. destruct (d_prog st m) as [s|].
    - injection Hrun as Hst HF. rewrite Hst in HF. rewrite <- HF. apply mdiff_same.
      intro x. rewrite (Hs x), (Hs' x), Hp. reflexivity.
    - injection Hrun as _ <-. reflexivity.
  Qed.

  Lemma reprocess_all_mini : forall todo st st' F,
    snaps_ok st -> reprocess_all st todo = (st', F) -> F = [] /\ snaps_ok st' /\ d_prog st' = d_prog st.
  Proof.
    intros todo st st' F Hs Hrun. unfold Model.reprocess_all in Hrun.
    fold (step_fn msrc sig merr mmod_of munits_of mowner mcheck_target mdiff todo) in Hrun.
    remember (sort_pos (dedup_pos (map mmod_of todo))) as ms eqn:Ems. clear Ems.
    assert (G : forall ms0 st0 acc, snaps_ok st0 ->
              forall st1 F1, fold_left (step_fn msrc sig merr mmod_of munits_of mowner mcheck_target mdiff todo) ms0 (st0, acc) = (st1, F1) ->
              F1 = acc /\ snaps_ok st1 /\ d_prog st1 = d_prog st0).
    { clear Hrun Hs. intro ms0. induction ms0 as [|m ms0 IH]; intros st0 acc Hs0 st1 F1 Hf; simpl in Hf.
      - injection Hf as <- <-. auto.
      - unfold step_fn at 2 in Hf. simpl in Hf.
        destruct (reprocess_nodes st0 m (filter (fun u => Pos.eqb (mmod_of u) m) todo)) as [sa fa] eqn:E1.
        destruct (reprocess_nodes_mini _ _ _ _ _ Hs0 E1) as (-> & Hsa & Hpa).
        rewrite app_nil_r in Hf. destruct (IH sa acc Hsa st1 F1 Hf) as (H1 & H2 & H3).
        split; [assumption|]. split; [assumption | congruence]. }
    apply (G ms st [] Hs st' F Hrun).
  Qed.

  Lemma propagate_total : forall f st F U E,
    snaps_ok st -> exists st', propagate (S (S f)) st F U E = Some st' /\ snaps_ok st' /\ d_prog st' = d_prog st.
  Proof.
    intros f st F U E Hs.
    rewrite (propagate_S msrc sig merr mmod_of munits_of mowner mlookup_target mcheck_target mdiff).
    assert (Hbody : forall F0 E0, exists st',
              match reachable_targets (d_deps st) F0 with
              | Some reached => let (st1, F1) := reprocess_all st (todo_of st U (reached ++ E0)) in
                                propagate (S f) st1 (dedup_pos F1) [] []
              | None => None
              end = Some st' /\ snaps_ok st' /\ d_prog st' = d_prog st).
    { intros F0 E0. destruct (reachable_targets_spec (d_deps st) F0) as (l & Hl & _). rewrite Hl.
      destruct (reprocess_all st (todo_of st U (l ++ E0))) as [st1 F1] eqn:E1.
      destruct (reprocess_all_mini _ _ _ _ Hs E1) as (-> & Hs1 & Hp1).
      exists st1. split; [reflexivity | split; assumption]. }
    destruct F as [|g F]; [destruct E as [|t E]|].
    - exists st. auto.
    - apply Hbody.
    - apply Hbody.
  Qed.

  Notation update_module := (update_module msrc sig merr mmod_of munits_of mowner mlookup_target mcheck_target mcheck_module mdiff).
  Notation update_modules := (update_modules msrc sig merr mmod_of munits_of mowner mlookup_target mcheck_target mcheck_module mdiff).
  Notation update := (update msrc sig merr mmod_of munits_of mowner mlookup_target mcheck_target mcheck_module mdiff).

  Lemma update_module_total : forall mods p' st m,
    snaps_ok st -> exists st', update_module mods p' st m = Some st' /\ snaps_ok st'.
  Proof.
    intros mods p' st m Hs. unfold Model.update_module, Model.d_propagate. cbv zeta.
    match goal with |- exists st', match Model.propagate _ _ _ _ _ _ _ ?s1 ?F ?U ?E with _ => _ end = _ /\ _ =>
      set (st1 := s1); set (F1 := F) end.
    assert (Hs1 : snaps_ok st1).
    { intro x. pose proof (Hs x) as Hx. unfold Model.env_of, MiniLang.genv in Hx.
      unfold st1, Model.env_of, MiniLang.genv. simpl.
      destruct (p' m) as [s|] eqn:Ep; rewrite mmod_mowner; destruct (Pos.eqb (kmod x) m) eqn:E.
      - apply Pos.eqb_eq in E. unfold MiniLang.mcheck_module, MiniLang.mowner. rewrite E.
        assert (Hm : mem_pos (tgt (m, None)) (munits_of m s) = true) by (apply mem_pos_In; apply top_unit).
        rewrite Hm, snap_mcheck, tkey_tgt, E, Pos.eqb_refl. reflexivity.
      - exact Hx.
      - reflexivity.
      - exact Hx. }
    change MAX_ITER with (S (S 998)).
    destruct (propagate_total 998 st1 F1 [m] [] Hs1) as (st2 & Hr & Hs2 & _).
    rewrite Hr. eexists. split; [reflexivity|]. exact Hs2.
  Qed.

  Lemma update_modules_total : forall mods p' changed st,
    snaps_ok st -> exists r, update_modules mods p' st changed = Some r /\ snaps_ok (fst r).
  Proof.
    intros mods p' changed. induction changed as [|m rest IH]; intros st Hs; simpl.
    - eexists. split; [reflexivity | exact Hs].
    - destruct (update_module_total mods p' st m Hs) as (st' & Hr & Hs'). rewrite Hr.
      destruct rest as [|m2 rest']; [eexists; split; [reflexivity | exact Hs']|].
      apply (IH st' Hs').
  Qed.

  (* `update` always returns: MAX_ITER is never reached in the mini language *)
  Theorem update_total_minilang_proof : forall mods st p' changed,
    state_ok msrc sig merr mmod_of munits_of mowner mcheck_target st ->
    exists st', update mods st p' changed = Some st'.
  Proof.
    intros mods st p' changed (Hc & _).
    assert (Hs : snaps_ok st) by (intro x; apply consistent_env; exact Hc).
    unfold Model.update. destruct changed as [|m0 rest0]; [eexists; reflexivity|].
    destruct (update_modules_total mods p' (m0 :: rest0) st Hs) as ([st1 last] & Hr & Hs1). rewrite Hr.
    unfold Model.d_propagate. change MAX_ITER with (S (S 998)).
    destruct (propagate_total 998 st1 [] (match last with Some m => [m] | None => [] end) (d_prev st1) Hs1) as (st2 & Hr2 & _).
    simpl in Hs1. rewrite Hr2. eexists. reflexivity.
  Qed.
End P.
