(* C03 — a concrete naming scheme for the mini language: targets by bit-pairing of positives (unbounded),
   symbols in blocks of W consecutive numbers per module (finitely many symbols per module). *)
From Coq Require Import PArith NArith Arith List Bool Lia.
From C03 Require Import Model MiniLang.
Import ListNotations.

(* pairing of positives: every bit of [a] is prefixed by 1, the end of [a] is marked by 0 *)
Fixpoint penc (a b : positive) : positive :=
  match a with
  | xI a' => xI (xI (penc a' b))
  | xO a' => xI (xO (penc a' b))
  | xH => xO b
  end.

Fixpoint pdec (x : positive) : positive * positive :=
  match x with
  | xI y => match y with
            | xI r => let (a, b) := pdec r in (xI a, b)
            | xO r => let (a, b) := pdec r in (xO a, b)
            | xH => (xH, xH)
            end
  | xO b => (xH, b)
  | xH => (xH, xH)
  end.

Lemma pdec_penc : forall a b, pdec (penc a b) = (a, b).
Proof. induction a as [a IH|a IH|]; intro b; simpl; try rewrite IH; reflexivity. Qed.

Definition c_tgt (k : tkey) : target :=
  match k with
  | (m, None) => penc m xH
  | (m, Some (f, None)) => penc m (xO (penc f xH))
  | (m, Some (c, Some a)) => penc m (xI (penc c a))
  end.

Definition c_tkey_of (t : target) : tkey :=
  let (m, c) := pdec t in
  match c with
  | xH => (m, None)
  | xO r => (m, Some (fst (pdec r), None))
  | xI r => let (cl, a) := pdec r in (m, Some (cl, Some a))
  end.

Lemma c_tkey_tgt : forall k, c_tkey_of (c_tgt k) = k.
Proof.
  intros [m [[f [a|]]|]]; unfold c_tkey_of, c_tgt; rewrite pdec_penc; try rewrite pdec_penc; reflexivity.
Qed.

Lemma succ_pos_pred_N : forall p, N.succ_pos (Pos.pred_N p) = p.
Proof. destruct p; simpl; try reflexivity. apply Pos.succ_pred_double. Qed.

Section Blocks.
  Variable w : nat.                       (* W = S w symbols per module *)
  Definition W : N := N.of_nat (S w).
  Variable slot_key : N -> ident * option ident.    (* which name a slot stands for (any table) *)
  Variable key_slot : ident * option ident -> N.

  Definition c_key_of (x : symbol) : skey :=
    let n := Pos.pred_N x in
    (N.succ_pos (n / W), fst (slot_key (n mod W)), snd (slot_key (n mod W))).

  Definition c_sym (k : skey) : symbol :=
    match k with (m, x, o) => N.succ_pos (Pos.pred_N m * W + key_slot (x, o)) end.

  Definition c_syms_of (m : module) : list symbol :=
    map (fun r => N.succ_pos (Pos.pred_N m * W + N.of_nat r)) (seq 0 (S w)).

  Lemma c_syms_fin : forall x, In x (c_syms_of (kmod c_key_of x)).
  Proof.
    intro x. unfold kmod, c_key_of, c_syms_of. cbn [fst snd].
    set (n := Pos.pred_N x). rewrite N.pos_pred_succ.
    apply in_map_iff. exists (N.to_nat (n mod W)). split.
    - rewrite N2Nat.id. rewrite N.mul_comm. rewrite <- N.div_mod' . unfold n. apply succ_pos_pred_N.
    - apply in_seq. split; [apply Nat.le_0_l|]. simpl.
      assert (H : (n mod W < W)%N) by (apply N.mod_lt; unfold W; discriminate).
      set (r := (n mod W)%N) in *. clearbody r. unfold W in H. lia.
  Qed.
End Blocks.
