(* Property C03 — theorem statements only, each closed by `exact`, each followed by Print Assumptions. *)
From Coq Require Import PArith List Bool.
From C03 Require Import Model Statement ProofsBfs ProofsWatcher ProofsUpdate MiniLang ProofsMini MiniScheme MiniEval.
Import ListNotations.

(* find_targets_recursive: for EVERY deps map and fired set the worklist terminates within
   1 + |entries| rounds and returns exactly the targets reachable through deps *)
Theorem find_targets_recursive_spec : find_targets_recursive_spec_stmt.
Proof. exact ProofsBfs.find_targets_recursive_spec. Qed.
Print Assumptions find_targets_recursive_spec.

(* FileSystemWatcher._find_changed: under the mtime discipline one poll reports exactly the watched
   paths whose contents/existence changed, and re-establishes its invariant (hence every sequence
   of file-system states) *)
Theorem watcher_detects_every_change : forall (content : Type) (content_eqb : content -> content -> bool),
  watcher_detects_every_change_stmt content content_eqb.
Proof. exact ProofsWatcher.watcher_detects_every_change. Qed.
Print Assumptions watcher_detects_every_change.

Section Daemon.
  Variables (src sig err : Type).
  Variable mod_of : target -> module.
  Variable units_of : module -> src -> list target.
  Variable owner : symbol -> target.
  Variable trig_of : symbol -> trigger.
  Variable lookup_target : prog src -> target -> list target.
  Variable check_target : src -> env sig -> target -> result sig err.
  Variable check_module : prog src -> env sig -> module -> src -> target -> option (result sig err).
  Variable diff : module -> env sig -> env sig -> list trigger.

  (* propagate_changes_using_dependencies (any fuel, so in particular MAX_ITER): if it returns, then
     starting from a state in which every target is current unless it is hit by the fired triggers
     (or lies in an up-to-date module), the final state is CONSISTENT: every target of the program
     is exactly what processing it against the final symbol tables yields. *)
  Theorem propagate_sound :
    names_ok src mod_of units_of lookup_target ->
    deps_complete src sig err trig_of lookup_target check_target ->
    diff_complete sig mod_of owner trig_of diff ->
    forall fuel st F U E st',
      pinv src sig err mod_of units_of owner lookup_target check_target st F U ->
      propagate (dstate src sig err) (@d_deps src sig err) mod_of (d_live src sig err)
                (fun st => lookup_target (d_prog st))
                (reprocess_nodes src sig err units_of owner check_target diff) fuel st F U E = Some st' ->
      d_prog st' = d_prog st /\
      consistent src sig err mod_of units_of owner check_target (d_prog st') (d_res st').
  Proof.
    intros Hn Hd Hf fuel st F U E st' Hi Hr.
    destruct (ProofsUpdate.propagate_sound src sig err mod_of units_of owner trig_of lookup_target
                check_target diff Hn Hd Hf fuel st F U E st' Hi Hr) as (Hp & Hinv).
    split; [exact Hp|].
    exact (pinv_consistent src sig err mod_of units_of owner lookup_target check_target st' Hinv).
  Qed.

  Variable full_check : prog src -> resmap sig err.

  (* THE property on the model: one request.  Under the contracts, after `update` the daemon's stored
     diagnostics of every target are exactly those of the batch build on the files as they are now, the
     in-memory program is the new program, and the invariant [state_ok] holds again *)
  Theorem update_eq_full :
    update_eq_full_stmt src sig err mod_of units_of owner trig_of lookup_target check_target check_module diff full_check.
  Proof. exact (update_eq_full_proof src sig err mod_of units_of owner trig_of lookup_target check_target check_module diff full_check). Qed.

  (* ... and therefore after EVERY step of EVERY finite edit history *)
  Theorem update_eq_full_history :
    update_eq_full_history_stmt src sig err mod_of units_of owner trig_of lookup_target check_target check_module diff full_check.
  Proof. exact (update_eq_full_history_proof src sig err mod_of units_of owner trig_of lookup_target check_target check_module diff full_check). Qed.

  Theorem stale_errors_removed :
    stale_errors_removed_stmt src sig err mod_of units_of owner trig_of lookup_target check_target check_module diff full_check.
  Proof. exact (stale_errors_removed_proof src sig err mod_of units_of owner trig_of lookup_target check_target check_module diff full_check). Qed.

  Theorem no_error_missed :
    no_error_missed_stmt src sig err mod_of units_of owner trig_of lookup_target check_target check_module diff full_check.
  Proof. exact (no_error_missed_proof src sig err mod_of units_of owner trig_of lookup_target check_target check_module diff full_check). Qed.
End Daemon.
Print Assumptions propagate_sound.
Print Assumptions update_eq_full.
Print Assumptions update_eq_full_history.
Print Assumptions stale_errors_removed.
Print Assumptions no_error_missed.

(* ================= the mini language (MiniLang.v): the contracts are THEOREMS ================= *)

(* deps_complete for the mini language: the checker reads other definitions only through the logged reader,
   every logged read is a dependency edge, hence equal symbol tables on the dependencies => equal result *)
Theorem deps_complete_minilang : forall sym key_of tkey_of FUEL,
  deps_complete msrc sig merr (fun x => x) mlookup_target (mcheck_target sym key_of tkey_of FUEL).
Proof. exact deps_complete_mini. Qed.
Print Assumptions deps_complete_minilang.

(* diff_complete for the concrete naming scheme (W = S w symbols per module, any slot table) *)
Theorem diff_complete_minilang : forall w slot_key,
  diff_complete sig (mmod_of c_tkey_of) (mowner (c_key_of w slot_key) c_tgt) (fun x => x)
                (mdiff (c_syms_of w) osig_eqb).
Proof. intros w slot_key. exact (diff_complete_mini (c_key_of w slot_key) c_tgt c_tkey_of (c_syms_of w) c_tkey_tgt (c_syms_fin w slot_key)). Qed.
Print Assumptions diff_complete_minilang.

(* update_eq_full WITHOUT hypotheses about checker, deps, diff or batch build: all six contracts are proved *)
Theorem update_eq_full_minilang : forall w slot_key key_slot FUEL mods st p' changed st',
  let sym := c_sym w key_slot in let key_of := c_key_of w slot_key in
  let chk := mcheck_target sym key_of c_tkey_of FUEL in
  state_ok msrc sig merr (mmod_of c_tkey_of) (munits_of c_tgt) (mowner key_of c_tgt) chk st ->
  edit_ok msrc sig merr mods st p' changed ->
  update msrc sig merr (mmod_of c_tkey_of) (munits_of c_tgt) (mowner key_of c_tgt) mlookup_target chk
         (mcheck_module sym key_of c_tgt c_tkey_of FUEL) (mdiff (c_syms_of w) osig_eqb) mods st p' changed = Some st' ->
  (forall u, errors msrc sig merr st' u = errs_of sig merr (mfull_check sym key_of c_tgt c_tkey_of FUEL p' u)) /\
  (forall m, d_prog st' m = p' m) /\
  state_ok msrc sig merr (mmod_of c_tkey_of) (munits_of c_tgt) (mowner key_of c_tgt) chk st'.
Proof.
  intros w slot_key key_slot FUEL.
  exact (update_eq_full_minilang_proof (c_sym w key_slot) (c_key_of w slot_key) c_tgt c_tkey_of (c_syms_of w) FUEL
           c_tkey_tgt (c_syms_fin w slot_key)).
Qed.
Print Assumptions update_eq_full_minilang.

(* termination: in the mini language `update` always returns — MAX_ITER is never reached (at most two rounds,
   because every snapshot entry is declared; with inferred entries this argument does not apply) *)
Theorem update_total_minilang : forall w slot_key key_slot FUEL mods st p' changed,
  let sym := c_sym w key_slot in let key_of := c_key_of w slot_key in
  let chk := mcheck_target sym key_of c_tkey_of FUEL in
  state_ok msrc sig merr (mmod_of c_tkey_of) (munits_of c_tgt) (mowner key_of c_tgt) chk st ->
  exists st', update msrc sig merr (mmod_of c_tkey_of) (munits_of c_tgt) (mowner key_of c_tgt) mlookup_target chk
                     (mcheck_module sym key_of c_tgt c_tkey_of FUEL) (mdiff (c_syms_of w) osig_eqb) mods st p' changed = Some st'.
Proof.
  intros w slot_key key_slot FUEL.
  exact (update_total_minilang_proof (c_sym w key_slot) (c_key_of w slot_key) c_tgt c_tkey_of (c_syms_of w) FUEL
           c_tkey_tgt (c_syms_fin w slot_key)).
Qed.
Print Assumptions update_total_minilang.

(* non-vacuity: the empty daemon state (no files) satisfies state_ok *)
Example minilang_state_ok : forall w slot_key key_slot FUEL,
  state_ok msrc sig merr (mmod_of c_tkey_of) (munits_of c_tgt) (mowner (c_key_of w slot_key) c_tgt)
           (mcheck_target (c_sym w key_slot) (c_key_of w slot_key) c_tkey_of FUEL)
           (mkD (fun _ => None) (fun _ => None) [] (fun _ => []) []).
Proof.
  intros. split; [split|split; [|split]]; simpl.
  - intros u s H. discriminate.
  - intros u _. reflexivity.
  - intros u r g H. discriminate.
  - intro u. reflexivity.
  - intros u H. contradiction.
Qed.

(* multiple inheritance in the mini language: the attribute is found in the second base after the whole chain of the
   first base was searched; every class and member visited is a dependency (in particular the ABSENT member of the first
   base: if that base gains the attribute the result changes); the second statement is an error *)
Example minilang_multiple_inheritance :
  e_reads [(1, mi_mod)] mi_mod (1, Some (6, None)) = [54; 52; 37; 35; 20; 54; 52; 37; 35; 20]%positive /\
  e_errs [(1, mi_mod)] mi_mod (1, Some (6, None)) = [EAssign].
Proof. split; vm_compute; reflexivity. Qed.

(* ---- non-vacuity *)
Example bfs_example :
  reachable_targets [(1, [Trig 2; Targ 5]); (2, [Targ 7; Trig 1]); (3, [Targ 9])]%positive [1%positive]
  = Some [7; 5]%positive.
Proof. vm_compute. reflexivity. Qed.

(* the contracts are satisfiable: one target per module, each defining one symbol *)
Definition ex_check (s : bool) (e : env bool) (u : target) : result bool unit :=
  mkResult (if s then [] else [tt]) (fun x => if Pos.eqb x u then Some s else None) [].
Definition ex_diff (m : module) (e e' : env bool) : list trigger :=
  match e m, e' m with
  | Some a, Some b => if Bool.eqb a b then [] else [m]
  | None, None => []
  | _, _ => [m]
  end.

Example contracts_satisfiable :
  names_ok bool (fun t => t) (fun m _ => [m]) (fun _ t => [t]) /\
  deps_complete bool bool unit (fun x => x) (fun _ t => [t]) ex_check /\
  diff_complete bool (fun t => t) (fun x => x) (fun x => x) ex_diff.
Proof.
  split; [|split].
  - split; [|split; [|split]].
    + intros m s u [<-|[]]. reflexivity.
    + intros m s. constructor; [intros []|constructor].
    + intros p t u [<-|[]]. reflexivity.
    + intros p u _. left. reflexivity.
  - intros p s e e' u D _ _. reflexivity.
  - intros m e e' x <- H. unfold ex_diff in H.
    destruct (e x) as [a|], (e' x) as [b|]; try reflexivity; try (exfalso; apply H; left; reflexivity).
    destruct (Bool.eqb a b) eqn:E; [apply eqb_prop in E; congruence | exfalso; apply H; left; reflexivity].
Qed.

Definition ex_check_module (p : prog bool) (e : env bool) (m : module) (s : bool) (u : target)
  : option (result bool unit) := if Pos.eqb u m then Some (ex_check s e u) else None.
Definition ex_full (p : prog bool) : resmap bool unit :=
  fun u => match p u with Some s => Some (ex_check s (fun _ => None) u) | None => None end.

Example batch_contracts_satisfiable :
  check_module_consistent bool bool unit (fun t => t) (fun m _ => [m]) (fun x => x) ex_check ex_check_module /\
  full_check_consistent bool bool unit (fun t => t) (fun m _ => [m]) (fun x => x) ex_check ex_full /\
  consistent_unique bool bool unit (fun t => t) (fun m _ => [m]) (fun x => x) ex_check.
Proof.
  split; [|split].
  - intros p res m s Hp. split.
    + intros u [<-|[]]. rewrite Pos.eqb_refl. unfold ex_check_module. rewrite Pos.eqb_refl. reflexivity.
    + intros u Hu Hn. exfalso. apply Hn. left. symmetry. exact Hu.
  - intro p. split.
    + intros u s Hp _. unfold ex_full. rewrite Hp. reflexivity.
    + intros u Hu. unfold is_unit in Hu. unfold ex_full. destruct (p u); [|reflexivity].
      simpl in Hu. rewrite Pos.eqb_refl in Hu. discriminate.
  - intros p r1 r2 (A1 & A2) (B1 & B2) u. destruct (p u) as [s|] eqn:Hp.
    + rewrite (A1 u s Hp (or_introl eq_refl)), (B1 u s Hp (or_introl eq_refl)). reflexivity.
    + assert (Hu : is_unit bool (fun t => t) (fun m _ => [m]) p u = false) by (unfold is_unit; rewrite Hp; reflexivity).
      rewrite (A2 u Hu), (B2 u Hu). reflexivity.
Qed.

Example watcher_example :
  fst (find_changed bool Bool.eqb [1; 2; 3]%positive
         (fun p => if Pos.eqb p 3 then None else Some (mkStat 5%positive 1%positive true))
         (fun p => if Pos.eqb p 1 then Some (mkStat 6%positive 1%positive false)
                   else if Pos.eqb p 2 then None else Some (mkStat 6%positive 1%positive true)))
  = [1; 2; 3]%positive.
Proof. vm_compute. reflexivity. Qed.
