(* C03 — full-strength statements and the explicit contracts about the un-modelled code.
   Nothing is proved here. *)
From Coq Require Import PArith List Bool.
From C03 Require Import Model.
Import ListNotations.

(* ---------------------------------------------------------------- reachability through deps *)

Inductive reach (D : depmap) (init : list trigger) : loc -> Prop :=
| reach_init : forall g, In g init -> reach D init (Trig g)
| reach_step : forall g x, reach D init (Trig g) -> In x (deps_get D g) -> reach D init x.

(* find_targets_recursive terminates (fuel = 1 + number of entries of the map and the fired set is
   enough) and visits exactly the targets reachable from the fired triggers — for EVERY deps map *)
Definition find_targets_recursive_spec_stmt : Prop :=
  forall (D : depmap) (init : list trigger),
  exists l, reachable_targets D init = Some l /\
            (forall t, In t l <-> reach D init (Targ t)).

(* ---------------------------------------------------------------- the daemon *)

Section Contracts.
  Variables (src sig err : Type).
  Variable mod_of : target -> module.
  Variable units_of : module -> src -> list target.
  Variable owner : symbol -> target.
  Variable trig_of : symbol -> trigger.                       (* make_trigger(fullname) *)
  Variable lookup_target : prog src -> target -> list target.
  Variable check_target : src -> env sig -> target -> result sig err.
  Variable check_module : prog src -> env sig -> module -> src -> target -> option (result sig err).
  Variable diff : module -> env sig -> env sig -> list trigger.
  Variable full_check : prog src -> resmap sig err.           (* mypy.build.build, incremental off *)

  Notation env := (env sig).
  Notation prog := (prog src).
  Notation result := (result sig err).
  Notation resmap := (resmap sig err).
  Notation dstate := (dstate src sig err).
  Notation env_of := (env_of sig err owner).
  Notation is_unit := (is_unit src mod_of units_of).
  Notation update := (update src sig err mod_of units_of owner lookup_target check_target check_module diff).

  (* unit [u] is hit by the fired triggers [F]: some name reachable through [D] looks up to it *)
  Definition hits (p : prog) (D : depmap) (F : list trigger) (u : target) : Prop :=
    exists t, reach D F (Targ t) /\ In u (lookup_target p t).

  (* ---- structural facts about names (module_prefix / lookup_target) *)
  Definition names_ok : Prop :=
    (forall m s u, In u (units_of m s) -> mod_of u = m) /\
    (forall m s, NoDup (units_of m s)) /\
    (forall p t u, In u (lookup_target p t) -> mod_of u = mod_of t) /\
    (forall p u, is_unit p u = true -> In u (lookup_target p u)).

  (* ---- CONTRACT about server/deps.py (monitored, not proved):
     the dependencies generated while processing [u], once merged into the map [D], cover
     everything the result depends on: changing the snapshots of symbols whose trigger does not
     reach [u] through [D] does not change the result (errors, snapshot entries, deps) of [u]. *)
  Definition deps_complete : Prop :=
    forall (p : prog) (s : src) (e e' : env) (u : target) (D : depmap),
      (forall g, incl (deps_get (r_deps (check_target s e u)) g) (deps_get D g)) ->
      (forall x, hits p D [trig_of x] u -> e' x = e x) ->
      check_target s e' u = check_target s e u.

  (* ---- CONTRACT about server/astdiff.py + calculate_active_triggers (monitored, not proved):
     every symbol of the module whose snapshot entry differs fires its trigger. *)
  Definition diff_complete : Prop :=
    forall (m : module) (e e' : env) (x : symbol),
      mod_of (owner x) = m -> ~ In (trig_of x) (diff m e e') -> e x = e' x.

  (* ---- CONTRACT about update_module_isolated (whole-file parse + semantic analysis + check):
     afterwards every target of the file is as if processed on its own against the resulting
     symbol tables, and targets that no longer exist are gone. *)
  Definition check_module_consistent : Prop :=
    forall (p : prog) (res : resmap) (m : module) (s : src),
      p m = Some s ->
      let res' : resmap :=
          fun u => if Pos.eqb (mod_of u) m then check_module p (env_of res) m s u else res u in
      (forall u, In u (units_of m s) -> res' u = Some (check_target s (env_of res') u)) /\
      (forall u, mod_of u = m -> ~ In u (units_of m s) -> res' u = None).

  (* a result map in which every target of [p] is exactly what processing it against the
     symbol tables of the map itself yields, and nothing else is present *)
  Definition consistent (p : prog) (res : resmap) : Prop :=
    (forall u s, p (mod_of u) = Some s -> In u (units_of (mod_of u) s) ->
                 res u = Some (check_target s (env_of res) u)) /\
    (forall u, is_unit p u = false -> res u = None).

  (* ---- CONTRACT about the batch build: a full check computes a consistent map, and there is
     only one (no order dependence in import cycles / deferred nodes). *)
  Definition full_check_consistent : Prop := forall p, consistent p (full_check p).
  Definition consistent_unique : Prop :=
    forall p r1 r2, consistent p r1 -> consistent p r2 -> forall u, r1 u = r2 u.

  Definition errs_of (o : option result) : list err :=
    match o with Some r => r_errs r | None => [] end.

  (* the invariant between two requests ("deps_complete st" of DESIGN): results are consistent,
     the deps map contains the dependencies of every stored result, the stored errors are
     those of the stored results, previous_targets_with_errors covers them *)
  Definition state_ok (st : dstate) : Prop :=
    consistent (d_prog st) (d_res st) /\
    (forall u r g, d_res st u = Some r -> incl (deps_get (r_deps r) g) (deps_get (d_deps st) g)) /\
    (forall u, d_errs st u = errs_of (d_res st u)) /\
    (forall u, d_errs st u <> [] -> In u (d_prev st)).

  (* one request: [p'] the files as they are now, [changed] what the watcher reported *)
  Definition edit_ok (mods : list module) (st : dstate) (p' : prog) (changed : list module) : Prop :=
    (forall m, ~ In m changed -> d_prog st m = p' m) /\
    (forall m, d_prog st m <> None \/ p' m <> None -> In m mods).

  Definition update_eq_full_stmt : Prop :=
    names_ok -> deps_complete -> diff_complete -> check_module_consistent ->
    full_check_consistent -> consistent_unique ->
    forall mods st p' changed st',
      state_ok st -> edit_ok mods st p' changed ->
      update mods st p' changed = Some st' ->
      (forall u, errors src sig err st' u = errs_of (full_check p' u)) /\
      (forall m, d_prog st' m = p' m) /\
      state_ok st'.

  (* all finite edit histories *)
  Fixpoint run (mods : list module) (st : dstate) (edits : list (prog * list module))
    : option (list dstate) :=
    match edits with
    | [] => Some []
    | (p', ch) :: rest =>
      match update mods st p' ch with
      | None => None
      | Some st' => match run mods st' rest with
                    | Some l => Some (st' :: l)
                    | None => None
                    end
      end
    end.

  Fixpoint edits_ok (mods : list module) (p : prog) (edits : list (prog * list module)) : Prop :=
    match edits with
    | [] => True
    | (p', ch) :: rest =>
      (forall m, ~ In m ch -> p m = p' m) /\
      (forall m, p m <> None \/ p' m <> None -> In m mods) /\
      edits_ok mods p' rest
    end.

  Definition update_eq_full_history_stmt : Prop :=
    names_ok -> deps_complete -> diff_complete -> check_module_consistent ->
    full_check_consistent -> consistent_unique ->
    forall mods edits st sts,
      state_ok st -> edits_ok mods (d_prog st) edits ->
      run mods st edits = Some sts ->
      Forall2 (fun st' (e : prog * list module) =>
                 forall u, errors src sig err st' u = errs_of (full_check (fst e) u))
              sts edits.

  (* corollaries *)
  Definition stale_errors_removed_stmt : Prop :=
    names_ok -> deps_complete -> diff_complete -> check_module_consistent ->
    full_check_consistent -> consistent_unique ->
    forall mods st p' changed st' u e,
      state_ok st -> edit_ok mods st p' changed -> update mods st p' changed = Some st' ->
      In e (errors src sig err st' u) -> In e (errs_of (full_check p' u)).

  Definition no_error_missed_stmt : Prop :=
    names_ok -> deps_complete -> diff_complete -> check_module_consistent ->
    full_check_consistent -> consistent_unique ->
    forall mods st p' changed st' u e,
      state_ok st -> edit_ok mods st p' changed -> update mods st p' changed = Some st' ->
      In e (errs_of (full_check p' u)) -> In e (errors src sig err st' u).
End Contracts.

(* ---------------------------------------------------------------- the watcher *)

Section WatcherStmt.
  Variable content : Type.
  Variable content_eqb : content -> content -> bool.
  Notation fs := (fs content).
  Notation file_data := (file_data content).

  Definition content_eqb_spec : Prop := forall a b, content_eqb a b = true <-> a = b.

  Definition data_of (o : option (fstat content)) : option content :=
    match o with Some s => Some (f_data s) | None => None end.

  (* the watcher's table describes the file system as it was at the last poll *)
  Definition fd_matches (paths : list path) (fd : file_data) (f : fs) : Prop :=
    forall p, In p paths -> fd p = f p.

  (* the explicit mtime discipline (environment assumption; the harness bumps mtimes):
     a file whose size and whole-second mtime are both unchanged has unchanged contents *)
  Definition mtime_discipline (f f' : fs) : Prop :=
    forall p s s', f p = Some s -> f' p = Some s' ->
                   f_size s' = f_size s -> f_mtime s' = f_mtime s -> f_data s' = f_data s.

  (* the size is a function of the contents *)
  Definition size_of_data (f f' : fs) : Prop :=
    forall p s s', f p = Some s -> f' p = Some s' -> f_data s' = f_data s -> f_size s' = f_size s.

  (* one poll: reports exactly the watched paths whose contents (or existence) changed since the
     previous poll, and the table then describes the new file system (so the statement
     iterates over every sequence of file-system states) *)
  Definition watcher_detects_every_change_stmt : Prop :=
    content_eqb_spec ->
    forall (paths : list path) (fd : file_data) (f f' : fs),
      NoDup paths ->
      fd_matches paths fd f -> mtime_discipline f f' -> size_of_data f f' ->
      let (changed, fd') := find_changed content content_eqb paths fd f' in
      (forall p, In p changed <-> In p paths /\ data_of (f p) <> data_of (f' p)) /\
      fd_matches paths fd' f'.
End WatcherStmt.
