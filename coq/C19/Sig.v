(* C19 — model of stub signature emission (executable definitions only).

   mypy/fastparse.py   ASTConverter.transform_args / make_argument   (flattening of ast.arguments, pos_only flag)
   mypy/sharedparse.py argument_elide_name
   mypy/stubgen.py     ASTStubGenerator._get_func_args
   mypy/stubdoc.py     ArgSig, FunctionSig.format_sig   (argument part; any_val = None as ASTStubGenerator calls it)
   and a PARSER for the parameter-list grammar of Python at token level.

   Not modelled (abstracted as data carried by a parameter): the annotation printer (the text of an annotation),
   get_str_default_of_node / get_str_type_of_node (rendered default, type inferred from the default),
   infer_method_arg_types (`__exit__` with three bare arguments). *)
From Coq Require Import List String Ascii Bool Arith.
Import ListNotations.
Open Scope string_scope.
Open Scope list_scope.
Notation "a +s+ b" := (String.append a b) (at level 60, right associativity).

(* ---------------------------------------------------------------- source: ast.arguments *)
Record param := mkParam {
  pname : string;
  pann  : option string;                     (* printed annotation, None = unannotated *)
  pdef  : option (string * option string)    (* rendered default ("..." or literal), type inferred from it *)
}.

Record arguments := mkArgs {
  posonly : list param; args : list param; vararg : option param; kwonly : list param; kwarg : option param
}.

(* ---------------------------------------------------------------- fastparse: Argument list *)
Inductive argkind := ARG_POS | ARG_OPT | ARG_STAR | ARG_NAMED | ARG_NAMED_OPT | ARG_STAR2.

Record argument := mkArg { a_param : param; a_kind : argkind; a_pos_only : bool }.

Fixpoint srev (s : string) : string :=
  match s with EmptyString => EmptyString | String c r => srev r +s+ String c EmptyString end.
Definition starts_with (p s : string) : bool := String.prefix p s.
Definition ends_with (p s : string) : bool := String.prefix (srev p) (srev s).

(* sharedparse.argument_elide_name *)
Definition argument_elide_name (n : string) : bool := starts_with "__" n && negb (ends_with "__" n).

(* make_argument: pos_only = passed flag, or the name is elided *)
Definition make_argument (p : param) (k : argkind) (pos_only : bool) : argument :=
  mkArg p k (if argument_elide_name (pname p) then true else pos_only).

Definition pos_kind (p : param) : argkind := match pdef p with None => ARG_POS | Some _ => ARG_OPT end.
Definition named_kind (p : param) : argkind := match pdef p with None => ARG_NAMED | Some _ => ARG_NAMED_OPT end.
Definition olist {A} (o : option A) : list A := match o with Some x => [x] | None => [] end.

(* transform_args: Python's grammar puts positional parameters without default before those with one, so taking
   "those without default, then those with" keeps the order (checked by the tie on every generated function) *)
Definition transform_args (a : arguments) : list argument :=
  map (fun p => make_argument p (pos_kind p) true) (posonly a) ++
  map (fun p => make_argument p (pos_kind p) false) (args a) ++
  map (fun p => make_argument p ARG_STAR false) (olist (vararg a)) ++
  map (fun p => make_argument p (named_kind p) false) (kwonly a) ++
  map (fun p => make_argument p ARG_STAR2 false) (olist (kwarg a)).

(* ---------------------------------------------------------------- stubdoc.ArgSig *)
Record argsig := mkSig { s_name : string; s_type : option string; s_default : bool; s_value : string }.
Definition bare (n : string) : argsig := mkSig n None false "...".

Definition is_named (k : argkind) : bool := match k with ARG_NAMED | ARG_NAMED_OPT => true | _ => false end.
Definition is_positional (k : argkind) : bool := match k with ARG_POS | ARG_OPT => true | _ => false end.

(* Python truthiness of `str | None` *)
Definition truthy (o : option string) : option string :=
  match o with Some EmptyString => None | x => x end.

(* one iteration of the loop of _get_func_args; i = enumerate index *)
Definition sig_of (i : nat) (a : argument) : argsig :=
  let p := a_param a in
  let is_self := Nat.eqb i 0 && (pname p =? "self") in
  let is_cls := Nat.eqb i 0 && (pname p =? "cls") in
  let typename := if is_self || is_cls then None else pann p in
  match pdef p with
  | Some (dv, ity) =>
      mkSig (pname p) (match truthy typename with Some t => Some t | None => ity end) true dv
  | None =>
      let name := match a_kind a with ARG_STAR => "*" +s+ pname p | ARG_STAR2 => "**" +s+ pname p | _ => pname p end in
      mkSig name typename false "..."
  end.

Fixpoint gfa_loop (magic : bool) (i : nat) (acc : list argsig) (cnt : nat) (l : list argument) : list argsig * nat :=
  match l with
  | [] => (acc, cnt)
  | a :: r =>
      (* only a leading run of positional parameters can be positional-only (stubgen.py, fix d2bbe81) *)
      let cnt' := if negb magic && a_pos_only a && is_positional (a_kind a) && Nat.eqb cnt i then S cnt else cnt in
      let acc1 := if is_named (a_kind a) && negb (existsb (fun s => starts_with "*" (s_name s)) acc)
                  then acc ++ [bare "*"] else acc in
      gfa_loop magic (S i) (acc1 ++ [sig_of i a]) cnt' r
  end.

(* list.insert(n, x) for n >= 0 *)
Definition insert_at {A} (n : nat) (x : A) (l : list A) : list A := firstn n l ++ x :: skipn n l.

(* magic = (o.name in MAGIC_METHODS_POS_ARGS_ONLY) *)
Definition get_func_args (magic : bool) (l : list argument) : list argsig :=
  let '(acc, cnt) := gfa_loop magic 0 [] 0 l in
  match cnt with 0 => acc | _ => insert_at cnt (bare "/") acc end.

(* ---------------------------------------------------------------- FunctionSig.format_sig, argument part *)
Inductive token :=
| TId (s : string) | TStar | TDblStar | TSlash | TColon | TEq (spaced : bool) | TComma | TExpr (s : string).

Definition kwlist : list string :=
  ["False"; "None"; "True"; "and"; "as"; "assert"; "async"; "await"; "break"; "class"; "continue"; "def"; "del"; "elif";
   "else"; "except"; "finally"; "for"; "from"; "global"; "if"; "import"; "in"; "is"; "lambda"; "nonlocal"; "not"; "or";
   "pass"; "raise"; "return"; "try"; "while"; "with"; "yield"].

Definition drop1 (s : string) : string := match s with String _ r => r | EmptyString => EmptyString end.

(* lexing of the name field (the only place where the printer has to look inside a string) *)
Definition name_tokens (s : string) : list token :=
  if s =? "/" then [TSlash]
  else if s =? "*" then [TStar]
  else if starts_with "**" s then [TDblStar; TId (drop1 (drop1 s))]
  else if starts_with "*" s then [TStar; TId (drop1 s)]
  else [TId s].

Definition arg_def (a : argsig) : list token :=
  let nm := if existsb (String.eqb (s_name a)) kwlist then "_" +s+ s_name a else s_name a in
  match truthy (s_type a) with
  | Some t => name_tokens nm ++ [TColon; TExpr t] ++ (if s_default a then [TEq true; TExpr (s_value a)] else [])
  | None => name_tokens nm ++ (if s_default a then [TEq false; TExpr (s_value a)] else [])
  end.

Fixpoint join (ls : list (list token)) : list token :=
  match ls with [] => [] | [x] => x | x :: r => x ++ TComma :: join r end.

Definition print_sig (sg : list argsig) : list token := join (map arg_def sg).

Definition render_token (t : token) : string :=
  match t with
  | TId s => s | TStar => "*" | TDblStar => "**" | TSlash => "/" | TColon => ": "
  | TEq true => " = " | TEq false => "=" | TComma => ", " | TExpr s => s
  end.
Definition render (ts : list token) : string := fold_right (fun t s => render_token t +s+ s) "" ts.

Definition stub_signature (magic : bool) (a : arguments) : string :=
  "(" +s+ render (print_sig (get_func_args magic (transform_args a))) +s+ ")".

(* ---------------------------------------------------------------- parser of Python's parameter-list grammar *)
Inductive star := NoStar | Star1 | Star2.
Inductive item := ISlash | IBare | IParam (st : star) (n : string) (ann : option string) (d : option string).

(* token-by-token state machine: items done so far (reversed), and the item being read *)
Inductive cur :=
| CStart                                   (* expecting an item *)
| CStarred (st : star)                     (* after * or ** *)
| CName (st : star) (n : string)           (* after the name *)
| CColon (st : star) (n : string)
| CAnn (st : star) (n : string) (a : string)
| CEq (st : star) (n : string) (a : option string)
| CDone (it : item).                       (* item complete, expecting , or end *)

Definition lex_step (c : cur) (t : token) : option (cur + item * cur) :=
  match c, t with
  | CStart, TSlash => Some (inl (CDone ISlash))
  | CStart, TStar => Some (inl (CStarred Star1))
  | CStart, TDblStar => Some (inl (CStarred Star2))
  | CStart, TId n => Some (inl (CName NoStar n))
  | CStarred st, TId n => Some (inl (CName st n))
  | CStarred Star1, TComma => Some (inr (IBare, CStart))
  | CName st n, TColon => Some (inl (CColon st n))
  | CName st n, TEq _ => Some (inl (CEq st n None))
  | CName st n, TComma => Some (inr (IParam st n None None, CStart))
  | CColon st n, TExpr a => Some (inl (CAnn st n a))
  | CAnn st n a, TEq _ => Some (inl (CEq st n (Some a)))
  | CAnn st n a, TComma => Some (inr (IParam st n (Some a) None, CStart))
  | CEq st n a, TExpr d => Some (inl (CDone (IParam st n a (Some d))))
  | CDone it, TComma => Some (inr (it, CStart))
  | _, _ => None
  end.

Fixpoint lex_items (c : cur) (ts : list token) : option (list item) :=
  match ts with
  | [] => match c with
          | CStart => None                  (* trailing comma / empty handled by the caller *)
          | CStarred Star1 => Some [IBare]
          | CName st n => Some [IParam st n None None]
          | CAnn st n a => Some [IParam st n (Some a) None]
          | CDone it => Some [it]
          | _ => None
          end
  | t :: r => match lex_step c t with
              | Some (inl c') => lex_items c' r
              | Some (inr (it, c')) => option_map (cons it) (lex_items c' r)
              | None => None
              end
  end.

Definition items_of (ts : list token) : option (list item) :=
  match ts with [] => Some [] | _ => lex_items CStart ts end.

(* assignment of kinds: the ordering constraints of the grammar (CPython: "/ must be ahead of *", "* argument may
   appear only once", "named arguments must follow bare *", "non-default argument follows default argument",
   "arguments cannot follow var-keyword argument", "var-positional/keyword argument cannot have default value") *)
Record pstate := mkPS {
  r_po : list param; r_pk : list param; r_va : option param; r_ko : list param; r_kw : option param;
  slash_seen : bool; star_seen : bool; bare_pending : bool; dflt_seen : bool
}.
Definition ps0 : pstate := mkPS [] [] None [] None false false false false.

Definition mkp (n : string) (ann : option string) (d : option string) : param :=
  mkParam n ann (option_map (fun v => (v, None)) d).

Definition isSome {A} (o : option A) : bool := match o with Some _ => true | None => false end.

Definition kind_step (s : pstate) (it : item) : option pstate :=
  if isSome (r_kw s) then None else
  match it with
  | ISlash =>
      if slash_seen s || star_seen s then None else
      match r_pk s with [] => None | _ =>
        Some (mkPS (r_pk s) [] (r_va s) (r_ko s) (r_kw s) true (star_seen s) (bare_pending s) (dflt_seen s)) end
  | IBare =>
      if star_seen s then None else
      Some (mkPS (r_po s) (r_pk s) (r_va s) (r_ko s) (r_kw s) (slash_seen s) true true (dflt_seen s))
  | IParam NoStar n a d =>
      if star_seen s then
        Some (mkPS (r_po s) (r_pk s) (r_va s) (r_ko s ++ [mkp n a d]) (r_kw s) (slash_seen s) true false (dflt_seen s))
      else if dflt_seen s && negb (isSome d) then None
      else Some (mkPS (r_po s) (r_pk s ++ [mkp n a d]) (r_va s) (r_ko s) (r_kw s) (slash_seen s) false false
                      (dflt_seen s || isSome d))
  | IParam Star1 n a d =>
      if star_seen s || isSome d then None else
      Some (mkPS (r_po s) (r_pk s) (Some (mkp n a d)) (r_ko s) (r_kw s) (slash_seen s) true false (dflt_seen s))
  | IParam Star2 n a d =>
      if bare_pending s || isSome d then None else
      Some (mkPS (r_po s) (r_pk s) (r_va s) (r_ko s) (Some (mkp n a d)) (slash_seen s) (star_seen s) false (dflt_seen s))
  end.

Fixpoint kind_run (s : pstate) (l : list item) : option pstate :=
  match l with [] => Some s | it :: r => match kind_step s it with Some s' => kind_run s' r | None => None end end.

Definition finish (s : pstate) : option arguments :=
  if bare_pending s then None else Some (mkArgs (r_po s) (r_pk s) (r_va s) (r_ko s) (r_kw s)).

Definition parse_sig (ts : list token) : option arguments :=
  match items_of ts with
  | Some l => match kind_run ps0 l with Some s => finish s | None => None end
  | None => None
  end.

(* ---------------------------------------------------------------- what the stub is expected to say *)
Definition flagged (p : param) : bool := argument_elide_name (pname p).

(* the stub's reading of one parameter: type = annotation, else the type inferred from the default; the default's text *)
Definition view_param (p : param) : param :=
  match pdef p with
  | Some (dv, ity) => mkParam (pname p) (match truthy (pann p) with Some t => Some t | None => ity end) (Some (dv, None))
  | None => mkParam (pname p) (pann p) None
  end.

Fixpoint take_while {A} (f : A -> bool) (l : list A) : list A :=
  match l with [] => [] | x :: r => if f x then x :: take_while f r else [] end.
Fixpoint drop_while {A} (f : A -> bool) (l : list A) : list A :=
  match l with [] => [] | x :: r => if f x then drop_while f r else l end.

(* kinds, names, order, annotations of the source.  Positional-only = declared before `/`, plus (mypy's reading of the
   pre-PEP-570 convention) the parameters named __x that directly continue that leading run; a name __x anywhere else
   keeps its declared kind.  magic methods: positional-only status is not shown. *)
Definition stub_view (magic : bool) (a : arguments) : arguments :=
  if magic then mkArgs [] (map view_param (posonly a ++ args a)) (option_map view_param (vararg a))
                       (map view_param (kwonly a)) (option_map view_param (kwarg a))
  else mkArgs (map view_param (posonly a ++ take_while flagged (args a)))
              (map view_param (drop_while flagged (args a)))
              (option_map view_param (vararg a)) (map view_param (kwonly a)) (option_map view_param (kwarg a)).

(* ---------------------------------------------------------------- what Python's grammar guarantees for the source *)
Definition ident_ok (s : string) : bool :=
  negb (s =? "") && negb (s =? "/") && negb (s =? "*") && negb (starts_with "**" s) && negb (starts_with "*" s) &&
  negb (existsb (String.eqb s) kwlist).

Fixpoint mono (seen : bool) (l : list param) : bool :=
  match l with
  | [] => true
  | p :: r => (if seen then isSome (pdef p) else true) && mono (seen || isSome (pdef p)) r
  end.

Definition text_ok (p : param) : bool :=
  match pann p with Some EmptyString => false | _ => true end &&
  match pdef p with Some (_, Some EmptyString) => false | _ => true end.

Definition no_default (o : option param) : bool := match o with Some p => negb (isSome (pdef p)) | None => true end.

Definition all_params (a : arguments) : list param :=
  posonly a ++ args a ++ olist (vararg a) ++ kwonly a ++ olist (kwarg a).

Definition wf_params (a : arguments) : bool :=
  forallb (fun p => ident_ok (pname p) && text_ok p) (all_params a) &&
  mono false (posonly a ++ args a) && no_default (vararg a) && no_default (kwarg a).

(* a parameter called self/cls carries no annotation (format: the annotation of a FIRST parameter so named is dropped
   by design; the theorem is stated for functions where that changes nothing) *)
Definition self_cls_plain (a : arguments) : bool :=
  forallb (fun p => if (pname p =? "self") || (pname p =? "cls") then negb (isSome (pann p)) else true) (all_params a).
