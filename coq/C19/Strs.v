(* C19 — string helpers used by the generated predicates (gen/StubPreds.v) *)
From Coq Require Import List String Bool.
Import ListNotations.

Fixpoint srev (s : string) : string :=
  match s with EmptyString => EmptyString | String c r => String.append (srev r) (String c EmptyString) end.
Definition starts_with (p s : string) : bool := String.prefix p s.          (* s.startswith(p) *)
Definition ends_with (p s : string) : bool := String.prefix (srev p) (srev s).   (* s.endswith(p) *)
Fixpoint contains (p s : string) : bool :=                                   (* p in s *)
  if String.prefix p s then true else match s with EmptyString => false | String _ r => contains p r end.
Definition mem_str (n : string) (l : list string) : bool := existsb (String.eqb n) l.
Definition opt_mem (o : option string) (l : list string) : bool := match o with Some n => mem_str n l | None => false end.
