From Coq Require Import List String Bool ZArith Arith Lia.
From C19 Require Import Defaults.
Import ListNotations.
Open Scope list_scope.
Open Scope nat_scope.

Lemma Some_inj : forall A (a b : A), Some a = Some b -> a = b.
Proof. intros; congruence. Qed.

Definition head_ok (t : xtok) : bool :=
  match t with XNum _ | XFlt _ | XId _ | XStr _ | XBytes _ | XOp _ | XLP | XLB | XLC => true | _ => false end.
Definition no_comma (rest : list xtok) : bool := match rest with XComma :: _ => false | _ => true end.

Lemma all_some_cons : forall A (x : option A) r ps, all_some (x :: r) = Some ps ->
  exists p ps', x = Some p /\ all_some r = Some ps' /\ ps = p :: ps'.
Proof.
  intros A [p|] r ps H; simpl in H; [|discriminate].
  destruct (all_some r) as [ps'|]; [|discriminate]. injection H as <-. eauto.
Qed.

Lemma num_tokens_inv : forall a ts, num_tokens a = Some ts -> finite a = true ->
  (exists z, a = DInt z /\ ts = [XNum z]) \/ (exists s, a = DFloat (FFinite s) /\ ts = [XFlt s]).
Proof.
  intros [ | |[s|]| | | | | | | |] ts H F; simpl in *; try discriminate; apply Some_inj in H; subst ts; eauto.
Qed.

Lemma rend_head : forall e ts, rend e = Some ts -> exists t r, ts = t :: r /\ head_ok t = true.
Proof.
  intros e ts H. destruct e as [s|z|[s|]|op a|s|s|l|l|l|kvs|]; simpl in H.
  - destruct (_ || _); [|discriminate]. apply Some_inj in H; subst ts. eauto.
  - apply Some_inj in H; subst ts. eauto.
  - apply Some_inj in H; subst ts. eauto.
  - apply Some_inj in H; subst ts. eauto.
  - destruct (unary_ok op); [|discriminate]. destruct (num_tokens a); [|discriminate]. apply Some_inj in H; subst ts. eauto.
  - apply Some_inj in H; subst ts. eauto.
  - apply Some_inj in H; subst ts. eauto.
  - destruct (all_some (map rend l)) as [[|p [|q ps]]|]; try discriminate; apply Some_inj in H; subst ts; eauto.
  - destruct (all_some (map rend l)); [|discriminate]. apply Some_inj in H; subst ts. eauto.
  - destruct (all_some (map rend l)) as [[|p ps]|]; try discriminate. apply Some_inj in H; subst ts. eauto.
  - destruct (all_some _); [|discriminate]. apply Some_inj in H; subst ts. eauto.
  - discriminate.
Qed.

Definition kvf (kv : option dexpr * dexpr) : option (list xtok) :=
  match fst kv with
  | Some k => match rend k, rend (snd kv) with Some a, Some b => Some (a ++ XColon :: b) | _, _ => None end
  | None => None
  end.
Definition kvfin (kv : option dexpr * dexpr) : bool := match fst kv with Some k => finite k | None => true end && finite (snd kv).

Lemma joinc_cons2 : forall p q r, joinc (p :: q :: r) = p ++ XComma :: joinc (q :: r).
Proof. reflexivity. Qed.
Arguments joinc : simpl never.

Lemma p_es_closer : forall f rest, p_es f (XRP :: rest) = None.
Proof. intros [|[|f]] rest; reflexivity. Qed.

Lemma rt : forall f,
  (forall e ts rest, rend e = Some ts -> finite e = true -> 2 * List.length ts < f -> p_e f (ts ++ rest) = Some (e, rest)) /\
  (forall l ps rest, l <> [] -> all_some (map rend l) = Some ps -> forallb finite l = true ->
     2 * List.length (joinc ps) + 1 < f -> no_comma rest = true -> p_es f (joinc ps ++ rest) = Some (l, rest)) /\
  (forall kvs ps rest, kvs <> [] -> all_some (map kvf kvs) = Some ps -> forallb kvfin kvs = true ->
     2 * List.length (joinc ps) + 1 < f -> no_comma rest = true -> p_kvs f (joinc ps ++ rest) = Some (kvs, rest)) /\
  (forall e p rest, rend e = Some p -> finite e = true -> 2 * List.length p + 1 < f ->
     p_es f (p ++ XComma :: XRP :: rest) = Some ([e], XComma :: XRP :: rest)).
Proof.
  induction f as [|f (IHA & IHB & IHC & IHD)]; [repeat split; intros; lia|].
  split; [|split; [|split]].
  - (* one expression *)
    intros e ts rest H F L.
    destruct e as [s|z|[s|]|op a|s|s|l|l|l|kvs|]; simpl in H, F; try discriminate.
    + destruct (_ || _); [|discriminate]. apply Some_inj in H; subst ts. reflexivity.
    + apply Some_inj in H; subst ts. reflexivity.
    + apply Some_inj in H; subst ts. reflexivity.
    + destruct (unary_ok op); [|discriminate]. destruct (num_tokens a) as [ta|] eqn:En; [|discriminate]. apply Some_inj in H; subst ts.
      destruct (num_tokens_inv a ta En F) as [(z & -> & ->)|(s & -> & ->)]; reflexivity.
    + apply Some_inj in H; subst ts. reflexivity.
    + apply Some_inj in H; subst ts. reflexivity.
    + (* tuple *)
      destruct (all_some (map rend l)) as [ps|] eqn:Ea; [|discriminate].
      destruct l as [|e1 l'].
      * simpl in Ea. injection Ea as <-. apply Some_inj in H; subst ts. reflexivity.
      * pose proof Ea as Eall. apply all_some_cons in Ea as (p & ps' & E1 & E2 & ->). simpl in F. apply andb_true_iff in F as [F1 F2].
        destruct (rend_head e1 p E1) as (t & r & -> & Ht).
        destruct l' as [|e2 l''].
        -- simpl in E2. injection E2 as <-. apply Some_inj in H; subst ts.
           cbn [app] in *. rewrite <- app_assoc. cbn [app].
           pose proof (IHD e1 (t :: r) rest E1 F1) as G.
           assert (Hl : 2 * List.length (t :: r) + 1 < f) by (cbn [List.length] in L |- *; rewrite app_length in L; cbn [List.length] in L; lia).
           specialize (G Hl). cbn [app] in G.
           simpl p_e. destruct t; simpl in Ht; try discriminate; rewrite G; reflexivity.
        -- destruct ps' as [|q ps'']; [cbn [map] in E2; apply all_some_cons in E2 as (? & ? & _ & _ & X); discriminate|].
           assert (L' : 2 * S (List.length (joinc ((t :: r) :: q :: ps'')) + 1) < S f).
           { replace (S (List.length (joinc ((t :: r) :: q :: ps'')) + 1)) with (List.length ts); [exact L|].
             apply Some_inj in H; subst ts. cbn [List.length]. rewrite app_length. reflexivity. }
           apply Some_inj in H; subst ts.
           assert (Ej : joinc ((t :: r) :: q :: ps'') = t :: (r ++ XComma :: joinc (q :: ps''))) by reflexivity.
           pose proof (IHB (e1 :: e2 :: l'') _ (XRP :: rest) ltac:(discriminate) Eall) as G.
           assert (Fl : forallb finite (e1 :: e2 :: l'') = true) by (simpl; rewrite F1; exact F2).
           specialize (G Fl).
           cbn [app]. rewrite <- app_assoc. cbn [app]. rewrite Ej in G |- *.
           assert (Hl : 2 * List.length (t :: r ++ XComma :: joinc (q :: ps'')) + 1 < f)
             by (rewrite <- Ej; lia).
           specialize (G Hl eq_refl). cbn [app] in G.
           simpl p_e. destruct t; simpl in Ht; try discriminate; rewrite G; reflexivity.
    + (* list *)
      destruct (all_some (map rend l)) as [ps|] eqn:Ea; [|discriminate]. apply Some_inj in H; subst ts.
      destruct l as [|e1 l'].
      * simpl in Ea. injection Ea as <-. reflexivity.
      * pose proof Ea as Ea'. apply all_some_cons in Ea' as (p & ps' & E1 & E2 & ->).
        destruct (rend_head e1 p E1) as (t & r & -> & Ht).
        assert (Ej : exists r2, joinc ((t :: r) :: ps') = t :: r2) by (destruct ps'; [unfold joinc; eauto|rewrite joinc_cons2; simpl; eauto]).
        destruct Ej as (r2 & Ej).
        pose proof (IHB (e1 :: l') _ (XRB :: rest) ltac:(discriminate) Ea F) as G.
        cbn [app]. rewrite <- app_assoc. cbn [app]. rewrite Ej in *.
        assert (Hl : 2 * List.length (t :: r2) + 1 < f) by (cbn [List.length] in L |- *; rewrite app_length in L; cbn [List.length] in L; lia).
        specialize (G Hl eq_refl). cbn [app] in G.
        simpl p_e. destruct t; simpl in Ht; try discriminate; rewrite G; reflexivity.
    + (* set *)
      destruct (all_some (map rend l)) as [[|p0 ps0]|] eqn:Ea; try discriminate. apply Some_inj in H; subst ts.
      destruct l as [|e1 l']; [simpl in Ea; discriminate|].
      pose proof Ea as Ea'. apply all_some_cons in Ea' as (p & ps' & E1 & E2 & X). injection X as -> ->.
      destruct (rend_head e1 p E1) as (t & r & -> & Ht).
      assert (Ej : exists r2, joinc ((t :: r) :: ps') = t :: r2) by (destruct ps'; [unfold joinc; eauto|rewrite joinc_cons2; simpl; eauto]).
      destruct Ej as (r2 & Ej).
      pose proof (IHB (e1 :: l') _ (XRC :: rest) ltac:(discriminate) Ea F) as G.
      cbn [app]. rewrite <- app_assoc. cbn [app]. rewrite Ej in *.
      assert (Hl : 2 * List.length (t :: r2) + 1 < f) by (cbn [List.length] in L |- *; rewrite app_length in L; cbn [List.length] in L; lia).
      specialize (G Hl eq_refl). cbn [app] in G.
      simpl p_e. destruct t; simpl in Ht; try discriminate; rewrite G; reflexivity.
    + (* dict *)
      change (map (fun kv => match fst kv with Some k => match rend k, rend (snd kv) with Some a, Some b => Some (a ++ XColon :: b) | _, _ => None end | None => None end) kvs)
        with (map kvf kvs) in H.
      change (forallb (fun kv => match fst kv with Some k => finite k | None => true end && finite (snd kv)) kvs) with (forallb kvfin kvs) in F.
      destruct (all_some (map kvf kvs)) as [ps|] eqn:Ea; [|discriminate]. apply Some_inj in H; subst ts.
      destruct kvs as [|[ko v] kvs'].
      * simpl in Ea. injection Ea as <-. reflexivity.
      * pose proof Ea as Ea'. apply all_some_cons in Ea' as (p & ps' & E1 & E2 & ->).
        unfold kvf in E1. simpl in E1. destruct ko as [k|]; [|discriminate].
        destruct (rend k) as [a|] eqn:Ek; [|discriminate]. destruct (rend v) as [b|] eqn:Ev; [|discriminate]. injection E1 as <-.
        destruct (rend_head k a Ek) as (t & r & -> & Ht).
        pose proof F as F'. simpl in F'. apply andb_true_iff in F' as [Fkv _]. unfold kvfin in Fkv. simpl in Fkv. apply andb_true_iff in Fkv as [Fk Fv].
        (* the whole content, as "key tokens ++ colon :: tail" *)
        assert (Ej : exists tail, joinc (((t :: r) ++ XColon :: b) :: ps') ++ XRC :: rest = (t :: r) ++ XColon :: tail).
        { destruct ps'; [unfold joinc|rewrite joinc_cons2]; rewrite <- !app_assoc; cbn [app]; eauto. }
        destruct Ej as (tail & Ej).
        pose proof (IHC ((Some k, v) :: kvs') _ (XRC :: rest) ltac:(discriminate) Ea F) as G.
        cbn [app]. rewrite <- app_assoc. cbn [app].
        assert (Hl : 2 * List.length (joinc (((t :: r) ++ XColon :: b) :: ps')) + 1 < f)
          by (cbn [List.length] in L |- *; rewrite app_length in L; cbn [List.length] in L; lia).
        specialize (G Hl eq_refl).
        assert (S1 : p_es f ((t :: r) ++ XColon :: tail) = Some ([k], XColon :: tail)).
        { apply (IHB [k] [t :: r] (XColon :: tail)); [discriminate|simpl; rewrite Ek; reflexivity|simpl; rewrite Fk; reflexivity| |reflexivity].
          assert (Hlen : List.length (t :: r) <= List.length (joinc (((t :: r) ++ XColon :: b) :: ps'))).
          { destruct ps'; [unfold joinc|rewrite joinc_cons2]; rewrite !app_length; simpl; lia. }
          unfold joinc at 1. lia. }
        cbn [app] in *. rewrite Ej in G. rewrite Ej.
        simpl p_e. destruct t; simpl in Ht; try discriminate; rewrite S1, G; reflexivity.
  - (* expression lists *)
    intros l ps rest Hne Ea F L Hr.
    destruct l as [|e1 l']; [congruence|].
    apply all_some_cons in Ea as (p & ps' & E1 & E2 & ->). simpl in F. apply andb_true_iff in F as [F1 F2].
    destruct l' as [|e2 l''].
    + simpl in E2. injection E2 as <-. unfold joinc in *. simpl p_es.
      rewrite (IHA e1 p _ E1 F1) by lia.
      destruct rest as [|[]]; simpl in Hr; try discriminate; reflexivity.
    + destruct ps' as [|q ps'']; [cbn [map] in E2; apply all_some_cons in E2 as (? & ? & _ & _ & X); discriminate|].
      rewrite joinc_cons2 in *. rewrite app_length in L. simpl in L.
      simpl p_es. rewrite <- app_assoc. cbn [app].
      rewrite (IHA e1 p _ E1 F1) by lia.
      rewrite (IHB (e2 :: l'') (q :: ps'') rest); [reflexivity|discriminate|exact E2|exact F2|lia|exact Hr].
  - (* key: value lists *)
    intros kvs ps rest Hne Ea F L Hr.
    destruct kvs as [|[ko v] kvs']; [congruence|].
    apply all_some_cons in Ea as (p & ps' & E1 & E2 & ->). simpl in F. apply andb_true_iff in F as [Fkv F2].
    unfold kvf in E1. simpl in E1. destruct ko as [k|]; [|discriminate].
    destruct (rend k) as [a|] eqn:Ek; [|discriminate]. destruct (rend v) as [b|] eqn:Ev; [|discriminate]. injection E1 as <-.
    unfold kvfin in Fkv. simpl in Fkv. apply andb_true_iff in Fkv as [Fk Fv].
    destruct kvs' as [|kv2 kvs''].
    + simpl in E2. injection E2 as <-. unfold joinc in *. repeat (rewrite app_length in L; cbn [List.length] in L).
      simpl p_kvs. repeat (rewrite <- app_assoc; cbn [app]).
      rewrite (IHA k a _ Ek Fk) by lia. rewrite (IHA v b _ Ev Fv) by lia.
      destruct rest as [|[]]; simpl in Hr; try discriminate; reflexivity.
    + destruct ps' as [|q ps'']; [cbn [map] in E2; apply all_some_cons in E2 as (? & ? & _ & _ & X); discriminate|].
      rewrite joinc_cons2 in *. repeat (rewrite app_length in L; cbn [List.length] in L).
      simpl p_kvs. repeat (rewrite <- app_assoc; cbn [app]).
      rewrite (IHA k a _ Ek Fk) by lia. rewrite (IHA v b _ Ev Fv) by lia.
      rewrite (IHC (kv2 :: kvs'') (q :: ps'') rest); [reflexivity|discriminate|exact E2|exact F2|lia|exact Hr].
  - (* the single element of a one-element tuple *)
    intros e p rest H F L. simpl p_es. rewrite (IHA e p _ H F) by lia. rewrite p_es_closer. reflexivity.
Qed.

Theorem parse_rend : forall e ts, rend e = Some ts -> finite e = true -> parse_default ts = Some e.
Proof.
  intros e ts H F. unfold parse_default.
  destruct (rt (S (2 * List.length ts))) as (A & _).
  specialize (A e ts [] H F ltac:(lia)). rewrite app_nil_r in A. rewrite A. reflexivity.
Qed.

(* ------------------------------------------------------------ closedness *)
Lemma dexpr_ind' (P : dexpr -> Prop) :
  (forall s, P (DName s)) -> (forall z, P (DInt z)) -> (forall f, P (DFloat f)) -> (forall op a, P a -> P (DUnary op a)) ->
  (forall s, P (DStr s)) -> (forall s, P (DBytes s)) ->
  (forall l, Forall P l -> P (DTuple l)) -> (forall l, Forall P l -> P (DList l)) -> (forall l, Forall P l -> P (DSet l)) ->
  (forall kvs, Forall (fun kv => match fst kv with Some k => P k | None => True end /\ P (snd kv)) kvs -> P (DDict kvs)) ->
  P DOther -> forall e, P e.
Proof.
  intros H1 H2 H3 H4 H5 H6 H7 H8 H9 H10 H11. fix IH 1. intros [s|z|f|op a|s|s|l|l|l|kvs|].
  - apply H1. - apply H2. - apply H3. - apply H4, IH. - apply H5. - apply H6.
  - apply H7. induction l; constructor; [apply IH|assumption].
  - apply H8. induction l; constructor; [apply IH|assumption].
  - apply H9. induction l; constructor; [apply IH|assumption].
  - apply H10. induction kvs as [|[[k|] v] r IHr]; constructor; try assumption; simpl; split; try exact I; apply IH.
  - exact H11.
Qed.

Lemma all_some_each : forall A B (f : A -> option B) l ps, all_some (map f l) = Some ps -> forall x, In x l -> exists p, f x = Some p.
Proof.
  induction l as [|a r IH]; intros ps H x Hx; [contradiction|].
  simpl in H. apply all_some_cons in H as (p & ps' & E1 & E2 & _). destruct Hx as [<-|Hx]; [eauto|]. eapply IH; eauto.
Qed.

Lemma closed_list : forall l ps, Forall (fun e => forall ts, rend e = Some ts -> finite e = true -> closed e = true) l ->
  all_some (map rend l) = Some ps -> forallb finite l = true -> forallb closed l = true.
Proof.
  intros l ps F H Fin. apply forallb_forall. intros x Hx.
  rewrite Forall_forall in F. destruct (all_some_each _ _ rend l ps H x Hx) as (p & Hp).
  rewrite forallb_forall in Fin. eapply F; eauto.
Qed.

Lemma rend_closed : forall e ts, rend e = Some ts -> finite e = true -> closed e = true.
Proof.
  induction e as [s|z|f|op a IHa|s|s|l IH|l IH|l IH|kvs IH|] using dexpr_ind'; intros ts H F; simpl in *; try reflexivity.
  - unfold const_name. destruct (_ || _); [reflexivity|discriminate].
  - destruct (unary_ok op); [|discriminate]. destruct (num_tokens a) eqn:En; [|discriminate].
    destruct (num_tokens_inv a l En F) as [(z & -> & _)|(s & -> & _)]; reflexivity.
  - destruct (all_some (map rend l)) eqn:E; [|discriminate]. eapply closed_list; eauto.
  - destruct (all_some (map rend l)) eqn:E; [|discriminate]. eapply closed_list; eauto.
  - destruct (all_some (map rend l)) eqn:E; [|discriminate]. eapply closed_list; eauto.
  - change (map (fun kv => match fst kv with Some k => match rend k, rend (snd kv) with Some a, Some b => Some (a ++ XColon :: b) | _, _ => None end | None => None end) kvs)
      with (map kvf kvs) in H.
    destruct (all_some (map kvf kvs)) as [ps|] eqn:E; [|discriminate].
    apply forallb_forall. intros [ko v] Hx. rewrite forallb_forall in F. specialize (F _ Hx). simpl in F.
    destruct (all_some_each _ _ kvf kvs ps E _ Hx) as (p & Hp). unfold kvf in Hp. simpl in Hp.
    rewrite Forall_forall in IH. specialize (IH _ Hx). simpl in IH. destruct IH as [IHk IHv].
    destruct ko as [k|]; [|discriminate].
    destruct (rend k) eqn:Ek; [|discriminate]. destruct (rend v) eqn:Ev; [|discriminate].
    apply andb_true_iff in F as [Fk Fv]. simpl. rewrite (IHk _ eq_refl Fk), (IHv _ eq_refl Fv). reflexivity.
Qed.

(* ------------------------------------------------------------ the theorems *)
Theorem default_faithful_holds : forall e ts, finite e = true -> rend e = Some ts ->
  parse_default ts = Some e /\ forall (V : Type) (ev : dexpr -> V) p, parse_default ts = Some p -> ev p = ev e.
Proof.
  intros e ts F H. pose proof (parse_rend e ts H F) as P. split; [exact P|].
  intros V ev p Hp. rewrite P in Hp. injection Hp as <-. reflexivity.
Qed.

Theorem default_closed_holds : forall len e, finite e = true ->
  exists p, parse_default (default_tokens len e) = Some p /\ closed p = true.
Proof.
  intros len e F. unfold default_tokens. destruct (rend e) as [ts|] eqn:H.
  - destruct (Nat.leb (len ts) 200).
    + exists e. split; [apply parse_rend; assumption|eapply rend_closed; eauto].
    + exists DOther. split; reflexivity.
  - exists DOther. split; reflexivity.
Qed.
