(* C19 — proofs about the signature model: print/parse round trip, validity of the printed list, refutations. *)
From Coq Require Import List String Ascii Bool Arith Lia.
From C19 Require Import Sig.
Import ListNotations.
Open Scope string_scope.
Open Scope list_scope.

(* ------------------------------------------------------------ per-parameter facts *)
Definition pok (p : param) : bool := ident_ok (pname p) && text_ok p.
Definition plain (p : param) : bool :=
  if (pname p =? "self") || (pname p =? "cls") then negb (isSome (pann p)) else true.

Definition ty_of (p : param) : option string :=
  match pdef p with
  | Some (_, ity) => match truthy (pann p) with Some t => Some t | None => ity end
  | None => pann p
  end.
Definition dv_of (p : param) : option string := option_map fst (pdef p).
Definition star_of (k : argkind) : star := match k with ARG_STAR => Star1 | ARG_STAR2 => Star2 | _ => NoStar end.
Definition it_of (st : star) (p : param) : item := IParam st (pname p) (ty_of p) (dv_of p).

Lemma view_mkp : forall p, mkp (pname p) (ty_of p) (dv_of p) = view_param p.
Proof.
  intros [n a d]; unfold mkp, view_param, ty_of, dv_of; simpl.
  destruct d as [[dv ity]|]; reflexivity.
Qed.

Lemma truthy_ty : forall p, text_ok p = true -> truthy (ty_of p) = ty_of p.
Proof.
  intros [n a d] H; unfold text_ok, ty_of in *; simpl in *.
  apply andb_true_iff in H as [H1 H2].
  destruct d as [[dv ity]|].
  - destruct a as [[|c a]|]; simpl in *; try discriminate.
    + reflexivity.
    + destruct ity as [[|c i]|]; simpl in *; try discriminate; reflexivity.
  - destruct a as [[|c a]|]; simpl in *; try discriminate; reflexivity.
Qed.

(* sig_of does not depend on the index when self/cls are unannotated *)
Definition sig1 (a : argument) : argsig := sig_of 1 a.

Lemma sig_of_plain : forall i a, plain (a_param a) = true -> sig_of i a = sig1 a.
Proof.
  intros i [p k b] H; unfold sig1, sig_of, plain in *; simpl in *.
  destruct i; simpl; [|reflexivity].
  destruct (pname p =? "self") eqn:E1; simpl in *.
  - destruct (pann p); simpl in *; [discriminate|]. reflexivity.
  - destruct (pname p =? "cls") eqn:E2; simpl in *; [|reflexivity].
    destruct (pann p); simpl in *; [discriminate|]. reflexivity.
Qed.

Definition has_star (acc : list argsig) : bool := existsb (fun s => starts_with "*" (s_name s)) acc.

Lemma has_star_app : forall a b, has_star (a ++ b) = has_star a || has_star b.
Proof. intros; unfold has_star; apply existsb_app. Qed.

(* the loop computes the list and the slash position independently of each other *)
Fixpoint accf (i : nat) (acc : list argsig) (l : list argument) : list argsig :=
  match l with
  | [] => acc
  | a :: r =>
      let acc1 := if is_named (a_kind a) && negb (existsb (fun s => starts_with "*" (s_name s)) acc)
                  then acc ++ [bare "*"] else acc in
      accf (S i) (acc1 ++ [sig_of i a]) r
  end.
Fixpoint cntf (magic : bool) (i cnt : nat) (l : list argument) : nat :=
  match l with
  | [] => cnt
  | a :: r => cntf magic (S i) (if negb magic && a_pos_only a && is_positional (a_kind a) && Nat.eqb cnt i then S cnt else cnt) r
  end.

Lemma gfa_loop_eq : forall magic l i acc cnt, gfa_loop magic i acc cnt l = (accf i acc l, cntf magic i cnt l).
Proof. induction l as [|a r IH]; intros; simpl; [reflexivity|]. apply IH. Qed.

(* once a name starting with * is in the list, or when no keyword-only argument follows: plain appends *)
Lemma accf_simple : forall l i acc,
  forallb (fun a => plain (a_param a)) l = true ->
  (has_star acc = true \/ forallb (fun a => negb (is_named (a_kind a))) l = true) ->
  accf i acc l = acc ++ map sig1 l.
Proof.
  induction l as [|a r IH]; intros i acc Hp Hs; simpl.
  - rewrite app_nil_r. reflexivity.
  - simpl in Hp. apply andb_true_iff in Hp as [Hp1 Hp2].
    assert (Hins : is_named (a_kind a) && negb (existsb (fun s => starts_with "*" (s_name s)) acc) = false).
    { destruct Hs as [Hs|Hs].
      - unfold has_star in Hs. rewrite Hs. apply andb_false_r.
      - simpl in Hs. apply andb_true_iff in Hs as [Hs _]. destruct (is_named (a_kind a)); [discriminate|reflexivity]. }
    rewrite Hins. rewrite sig_of_plain by assumption.
    rewrite IH; try assumption.
    + rewrite <- app_assoc. reflexivity.
    + destruct Hs as [Hs|Hs].
      * left. rewrite has_star_app, Hs. reflexivity.
      * right. simpl in Hs. apply andb_true_iff in Hs as [_ Hs]. exact Hs.
Qed.

(* ------------------------------------------------------------ lexing of one printed argument *)
Lemma ident_ok_parts : forall n, ident_ok n = true ->
  (n =? "") = false /\ (n =? "/") = false /\ (n =? "*") = false /\ starts_with "**" n = false /\
  starts_with "*" n = false /\ existsb (String.eqb n) kwlist = false.
Proof.
  intros n H. unfold ident_ok in H.
  repeat (apply andb_true_iff in H as [H ?]).
  repeat split; apply negb_true_iff; assumption.
Qed.

Definition toks (st : star) (p : param) : list token :=
  match st with NoStar => [] | Star1 => [TStar] | Star2 => [TDblStar] end ++ [TId (pname p)] ++
  match ty_of p with Some t => [TColon; TExpr t] | None => [] end ++
  match dv_of p with Some d => [TEq (isSome (ty_of p)); TExpr d] | None => [] end.

Lemma star_kw : forall n, existsb (String.eqb ("*" +s+ n)) kwlist = false.
Proof. intros; reflexivity. Qed.
Lemma dstar_kw : forall n, existsb (String.eqb ("**" +s+ n)) kwlist = false.
Proof. intros; reflexivity. Qed.

Lemma name_tokens_id : forall n, ident_ok n = true -> name_tokens n = [TId n].
Proof.
  intros n H. destruct (ident_ok_parts n H) as (H0 & H1 & H2 & H3 & H4 & H5).
  unfold name_tokens. rewrite H1, H2, H3, H4. reflexivity.
Qed.
Lemma name_tokens_star : forall n, ident_ok n = true -> name_tokens ("*" +s+ n) = [TStar; TId n].
Proof.
  intros n H. destruct (ident_ok_parts n H) as (H0 & H1 & H2 & H3 & H4 & H5).
  unfold name_tokens. simpl. unfold starts_with in *. simpl.
  rewrite H0. simpl in H4. rewrite H4. destruct n; reflexivity.
Qed.
Lemma name_tokens_dstar : forall n, ident_ok n = true -> name_tokens ("**" +s+ n) = [TDblStar; TId n].
Proof.
  intros n H. unfold name_tokens. simpl. unfold starts_with. simpl. destruct n; reflexivity.
Qed.

(* the argument kinds are consistent with the parameter (what transform_args produces) *)
Definition kind_ok (a : argument) : bool :=
  match a_kind a with
  | ARG_STAR | ARG_STAR2 => negb (isSome (pdef (a_param a)))
  | ARG_POS | ARG_NAMED => negb (isSome (pdef (a_param a)))
  | ARG_OPT | ARG_NAMED_OPT => isSome (pdef (a_param a))
  end.

Lemma arg_def_sig1 : forall a, pok (a_param a) = true -> kind_ok a = true ->
  arg_def (sig1 a) = toks (star_of (a_kind a)) (a_param a).
Proof.
  intros [p k b] Hok Hk. unfold pok in Hok. apply andb_true_iff in Hok as [Hid Htx].
  pose proof (truthy_ty p Htx) as Hty.
  destruct (ident_ok_parts _ Hid) as (H0 & H1 & H2 & H3 & H4 & H5).
  unfold sig1, sig_of, arg_def, toks, kind_ok, ty_of, dv_of in *; simpl in *.
  destruct (pdef p) as [[dv ity]|] eqn:Ed; simpl in *.
  - destruct k; simpl in *; try discriminate;
      rewrite H5, Hty, (name_tokens_id _ Hid);
      destruct (match truthy (pann p) with Some t => Some t | None => ity end); reflexivity.
  - destruct k; simpl in *; try discriminate.
    + rewrite H5, Hty, (name_tokens_id _ Hid). destruct (pann p); reflexivity.
    + rewrite Hty. change (String "*" (pname p)) with ("*" +s+ pname p).
      rewrite (name_tokens_star _ Hid). destruct (pann p); reflexivity.
    + rewrite H5, Hty, (name_tokens_id _ Hid). destruct (pann p); reflexivity.
    + rewrite Hty. change (String "*" (String "*" (pname p))) with ("**" +s+ pname p).
      rewrite (name_tokens_dstar _ Hid). destruct (pann p); reflexivity.
Qed.

Lemma lex_toks_end : forall st p, lex_items CStart (toks st p) = Some [it_of st p].
Proof.
  intros st p. unfold toks, it_of. destruct st, (ty_of p), (dv_of p); reflexivity.
Qed.
Lemma lex_toks_comma : forall st p ts,
  lex_items CStart (toks st p ++ TComma :: ts) = option_map (cons (it_of st p)) (lex_items CStart ts).
Proof.
  intros st p ts. unfold toks, it_of. destruct st, (ty_of p), (dv_of p); reflexivity.
Qed.

(* printed form of a list of "pieces": a piece is a parameter with its star, or one of the two markers *)
Inductive piece := PSlash | PBare | PPar (st : star) (p : param).
Definition piece_toks (x : piece) : list token :=
  match x with PSlash => [TSlash] | PBare => [TStar] | PPar st p => toks st p end.
Definition piece_item (x : piece) : item :=
  match x with PSlash => ISlash | PBare => IBare | PPar st p => it_of st p end.

Lemma lex_piece_end : forall x, lex_items CStart (piece_toks x) = Some [piece_item x].
Proof. destruct x; try reflexivity. apply lex_toks_end. Qed.
Lemma lex_piece_comma : forall x ts,
  lex_items CStart (piece_toks x ++ TComma :: ts) = option_map (cons (piece_item x)) (lex_items CStart ts).
Proof. destruct x; try reflexivity. apply lex_toks_comma. Qed.

Lemma lex_join : forall l, l <> [] -> lex_items CStart (join (map piece_toks l)) = Some (map piece_item l).
Proof.
  induction l as [|x r IH]; intros H; [congruence|].
  destruct r as [|y r'].
  - simpl. apply lex_piece_end.
  - change (join (map piece_toks (x :: y :: r'))) with (piece_toks x ++ TComma :: join (map piece_toks (y :: r'))).
    rewrite lex_piece_comma, IH by discriminate. reflexivity.
Qed.

Lemma piece_nonempty : forall x, piece_toks x <> [].
Proof. destruct x; simpl; try discriminate. unfold toks. destruct st; simpl; discriminate. Qed.

Lemma items_join : forall l, items_of (join (map piece_toks l)) = Some (map piece_item l).
Proof.
  intros [|x r]; [reflexivity|].
  unfold items_of.
  destruct (join (map piece_toks (x :: r))) eqn:E.
  - exfalso. destruct r; simpl in E.
    + eapply piece_nonempty; eauto.
    + destruct (piece_toks x) eqn:E2; [eapply piece_nonempty; eauto|discriminate].
  - rewrite <- E. apply lex_join. discriminate.
Qed.

(* ------------------------------------------------------------ kind assignment on the closed form *)
Fixpoint dfl (d : bool) (l : list param) : bool :=
  match l with [] => d | p :: r => dfl (d || isSome (pdef p)) r end.

Lemma mono_app : forall a b d, mono d (a ++ b) = mono d a && mono (dfl d a) b.
Proof.
  induction a as [|p r IH]; intros b d; simpl; [reflexivity|].
  rewrite IH. rewrite andb_assoc. reflexivity.
Qed.

Lemma isSome_dv : forall p, isSome (dv_of p) = isSome (pdef p).
Proof. intros [n a [d|]]; reflexivity. Qed.

Lemma run_pos : forall l po pk sl d, mono d l = true ->
  kind_run (mkPS po pk None [] None sl false false d) (map (it_of NoStar) l)
  = Some (mkPS po (pk ++ map view_param l) None [] None sl false false (dfl d l)).
Proof.
  induction l as [|p r IH]; intros po pk sl d Hm; simpl.
  - rewrite app_nil_r. reflexivity.
  - simpl in Hm. apply andb_true_iff in Hm as [Hm1 Hm2].
    unfold kind_step; simpl. rewrite isSome_dv.
    assert (E : d && negb (isSome (pdef p)) = false).
    { destruct d; simpl in *; [rewrite Hm1|]; reflexivity. }
    rewrite E. rewrite view_mkp. rewrite IH by assumption.
    rewrite <- app_assoc. reflexivity.
Qed.

Lemma run_kw : forall l po pk va ko sl bp d,
  kind_run (mkPS po pk va ko None sl true bp d) (map (it_of NoStar) l)
  = Some (mkPS po pk va (ko ++ map view_param l) None sl true (match l with [] => bp | _ => false end) d).
Proof.
  induction l as [|p r IH]; intros; simpl.
  - rewrite app_nil_r. reflexivity.
  - unfold kind_step; simpl. rewrite view_mkp, IH. rewrite <- app_assoc. simpl.
    destruct r; reflexivity.
Qed.

Lemma kind_run_app : forall a b s, kind_run s (a ++ b) =
  match kind_run s a with Some s' => kind_run s' b | None => None end.
Proof.
  induction a as [|x r IH]; intros; simpl; [reflexivity|].
  destruct (kind_step s x); [apply IH|reflexivity].
Qed.

(* ------------------------------------------------------------ closed form of _get_func_args *)
Lemma accf_app : forall l1 l2 i acc, accf i acc (l1 ++ l2) = accf (i + List.length l1) (accf i acc l1) l2.
Proof.
  induction l1 as [|a r IH]; intros; simpl.
  - rewrite Nat.add_0_r. reflexivity.
  - rewrite IH. replace (S i + List.length r) with (i + S (List.length r)) by lia. reflexivity.
Qed.

Definition psig (k : argkind) (p : param) : argsig := sig1 (mkArg p k false).
Lemma sig1_make : forall p k b, sig1 (make_argument p k b) = psig k p.
Proof. reflexivity. Qed.

Definition ppos (p : param) : argsig := psig (pos_kind p) p.
Definition pnamed (p : param) : argsig := psig (named_kind p) p.

Definition wfp (a : arguments) : Prop := wf_params a = true /\ self_cls_plain a = true.

Definition P_of (a : arguments) : list param := posonly a ++ args a.
Definition cnt_of (magic : bool) (a : arguments) : nat :=
  if magic then 0 else List.length (posonly a) + List.length (take_while flagged (args a)).

Definition tail_sigs (a : arguments) : list argsig :=
  match vararg a with
  | Some v => psig ARG_STAR v :: map pnamed (kwonly a)
  | None => match kwonly a with [] => [] | _ => bare "*" :: map pnamed (kwonly a) end
  end ++ map (psig ARG_STAR2) (olist (kwarg a)).

Lemma forallb_app_iff : forall A (f : A -> bool) l1 l2, forallb f (l1 ++ l2) = true <-> forallb f l1 = true /\ forallb f l2 = true.
Proof. intros. rewrite forallb_app. apply andb_true_iff. Qed.

Lemma wf_split : forall a, wfp a ->
  forallb pok (P_of a) = true /\ forallb pok (olist (vararg a)) = true /\ forallb pok (kwonly a) = true /\
  forallb pok (olist (kwarg a)) = true /\
  forallb plain (P_of a) = true /\ forallb plain (olist (vararg a)) = true /\ forallb plain (kwonly a) = true /\
  forallb plain (olist (kwarg a)) = true /\
  mono false (P_of a) = true /\ no_default (vararg a) = true /\ no_default (kwarg a) = true.
Proof.
  intros a (Hw & Hs). unfold wf_params, self_cls_plain, all_params, P_of in *.
  repeat (apply andb_true_iff in Hw as [Hw ?]).
  change (fun p => ident_ok (pname p) && text_ok p) with pok in Hw.
  change (fun p => if (pname p =? "self") || (pname p =? "cls") then negb (isSome (pann p)) else true) with plain in Hs.
  rewrite app_assoc in Hw, Hs.
  apply forallb_app_iff in Hw as [Hw1 Hw]. apply forallb_app_iff in Hw as [Hw2 Hw]. apply forallb_app_iff in Hw as [Hw3 Hw4].
  apply forallb_app_iff in Hs as [Hs1 Hs]. apply forallb_app_iff in Hs as [Hs2 Hs]. apply forallb_app_iff in Hs as [Hs3 Hs4].
  repeat split; assumption.
Qed.

Lemma has_star_pos : forall l, forallb pok l = true -> has_star (map ppos l) = false.
Proof.
  induction l as [|p r IH]; intros H; simpl in *; [reflexivity|].
  apply andb_true_iff in H as [H1 H2]. rewrite IH by assumption. rewrite orb_false_r.
  unfold pok in H1. apply andb_true_iff in H1 as [Hid _].
  destruct (ident_ok_parts _ Hid) as (_ & _ & _ & _ & H4 & _).
  unfold ppos, psig, sig1, sig_of, pos_kind; simpl. destruct (pdef p) as [[dv ity]|]; simpl; exact H4.
Qed.

Lemma plain_map : forall (l : list param) (k : param -> argkind) b, forallb plain l = true ->
  forallb (fun a => plain (a_param a)) (map (fun p => make_argument p (k p) b) l) = true.
Proof. induction l; simpl; intros; [reflexivity|]. apply andb_true_iff in H as [? ?]. rewrite H. simpl. auto. Qed.

Lemma notnamed_map : forall (l : list param) (k : param -> argkind) b, (forall p, is_named (k p) = false) ->
  forallb (fun a => negb (is_named (a_kind a))) (map (fun p => make_argument p (k p) b) l) = true.
Proof. induction l; simpl; intros; [reflexivity|]. rewrite H. simpl. auto. Qed.

Lemma accf_closed : forall a, wfp a -> accf 0 [] (transform_args a) = map ppos (P_of a) ++ tail_sigs a.
Proof.
  intros a H.
  destruct (wf_split a H) as (Hk1 & Hk2 & Hk3 & Hk4 & Hp1 & Hp2 & Hp3 & Hp4 & Hm & Hd1 & Hd2).
  unfold P_of in *. apply forallb_app_iff in Hp1 as [Hp1a Hp1b].
  unfold transform_args.
  rewrite app_assoc. rewrite accf_app.
  rewrite (accf_simple (map (fun p => make_argument p (pos_kind p) true) (posonly a) ++
                        map (fun p => make_argument p (pos_kind p) false) (args a)) 0 []).
  2:{ rewrite forallb_app. rewrite !plain_map by assumption. reflexivity. }
  2:{ right. rewrite forallb_app. rewrite !notnamed_map; [reflexivity| |]; intros p; unfold pos_kind; destruct (pdef p); reflexivity. }
  simpl app at 1.
  assert (Eacc : map sig1 (map (fun p => make_argument p (pos_kind p) true) (posonly a) ++
                          map (fun p => make_argument p (pos_kind p) false) (args a)) = map ppos (posonly a ++ args a)).
  { rewrite map_app, !map_map, map_app. reflexivity. }
  rewrite Eacc.
  set (ACC := map ppos (posonly a ++ args a)).
  assert (Hst : has_star ACC = false) by (apply has_star_pos; assumption).
  set (I := 0 + List.length (map (fun p => make_argument p (pos_kind p) true) (posonly a) ++ map (fun p => make_argument p (pos_kind p) false) (args a))).
  clearbody I.
  unfold tail_sigs.
  destruct (vararg a) as [v|] eqn:Ev.
  - simpl olist. simpl map at 1. cbn [app]. cbn [accf].
    simpl in Hp2. apply andb_true_iff in Hp2 as [Hp2 _].
    cbn [a_kind make_argument is_named andb].
    rewrite sig_of_plain by (simpl; assumption). rewrite sig1_make.
    rewrite accf_simple.
    + rewrite map_app, !map_map. rewrite <- !app_assoc. simpl. reflexivity.
    + rewrite forallb_app. rewrite (plain_map (kwonly a) named_kind) by assumption.
      rewrite (plain_map (olist (kwarg a)) (fun _ => ARG_STAR2)) by assumption. reflexivity.
    + left. rewrite has_star_app. simpl. unfold starts_with. simpl.
      unfold psig, sig1, sig_of. simpl. unfold no_default in Hd1. destruct (pdef v); [discriminate|]. simpl.
      destruct (pname v); simpl; rewrite orb_true_r; reflexivity.
  - simpl olist. simpl map at 1. simpl app at 1.
    destruct (kwonly a) as [|k ko] eqn:Ek.
    + simpl map at 1. simpl app at 1.
      rewrite accf_simple.
      * rewrite !map_map. reflexivity.
      * apply (plain_map (olist (kwarg a)) (fun _ => ARG_STAR2)); assumption.
      * right. apply (notnamed_map (olist (kwarg a)) (fun _ => ARG_STAR2)). reflexivity.
    + simpl map at 1. cbn [app]. cbn [accf].
      simpl in Hp3. apply andb_true_iff in Hp3 as [Hp3a Hp3b].
      cbn [a_kind make_argument].
      fold (has_star ACC). rewrite Hst.
      assert (En : is_named (named_kind k) = true) by (unfold named_kind; destruct (pdef k); reflexivity).
      rewrite En. cbn [andb negb].
      rewrite sig_of_plain by (simpl; assumption). rewrite sig1_make.
      rewrite accf_simple.
      * rewrite map_app, !map_map. rewrite <- !app_assoc. simpl. reflexivity.
      * rewrite forallb_app. rewrite (plain_map ko named_kind) by assumption.
        rewrite (plain_map (olist (kwarg a)) (fun _ => ARG_STAR2)) by assumption. reflexivity.
      * left. rewrite !has_star_app. simpl. rewrite orb_true_r. reflexivity.
Qed.

(* position of the slash *)
Definition pcond (a : argument) : bool := a_pos_only a && is_positional (a_kind a).

Lemma cntf_magic : forall l i cnt, cntf true i cnt l = cnt.
Proof. induction l; intros; simpl; [reflexivity|]. apply IHl. Qed.

Lemma cntf_lt : forall magic l i cnt, cnt < i -> cntf magic i cnt l = cnt.
Proof.
  induction l as [|a r IH]; intros i cnt H; simpl; [reflexivity|].
  assert (E : Nat.eqb cnt i = false) by (apply Nat.eqb_neq; lia).
  rewrite E, andb_false_r. apply IH. lia.
Qed.

Lemma cntf_run : forall l i, cntf false i i l = i + List.length (take_while pcond l).
Proof.
  induction l as [|a r IH]; intros i; simpl; [lia|].
  rewrite Nat.eqb_refl, andb_true_r. fold (pcond a). unfold pcond at 1. 
  destruct (a_pos_only a && is_positional (a_kind a)) eqn:E; fold (pcond a) in E; rewrite E.
  - rewrite IH. simpl. lia.
  - rewrite cntf_lt by lia. simpl. lia.
Qed.

Lemma tw_app_all : forall A (f : A -> bool) l1 l2, forallb f l1 = true -> take_while f (l1 ++ l2) = l1 ++ take_while f l2.
Proof. induction l1; simpl; intros; [reflexivity|]. apply andb_true_iff in H as [H1 H2]. rewrite H1, IHl1 by assumption. reflexivity. Qed.

Lemma tw_args : forall (l : list param) rest, take_while pcond rest = [] ->
  List.length (take_while pcond (map (fun p => make_argument p (pos_kind p) false) l ++ rest)) = List.length (take_while flagged l).
Proof.
  induction l as [|p r IH]; intros rest Hr; simpl; [rewrite Hr; reflexivity|].
  unfold pcond at 1, make_argument at 1, flagged at 1. simpl.
  assert (Ep : is_positional (pos_kind p) = true) by (unfold pos_kind; destruct (pdef p); reflexivity).
  rewrite Ep, andb_true_r.
  destruct (argument_elide_name (pname p)); simpl; [rewrite IH by assumption; reflexivity|reflexivity].
Qed.

Lemma cntf_closed : forall magic a, cntf magic 0 0 (transform_args a) = cnt_of magic a.
Proof.
  intros magic a. unfold cnt_of. destruct magic; [apply cntf_magic|].
  rewrite cntf_run. simpl. unfold transform_args.
  rewrite tw_app_all.
  2:{ induction (posonly a) as [|p r IH]; simpl; [reflexivity|]. rewrite IH, andb_true_r.
      unfold pcond, make_argument; simpl.
      assert (Ep : is_positional (pos_kind p) = true) by (unfold pos_kind; destruct (pdef p); reflexivity).
      rewrite Ep. destruct (argument_elide_name (pname p)); reflexivity. }
  rewrite app_length, map_length. f_equal.
  apply tw_args.
  destruct (vararg a); [simpl; unfold pcond; simpl; rewrite andb_false_r; reflexivity|]. simpl.
  destruct (kwonly a) as [|k ko]; simpl.
  - destruct (kwarg a); [simpl; unfold pcond; simpl; rewrite andb_false_r; reflexivity|reflexivity].
  - unfold pcond, make_argument, named_kind; simpl. destruct (pdef k); simpl; rewrite andb_false_r; reflexivity.
Qed.

Lemma gfa_closed : forall magic a, wfp a ->
  gfa_loop magic 0 [] 0 (transform_args a) = (map ppos (P_of a) ++ tail_sigs a, cnt_of magic a).
Proof. intros. rewrite gfa_loop_eq, accf_closed, cntf_closed by assumption. reflexivity. Qed.

(* ------------------------------------------------------------ printed form as pieces *)
Definition pieces_pos (c : nat) (P : list param) : list piece :=
  match c with
  | 0 => map (PPar NoStar) P
  | _ => map (PPar NoStar) (firstn c P) ++ PSlash :: map (PPar NoStar) (skipn c P)
  end.
Definition tail_pieces (a : arguments) : list piece :=
  match vararg a with
  | Some v => PPar Star1 v :: map (PPar NoStar) (kwonly a)
  | None => match kwonly a with [] => [] | _ => PBare :: map (PPar NoStar) (kwonly a) end
  end ++ map (PPar Star2) (olist (kwarg a)).

Lemma argdef_pos : forall l, forallb pok l = true -> map arg_def (map ppos l) = map piece_toks (map (PPar NoStar) l).
Proof.
  induction l as [|p r IH]; intros H; simpl in *; [reflexivity|].
  apply andb_true_iff in H as [H1 H2]. rewrite IH by assumption. f_equal.
  unfold ppos, psig. rewrite arg_def_sig1; simpl; try assumption.
  - unfold pos_kind. destruct (pdef p); reflexivity.
  - unfold kind_ok, pos_kind; simpl. destruct (pdef p); reflexivity.
Qed.
Lemma argdef_named : forall l, forallb pok l = true -> map arg_def (map pnamed l) = map piece_toks (map (PPar NoStar) l).
Proof.
  induction l as [|p r IH]; intros H; simpl in *; [reflexivity|].
  apply andb_true_iff in H as [H1 H2]. rewrite IH by assumption. f_equal.
  unfold pnamed, psig. rewrite arg_def_sig1; simpl; try assumption.
  - unfold named_kind. destruct (pdef p); reflexivity.
  - unfold kind_ok, named_kind; simpl. destruct (pdef p); reflexivity.
Qed.
Lemma argdef_star : forall k st (o : option param), (k = ARG_STAR /\ st = Star1) \/ (k = ARG_STAR2 /\ st = Star2) ->
  forallb pok (olist o) = true -> no_default o = true ->
  map arg_def (map (psig k) (olist o)) = map piece_toks (map (PPar st) (olist o)).
Proof.
  intros k st [p|] Hk H Hd; simpl in *; [|reflexivity].
  apply andb_true_iff in H as [H1 _]. f_equal. unfold psig.
  rewrite arg_def_sig1; simpl; try assumption.
  - destruct Hk as [[-> ->]|[-> ->]]; reflexivity.
  - unfold kind_ok; simpl. destruct Hk as [[-> _]|[-> _]]; exact Hd.
Qed.

Lemma argdef_tail : forall a, wfp a -> map arg_def (tail_sigs a) = map piece_toks (tail_pieces a).
Proof.
  intros a H.
  destruct (wf_split a H) as (Hk1 & Hk2 & Hk3 & Hk4 & _ & _ & _ & _ & _ & Hd1 & Hd2).
  unfold tail_sigs, tail_pieces. rewrite !map_app.
  rewrite (argdef_star ARG_STAR2 Star2 (kwarg a)) by auto. f_equal.
  destruct (vararg a) as [v|] eqn:Ev.
  - simpl. rewrite argdef_named by assumption. f_equal.
    pose proof (argdef_star ARG_STAR Star1 (Some v)) as E. simpl in E.
    assert (E' := E (or_introl (conj eq_refl eq_refl)) Hk2 Hd1). injection E'. auto.
  - destruct (kwonly a) as [|k ko] eqn:Ek; [reflexivity|].
    change (map arg_def (bare "*" :: map pnamed (k :: ko))) with ([TStar] :: map arg_def (map pnamed (k :: ko))).
    rewrite argdef_named by assumption. reflexivity.
Qed.

Lemma tw_len : forall A (f : A -> bool) l, List.length (take_while f l) <= List.length l.
Proof. induction l; simpl; [lia|]. destruct (f a); simpl; lia. Qed.

Lemma cnt_le : forall magic a, cnt_of magic a <= List.length (P_of a).
Proof.
  intros. unfold cnt_of, P_of. rewrite app_length. destruct magic; [lia|].
  pose proof (tw_len _ flagged (args a)). lia.
Qed.

Lemma forallb_firstn : forall A (f : A -> bool) n l, forallb f l = true -> forallb f (firstn n l) = true.
Proof. induction n; destruct l; simpl; intros; auto. apply andb_true_iff in H as [? ?]. rewrite H. simpl. auto. Qed.
Lemma forallb_skipn : forall A (f : A -> bool) n l, forallb f l = true -> forallb f (skipn n l) = true.
Proof. induction n; destruct l; simpl; intros; auto. apply andb_true_iff in H as [? ?]. auto. Qed.

Lemma print_closed : forall magic a, wfp a ->
  map arg_def (get_func_args magic (transform_args a)) =
  map piece_toks (pieces_pos (cnt_of magic a) (P_of a) ++ tail_pieces a).
Proof.
  intros magic a H. unfold get_func_args. rewrite gfa_closed by assumption.
  destruct (wf_split a H) as (Hk1 & _).
  pose proof (cnt_le magic a) as Hle.
  destruct (cnt_of magic a) as [|n] eqn:Ec.
  - simpl pieces_pos. rewrite !map_app, argdef_pos, argdef_tail by assumption. reflexivity.
  - unfold insert_at, pieces_pos.
    rewrite firstn_app, skipn_app. rewrite map_length.
    replace (S n - List.length (P_of a)) with 0 by lia.
    change (firstn 0 (tail_sigs a)) with (@nil argsig). change (skipn 0 (tail_sigs a)) with (tail_sigs a).
    rewrite app_nil_r. rewrite firstn_map, skipn_map.
    rewrite <- app_assoc. rewrite !map_app. cbn [map app].
    rewrite !map_app.
    rewrite (argdef_pos (firstn (S n) (P_of a))) by (apply forallb_firstn; assumption).
    rewrite (argdef_pos (skipn (S n) (P_of a))) by (apply forallb_skipn; assumption).
    rewrite argdef_tail by assumption. reflexivity.
Qed.

(* ------------------------------------------------------------ kind assignment of the closed form *)
Lemma items_pos : forall l, map piece_item (map (PPar NoStar) l) = map (it_of NoStar) l.
Proof. intros; rewrite map_map; reflexivity. Qed.

Lemma step_star2 : forall po pk va ko sl ss d w, isSome (pdef w) = false ->
  kind_step (mkPS po pk va ko None sl ss false d) (it_of Star2 w)
  = Some (mkPS po pk va ko (Some (view_param w)) sl ss false d).
Proof.
  intros. unfold kind_step, it_of; simpl. rewrite isSome_dv, H. rewrite view_mkp. reflexivity.
Qed.

Lemma run_kwarg : forall (o : option param) po pk va ko sl ss d, no_default o = true ->
  match kind_run (mkPS po pk va ko None sl ss false d) (map piece_item (map (PPar Star2) (olist o))) with
  | Some s => finish s | None => None end
  = Some (mkArgs po pk va ko (option_map view_param o)).
Proof.
  intros [w|] **; simpl.
  - unfold no_default in H. apply negb_true_iff in H.
    change (piece_item (PPar Star2 w)) with (it_of Star2 w). rewrite step_star2 by assumption. reflexivity.
  - reflexivity.
Qed.

Lemma run_tail : forall a po pk sl d, no_default (vararg a) = true -> no_default (kwarg a) = true ->
  match kind_run (mkPS po pk None [] None sl false false d) (map piece_item (tail_pieces a)) with
  | Some s => finish s | None => None end
  = Some (mkArgs po pk (option_map view_param (vararg a)) (map view_param (kwonly a)) (option_map view_param (kwarg a))).
Proof.
  intros a po pk sl d Hd1 Hd2. unfold tail_pieces. rewrite map_app, kind_run_app.
  destruct (vararg a) as [v|].
  - change (map piece_item (PPar Star1 v :: map (PPar NoStar) (kwonly a))) with (it_of Star1 v :: map piece_item (map (PPar NoStar) (kwonly a))).
    rewrite items_pos. cbn [kind_run].
    unfold no_default in Hd1. apply negb_true_iff in Hd1.
    unfold kind_step at 1, it_of at 1; cbn [r_kw isSome star_seen orb]. rewrite isSome_dv, Hd1. cbn [orb].
    rewrite view_mkp. cbn [r_po r_pk r_va r_ko r_kw slash_seen dflt_seen].
    rewrite run_kw. cbn [app].
    replace (match kwonly a with [] => false | _ :: _ => false end) with false by (destruct (kwonly a); reflexivity).
    apply run_kwarg; assumption.
  - destruct (kwonly a) as [|k ko].
    + cbn [map kind_run]. apply run_kwarg; assumption.
    + change (map piece_item (PBare :: map (PPar NoStar) (k :: ko))) with (IBare :: map piece_item (map (PPar NoStar) (k :: ko))).
      rewrite items_pos. cbn [kind_run]. unfold kind_step at 1; cbn [r_kw isSome star_seen r_po r_pk r_va r_ko slash_seen dflt_seen].
      rewrite run_kw. cbn [app]. apply run_kwarg; assumption.
Qed.

Lemma tw_split : forall A (f : A -> bool) l,
  firstn (List.length (take_while f l)) l = take_while f l /\
  skipn (List.length (take_while f l)) l = drop_while f l.
Proof.
  induction l as [|p r IH]; simpl; [split; reflexivity|].
  destruct (f p); simpl; [|split; reflexivity].
  destruct IH as [I1 I2]. rewrite I1, I2. split; reflexivity.
Qed.

(* ------------------------------------------------------------ the round trip *)
Theorem sig_roundtrip_holds : forall magic a, wfp a ->
  parse_sig (print_sig (get_func_args magic (transform_args a))) = Some (stub_view magic a).
Proof.
  intros magic a H.
  unfold parse_sig, print_sig. rewrite print_closed by assumption. rewrite items_join.
  destruct (wf_split a H) as (_ & _ & _ & _ & _ & _ & _ & _ & Hm & Hd1 & Hd2).
  rewrite map_app, kind_run_app.
  pose proof (cnt_le magic a) as Hle.
  unfold ps0.
  destruct (cnt_of magic a) as [|n] eqn:Ec.
  - (* no slash *)
    unfold pieces_pos. rewrite items_pos, run_pos by assumption. cbn [app].
    rewrite run_tail by assumption.
    unfold stub_view, cnt_of, P_of in *. destruct magic; [reflexivity|].
    assert (E1 : posonly a = []) by (destruct (posonly a); [reflexivity|simpl in Ec; lia]).
    assert (E2 : take_while flagged (args a) = []) by (destruct (take_while flagged (args a)); [reflexivity|simpl in Ec; lia]).
    destruct (tw_split _ flagged (args a)) as [_ S2]. rewrite E2 in S2. simpl in S2.
    rewrite E1, E2, <- S2. reflexivity.
  - unfold pieces_pos. rewrite map_app, kind_run_app. rewrite items_pos.
    set (A := firstn (S n) (P_of a)). set (B := skipn (S n) (P_of a)).
    assert (EAB : P_of a = A ++ B) by (symmetry; apply firstn_skipn).
    rewrite EAB, mono_app in Hm. apply andb_true_iff in Hm as [HmA HmB].
    rewrite run_pos by assumption. cbn [app map kind_run].
    assert (HA : A <> []).
    { unfold A. destruct (P_of a); simpl in *; [lia|discriminate]. }
    unfold kind_step at 1. cbn [piece_item r_kw isSome slash_seen star_seen orb r_pk].
    destruct (map view_param A) eqn:EvA; [destruct A; [congruence|discriminate]|]. rewrite <- EvA.
    cbn [r_po r_va r_ko r_kw bare_pending dflt_seen].
    rewrite items_pos, run_pos by assumption. cbn [app].
    rewrite run_tail by assumption.
    unfold stub_view. unfold cnt_of in Ec. destruct magic; [discriminate|].
    f_equal.
    destruct (tw_split _ flagged (args a)) as [S1 S2].
    assert (EA : A = posonly a ++ take_while flagged (args a)).
    { unfold A, P_of. rewrite <- Ec. rewrite firstn_app_2. rewrite S1. reflexivity. }
    assert (EB : B = drop_while flagged (args a)).
    { unfold B, P_of. rewrite <- Ec. rewrite skipn_app.
      rewrite skipn_all2 by lia. replace (List.length (posonly a) + List.length (take_while flagged (args a)) - List.length (posonly a)) with (List.length (take_while flagged (args a))) by lia.
      rewrite S2. reflexivity. }
    rewrite EA, EB. reflexivity.
Qed.
