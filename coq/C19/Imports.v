(* C19 — model of mypy/stubutil.py ImportTracker (executable definitions only).

   Dotted names are lists of components (["os"; "path"] = os.path).  Dicts are association lists read through
   `lookup` (first match) and written by `set` (remove + cons), sets are duplicate-free lists.
   import_lines: the model returns one structured binding per imported name, in the order of its own iteration over
   required_names; the real code sorts and groups `from m import a, b` — the tie compares the sets of bindings. *)
From Coq Require Import List String Bool.
Import ListNotations.
Open Scope string_scope.
Open Scope list_scope.

Definition dname := list string.
Definition dn_dec : forall a b : dname, {a = b} + {a <> b} := list_eq_dec string_dec.
Definition mem (n : dname) (l : list dname) : bool := if in_dec dn_dec n l then true else false.

Section Dict.
  Context {V : Type}.
  Fixpoint lookup (k : dname) (m : list (dname * V)) : option V :=
    match m with [] => None | (k', v) :: r => if dn_dec k k' then Some v else lookup k r end.
  Fixpoint remove_key (k : dname) (m : list (dname * V)) : list (dname * V) :=
    match m with [] => [] | (k', v) :: r => if dn_dec k k' then remove_key k r else (k', v) :: remove_key k r end.
  Definition set (k : dname) (v : V) (m : list (dname * V)) := (k, v) :: remove_key k m.
  Definition has (k : dname) (m : list (dname * V)) : bool := match lookup k m with Some _ => true | None => false end.
End Dict.

Definition add_name (n : dname) (s : list dname) : list dname := if mem n s then s else n :: s.

Record tracker := mkT {
  module_for : list (dname * option dname);     (* None: imported directly *)
  direct_imports : list (dname * dname);
  reverse_alias : list (dname * dname);
  required_names : list dname;
  reexports : list dname
}.
Definition init : tracker := mkT [] [] [] [] [].

(* all non-empty prefixes, longest first:  a.b.c, a.b, a   (the `while name: ... name = name.rpartition(".")[0]` loop) *)
Fixpoint prefixes_rev (r : list string) : list dname :=   (* r = reversed components *)
  match r with [] => [] | _ :: t => rev r :: prefixes_rev t end.
Definition prefixes (n : dname) : list dname := prefixes_rev (rev n).

(* require_name: strip trailing components until the name is a direct import or has no dot left *)
Definition require_target (t : tracker) (n : dname) : dname :=
  match find (fun p => has p (direct_imports t) || Nat.eqb (List.length p) 1) (prefixes n) with
  | Some p => p
  | None => n
  end.
Definition require_name (t : tracker) (n : dname) : tracker :=
  mkT (module_for t) (direct_imports t) (reverse_alias t) (add_name (require_target t n) (required_names t)) (reexports t).

Definition add_from_one (module : dname) (require : bool) (t : tracker) (na : dname * option dname) : tracker :=
  let '(name, alias) := na in
  let key := match alias with Some a => a | None => name end in
  let t1 := match alias with
            | Some a => mkT (set a (Some module) (module_for t)) (direct_imports t) (set a name (reverse_alias t))
                            (required_names t) (reexports t)
            | None => mkT (set name (Some module) (module_for t)) (direct_imports t) (remove_key name (reverse_alias t))
                          (required_names t) (reexports t)
            end in
  let t2 := if require then require_name t1 key else t1 in
  mkT (module_for t2) (remove_key key (direct_imports t2)) (reverse_alias t2) (required_names t2) (reexports t2).

Definition add_import_from (t : tracker) (module : dname) (names : list (dname * option dname)) (require : bool) :=
  fold_left (add_from_one module require) names t.

Definition add_import (t : tracker) (module : dname) (alias : option dname) (require : bool) : tracker :=
  match alias with
  | Some a => mkT (set a None (module_for t)) (direct_imports t) (set a module (reverse_alias t))
                  (if require then add_name a (required_names t) else required_names t) (reexports t)
  | None =>
      let req := if require then add_name module (required_names t) else required_names t in
      fold_left (fun t' p => mkT (set p None (module_for t')) (set p module (direct_imports t'))
                                 (remove_key p (reverse_alias t')) (required_names t') (reexports t'))
                (prefixes module)
                (mkT (module_for t) (direct_imports t) (reverse_alias t) req (reexports t))
  end.

Definition reexport (t : tracker) (n : dname) : tracker :=
  let t1 := require_name t n in
  mkT (module_for t1) (direct_imports t1) (reverse_alias t1) (required_names t1) (add_name n (reexports t1)).

Inductive op :=
| OAddImportFrom (module : dname) (names : list (dname * option dname)) (require : bool)
| OAddImport (module : dname) (alias : option dname) (require : bool)
| ORequire (n : dname)
| OReexport (n : dname).

Definition step (t : tracker) (o : op) : tracker :=
  match o with
  | OAddImportFrom m ns r => add_import_from t m ns r
  | OAddImport m a r => add_import t m a r
  | ORequire n => require_name t n
  | OReexport n => reexport t n
  end.
Definition run (ops : list op) : tracker := fold_left step ops init.

(* one emitted binding *)
Inductive line :=
| LImport (source : dname) (asname : option dname)                 (* import source [as asname] *)
| LFrom (module : dname) (name : dname) (asname : option dname).   (* from module import name [as asname] *)

Definition line_for (t : tracker) (n : dname) : list line :=
  match lookup n (module_for t) with
  | None => []                                        (* never seen in an import statement: ignored *)
  | Some (Some m) =>
      match lookup n (reverse_alias t) with
      | Some orig => [LFrom m orig (Some n)]
      | None => if mem n (reexports t) then [LFrom m n (Some n)] else [LFrom m n None]
      end
  | Some None =>
      match lookup n (reverse_alias t) with
      | Some source => [LImport source (Some n)]
      | None => if mem n (reexports t) then [LImport n (Some n)] else [LImport n None]
      end
  end.

Definition import_lines (t : tracker) : list line := flat_map (line_for t) (required_names t).

(* the name a line makes available in the stub *)
Definition bound (l : line) : dname :=
  match l with
  | LImport s None => s | LImport _ (Some a) => a
  | LFrom _ n None => n | LFrom _ _ (Some a) => a
  end.
