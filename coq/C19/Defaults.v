(* C19 — model of default-value rendering: mypy/stubgen.py ASTStubGenerator.get_str_default_of_node (after fix d119a57)
   and the use of its result in _get_func_args (`if valid and len(potential_default) <= 200`), on a small expression
   language, at token level; and a parser of the expression fragment it prints.

   A number token carries its value (decimal printing of ints is not modelled); a float literal is either finite (its
   repr text) or has overflowed to inf (Python: float("1e999") == inf, f"{inf}" == "inf"); string/bytes literals carry
   their repr text. *)
From Coq Require Import List String Bool ZArith.
Import ListNotations.
Open Scope string_scope.
Open Scope list_scope.

Inductive fl := FFinite (text : string) | FInf.

Inductive dexpr :=
| DName (s : string)                                  (* NameExpr *)
| DInt (z : Z) | DFloat (f : fl)                      (* IntExpr / FloatExpr *)
| DUnary (op : string) (e : dexpr)                    (* UnaryExpr *)
| DStr (repr : string) | DBytes (repr : string)
| DTuple (l : list dexpr) | DList (l : list dexpr) | DSet (l : list dexpr)
| DDict (kvs : list (option dexpr * dexpr))           (* key None = `**mapping` *)
| DOther.                                             (* anything else: calls, attributes, lambdas, ... ; also what `...` parses to *)

Inductive xtok :=
| XNum (z : Z) | XFlt (s : string) | XId (s : string) | XStr (s : string) | XBytes (s : string) | XOp (s : string)
| XLP | XRP | XLB | XRB | XLC | XRC | XComma | XColon | XEll.

Fixpoint joinc (ls : list (list xtok)) : list xtok :=
  match ls with [] => [] | [x] => x | x :: r => x ++ XComma :: joinc r end.

Fixpoint all_some {A} (l : list (option A)) : option (list A) :=
  match l with
  | [] => Some []
  | Some x :: r => match all_some r with Some xs => Some (x :: xs) | None => None end
  | None :: _ => None
  end.

Definition num_tokens (e : dexpr) : option (list xtok) :=
  match e with
  | DInt z => Some [XNum z]
  | DFloat (FFinite t) => Some [XFlt t]
  | DFloat FInf => Some [XId "inf"]          (* f"{rvalue.value}" of an overflowed literal *)
  | _ => None
  end.

Definition unary_ok (op : string) : bool := (op =? "-") || (op =? "+") || (op =? "~").

(* get_str_default_of_node: Some tokens = (text, True); None = ("...", False) *)
Fixpoint rend (e : dexpr) : option (list xtok) :=
  match e with
  | DName s => if (s =? "None") || (s =? "True") || (s =? "False") then Some [XId s] else None
  | DInt _ | DFloat _ => num_tokens e
  | DUnary op a => if unary_ok op then match num_tokens a with Some ts => Some (XOp op :: ts) | None => None end else None
  | DStr s => Some [XStr s]
  | DBytes s => Some [XBytes s]
  | DTuple l => match all_some (map rend l) with
                | Some [p] => Some (XLP :: p ++ [XComma; XRP])
                | Some ps => Some (XLP :: joinc ps ++ [XRP])
                | None => None
                end
  | DList l => match all_some (map rend l) with Some ps => Some (XLB :: joinc ps ++ [XRB]) | None => None end
  | DSet l => match all_some (map rend l) with Some (p :: ps) => Some (XLC :: joinc (p :: ps) ++ [XRC]) | _ => None end
  | DDict kvs =>
      match all_some (map (fun kv => match fst kv with
                                     | Some k => match rend k, rend (snd kv) with
                                                 | Some a, Some b => Some (a ++ XColon :: b)
                                                 | _, _ => None end
                                     | None => None end) kvs) with
      | Some ps => Some (XLC :: joinc ps ++ [XRC])
      | None => None
      end
  | DOther => None
  end.

(* _get_func_args: default = potential_default if valid and len(potential_default) <= 200 else "..." ;
   `len` = length of the text of a token list (any function: the theorems do not depend on it) *)
Definition default_tokens (len : list xtok -> nat) (e : dexpr) : list xtok :=
  match rend e with
  | Some ts => if Nat.leb (len ts) 200 then ts else [XEll]
  | None => [XEll]
  end.

Definition render_x (t : xtok) (show_z : Z -> string) : string :=
  match t with
  | XNum z => show_z z | XFlt s | XId s | XStr s | XBytes s | XOp s => s
  | XLP => "(" | XRP => ")" | XLB => "[" | XRB => "]" | XLC => "{" | XRC => "}" | XComma => ", " | XColon => ": " | XEll => "..."
  end.

(* ---------------------------------------------------------------- parser of the printed fragment *)
Fixpoint p_e (f : nat) (ts : list xtok) : option (dexpr * list xtok) :=
  match f with
  | 0 => None
  | S f' =>
      match ts with
      | XOp op :: XNum z :: r => Some (DUnary op (DInt z), r)
      | XOp op :: XFlt s :: r => Some (DUnary op (DFloat (FFinite s)), r)
      | XNum z :: r => Some (DInt z, r)
      | XFlt s :: r => Some (DFloat (FFinite s), r)
      | XId s :: r => Some (DName s, r)
      | XStr s :: r => Some (DStr s, r)
      | XBytes s :: r => Some (DBytes s, r)
      | XEll :: r => Some (DOther, r)
      | XLP :: XRP :: r => Some (DTuple [], r)
      | XLP :: r => match p_es f' r with
                    | Some ([e], XComma :: XRP :: r') => Some (DTuple [e], r')
                    | Some (e1 :: e2 :: l, XRP :: r') => Some (DTuple (e1 :: e2 :: l), r')
                    | _ => None
                    end
      | XLB :: XRB :: r => Some (DList [], r)
      | XLB :: r => match p_es f' r with Some (l, XRB :: r') => Some (DList l, r') | _ => None end
      | XLC :: XRC :: r => Some (DDict [], r)
      | XLC :: r => match p_es f' r with
                    | Some (l, XRC :: r') => Some (DSet l, r')
                    | _ => match p_kvs f' r with Some (kvs, XRC :: r') => Some (DDict kvs, r') | _ => None end
                    end
      | _ => None
      end
  end
with p_es (f : nat) (ts : list xtok) : option (list dexpr * list xtok) :=
  match f with
  | 0 => None
  | S f' =>
      match p_e f' ts with
      | Some (e, XComma :: r) => match p_es f' r with Some (es, r') => Some (e :: es, r') | None => Some ([e], XComma :: r) end
      | Some (e, r) => Some ([e], r)
      | None => None
      end
  end
with p_kvs (f : nat) (ts : list xtok) : option (list (option dexpr * dexpr) * list xtok) :=
  match f with
  | 0 => None
  | S f' =>
      match p_e f' ts with
      | Some (k, XColon :: r) =>
          match p_e f' r with
          | Some (v, XComma :: r') => match p_kvs f' r' with Some (kvs, r'') => Some ((Some k, v) :: kvs, r'') | None => None end
          | Some (v, r') => Some ([(Some k, v)], r')
          | None => None
          end
      | _ => None
      end
  end.

Definition parse_default (ts : list xtok) : option dexpr :=
  match p_e (S (2 * List.length ts)) ts with Some (e, []) => Some e | _ => None end.

(* ---------------------------------------------------------------- closedness, finiteness *)
Definition const_name (s : string) : bool := (s =? "None") || (s =? "True") || (s =? "False").

Fixpoint closed (e : dexpr) : bool :=
  match e with
  | DName s => const_name s
  | DUnary _ a => closed a
  | DTuple l | DList l | DSet l => forallb closed l
  | DDict kvs => forallb (fun kv => match fst kv with Some k => closed k | None => true end && closed (snd kv)) kvs
  | _ => true
  end.

Fixpoint finite (e : dexpr) : bool :=
  match e with
  | DFloat FInf => false
  | DUnary _ a => finite a
  | DTuple l | DList l | DSet l => forallb finite l
  | DDict kvs => forallb (fun kv => match fst kv with Some k => finite k | None => true end && finite (snd kv)) kvs
  | _ => true
  end.
