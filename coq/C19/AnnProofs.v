From Coq Require Import List String Bool Arith Lia.
From C19 Require Import Ann.
Import ListNotations.
Open Scope list_scope.
Open Scope nat_scope.

(* ------------------------------------------------------------ well-formed normal forms *)
Definition is_union (t : nty) : bool := match t with NUnion _ => true | _ => false end.

Fixpoint wfn (t : nty) : bool :=
  match t with
  | NName _ args => forallb wfn args
  | NList items => forallb wfn items
  | NUnion items => (2 <=? List.length items) && forallb (fun x => wfn x && negb (is_union x)) items
  | NQuoted n => wfn n
  | NEll | NLit _ => true
  end.

Definition head_ok (t : tok) : bool := match t with KName _ | KLB | KEll | KLit _ | KQ => true | _ => false end.

Lemma pr_head : forall t, wfn t = true -> exists x r, pr t = x :: r /\ head_ok x = true.
Proof.
  fix IH 1. intros [n args|items|items|q| |s] H; simpl in *.
  - unfold subscript. destruct (map pr args); eexists; eexists; split; reflexivity.
  - eexists; eexists; split; reflexivity.
  - cbn [wfn] in H. apply andb_true_iff in H as [Hlen H]. destruct items as [|a l]; [discriminate Hlen|].
    cbn [forallb] in H. apply andb_true_iff in H as [Ha _]. apply andb_true_iff in Ha as [Ha _].
    destruct (IH a Ha) as (x & r & E & Hx). cbn [pr map join_with]. fold pr. rewrite E.
    destruct (map pr l); simpl; eexists; eexists; split; try reflexivity; exact Hx.
  - eexists; eexists; split; reflexivity.
  - eexists; eexists; split; reflexivity.
  - eexists; eexists; split; reflexivity.
Qed.

Definition ok_rest (rest : list tok) : bool := match rest with [] | KRB :: _ | KComma :: _ | KQ :: _ => true | _ => false end.
Definition no_lb (rest : list tok) : bool := match rest with KLB :: _ => false | _ => true end.

Definition jc (l : list nty) : list tok := join_with KComma (map pr l).
Definition jb (l : list nty) : list tok := join_with KBar (map pr l).

Arguments jc : simpl never.
Arguments jb : simpl never.
Lemma sub_cons : forall n x args, subscript n (map pr (x :: args)) = KName n :: KLB :: jc (x :: args) ++ [KRB].
Proof. reflexivity. Qed.
Lemma nlist_cons : forall x items, pr (NList (x :: items)) = KLB :: jc (x :: items) ++ [KRB].
Proof. reflexivity. Qed.
Lemma jc_cons2 : forall a b l, jc (a :: b :: l) = pr a ++ KComma :: jc (b :: l).
Proof. reflexivity. Qed.
Lemma jb_cons2 : forall a b l, jb (a :: b :: l) = pr a ++ KBar :: jb (b :: l).
Proof. reflexivity. Qed.

Lemma rt : forall f,
  (forall t rest, wfn t = true -> 2 * List.length (pr t) < f -> ok_rest rest = true ->
     p_expr f (pr t ++ rest) = Some (t, rest)) /\
  (forall l rest, l <> [] -> forallb wfn l = true -> 2 * List.length (jc l) + 1 < f ->
     p_exprs f (jc l ++ KRB :: rest) = Some (l, KRB :: rest)).
Proof.
  induction f as [|f [IH1 IH2]]; [split; intros; lia|].
  (* atoms, with whatever follows as long as it is not '[' *)
  assert (ATOM : forall a rest, wfn a = true -> is_union a = false -> 2 * List.length (pr a) < S f -> no_lb rest = true ->
                 p_atom (p_expr f) (p_exprs f) (pr a ++ rest) = Some (a, rest)).
  { intros [n args|items|items|q| |s] rest Hw Hu Hl Hr; simpl in *; try discriminate; try reflexivity.
    - destruct args as [|x args].
      + simpl. destruct rest as [|[]]; simpl in *; try reflexivity; discriminate.
      + rewrite sub_cons in *. cbn [List.length] in Hl. rewrite app_length in Hl. cbn [List.length] in Hl.
        cbn [app]. rewrite <- app_assoc. cbn [app]. unfold p_atom.
        rewrite IH2; [reflexivity|discriminate|exact Hw|lia].
    - destruct items as [|x items].
      + simpl. reflexivity.
      + change (join_with KComma (map pr (x :: items))) with (jc (x :: items)) in *.
        cbn [app]. rewrite <- app_assoc. cbn [app].
        assert (Hx : wfn x = true) by (apply andb_true_iff in Hw as [? _]; assumption).
        destruct (pr_head x Hx) as (tk & r & Ep & Htk).
        assert (Ej : exists r2, jc (x :: items) = tk :: r2).
        { destruct items; [unfold jc; simpl; rewrite Ep; eauto|rewrite jc_cons2, Ep; simpl; eauto]. }
        destruct Ej as (r2 & Ej).
        pose proof (IH2 (x :: items) rest ltac:(discriminate) Hw) as G.
        rewrite Ej in *.
        assert (Hlen : 2 * List.length (tk :: r2) + 1 < f) by (rewrite app_length in Hl; simpl in Hl; simpl; lia).
        specialize (G Hlen). cbn [app] in G.
        unfold p_atom. destruct tk; simpl in Htk; try discriminate; cbn [app]; rewrite G; reflexivity.
    - (* quoted *)
      rewrite <- app_assoc. cbn [app].
      rewrite IH1; [reflexivity|exact Hw| |reflexivity].
      rewrite app_length in Hl. simpl in Hl. lia. }
  split.
  - intros t rest Hw Hl Hr.
    destruct (is_union t) eqn:Hu.
    + destruct t as [| |items| | |]; try discriminate. cbn [wfn] in Hw.
      apply andb_true_iff in Hw as [Hlen Hw].
      destruct items as [|a [|b l]]; try discriminate Hlen.
      cbn [forallb] in Hw. apply andb_true_iff in Hw as [Ha Hbl].
      apply andb_true_iff in Ha as [Ha Hua]. apply negb_true_iff in Hua.
      change (pr (NUnion (a :: b :: l))) with (jb (a :: b :: l)) in *. rewrite jb_cons2 in *.
      rewrite app_length in Hl. simpl in Hl.
      simpl p_expr. rewrite <- app_assoc. simpl.
      rewrite ATOM; [|assumption|assumption|lia|reflexivity].
      destruct l as [|c l].
      * change (jb [b]) with (pr b) in *.
        cbn [forallb] in Hbl. apply andb_true_iff in Hbl as [Hb _]. apply andb_true_iff in Hb as [Hb Hub]. apply negb_true_iff in Hub.
        rewrite IH1; [|assumption|lia|assumption].
        destruct b; simpl in Hub; try discriminate; reflexivity.
      * change (jb (b :: c :: l)) with (pr (NUnion (b :: c :: l))) in *.
        rewrite IH1; [reflexivity| |lia|assumption].
        cbn [wfn]. apply andb_true_iff. split; [reflexivity|exact Hbl].
    + simpl p_expr. rewrite ATOM; [|assumption|assumption|lia|].
      * destruct rest as [|[]]; simpl in Hr; try discriminate; reflexivity.
      * destruct rest as [|[]]; simpl in Hr; try discriminate; reflexivity.
  - intros l rest Hne Hw Hl.
    destruct l as [|a [|b l]]; [congruence| |].
    + change (jc [a]) with (pr a) in *. simpl in Hw. apply andb_true_iff in Hw as [Ha _].
      simpl p_exprs. rewrite IH1; [reflexivity|assumption|lia|reflexivity].
    + rewrite jc_cons2 in *. rewrite app_length in Hl. simpl in Hl.
      simpl in Hw. apply andb_true_iff in Hw as [Ha Hw].
      simpl p_exprs. rewrite <- app_assoc. simpl.
      rewrite IH1; [|assumption|lia|reflexivity].
      rewrite IH2; [reflexivity|discriminate|exact Hw|lia].
Qed.

Theorem parse_pr : forall t, wfn t = true -> parse_ann (pr t) = Some t.
Proof.
  intros t H. unfold parse_ann.
  destruct (rt (S (2 * List.length (pr t)))) as [R _].
  specialize (R t [] H ltac:(lia) eq_refl). rewrite app_nil_r in R. rewrite R. reflexivity.
Qed.

(* ------------------------------------------------------------ the printer = printing of the normal form *)
Lemma ty_ind' (P : ty -> Prop) :
  (forall n r args, Forall P args -> P (UName n r args)) ->
  (forall items, Forall P items -> P (UList items)) ->
  (forall items, Forall P items -> P (UUnion items)) ->
  (forall u, P u -> P (UQuoted u)) ->
  P UEll -> (forall s, P (ULit s)) -> forall t, P t.
Proof.
  intros H1 H2 H3 H6 H4 H5. fix IH 1. intros [n r args|items|items|u| |s].
  - apply H1. induction args; constructor; [apply IH|assumption].
  - apply H2. induction items; constructor; [apply IH|assumption].
  - apply H3. induction items; constructor; [apply IH|assumption].
  - apply H6, IH.
  - exact H4.
  - apply H5.
Qed.

Definition atomic (x : nty) : bool := wfn x && negb (is_union x).

Lemma items_atomic : forall n, wfn n = true -> forallb atomic (items_of n) = true /\ items_of n <> [].
Proof.
  intros [n args|items|items|q| |s] H; unfold atomic.
  - cbn [items_of forallb is_union negb]. rewrite H. split; [reflexivity|discriminate].
  - cbn [items_of forallb is_union negb]. rewrite H. split; [reflexivity|discriminate].
  - cbn [wfn] in H. apply andb_true_iff in H as [Hl H]. split; [exact H|]. destruct items; [discriminate Hl|discriminate].
  - cbn [items_of forallb is_union negb]. rewrite H. split; [reflexivity|discriminate].
  - split; [reflexivity|discriminate].
  - split; [reflexivity|discriminate].
Qed.

Lemma jb_items : forall n, jb (items_of n) = pr n.
Proof. intros [n args|items|items|q| |s]; reflexivity. Qed.

Lemma pr_mk_union : forall l, pr (mk_union l) = jb l.
Proof. intros [|x [|y l]]; reflexivity. Qed.

Lemma jb_app : forall l1 l2, l1 <> [] -> l2 <> [] -> jb (l1 ++ l2) = jb l1 ++ KBar :: jb l2.
Proof.
  induction l1 as [|a [|b l1] IH]; intros l2 H1 H2; [congruence| |].
  - destruct l2; [congruence|]. reflexivity.
  - change ((a :: b :: l1) ++ l2) with (a :: (b :: l1) ++ l2).
    destruct ((b :: l1) ++ l2) eqn:E; [discriminate|]. rewrite <- E.
    assert (X : jb (a :: (b :: l1) ++ l2) = pr a ++ KBar :: jb ((b :: l1) ++ l2)) by (rewrite E; reflexivity).
    rewrite X, IH by (assumption || discriminate). rewrite jb_cons2. rewrite <- app_assoc. reflexivity.
Qed.

Lemma jb_flat : forall ns, forallb wfn ns = true ->
  jb (flat_map items_of ns) = join_with KBar (map pr ns) /\
  forallb atomic (flat_map items_of ns) = true /\ (ns <> [] -> flat_map items_of ns <> []).
Proof.
  induction ns as [|n r IH]; intros H; [repeat split; try reflexivity; congruence|].
  simpl in H. apply andb_true_iff in H as [Hn Hr]. destruct (IH Hr) as (I1 & I2 & I3).
  destruct (items_atomic n Hn) as [A1 A2]. cbn [flat_map].
  split; [|split].
  - destruct r as [|m r].
    + simpl. rewrite app_nil_r. apply jb_items.
    + rewrite jb_app; [|assumption|apply I3; discriminate].
      rewrite I1, jb_items. reflexivity.
  - rewrite forallb_app, A1, I2. reflexivity.
  - intros _ E. apply app_eq_nil in E as [E _]. contradiction.
Qed.

Lemma wfn_mk_union : forall l, l <> [] -> forallb atomic l = true -> wfn (mk_union l) = true.
Proof.
  intros [|x [|y l]] Hne H; [congruence| |].
  - simpl in *. unfold atomic in H. rewrite andb_true_r in H. apply andb_true_iff in H as [H _]. exact H.
  - unfold mk_union. cbn [wfn]. apply andb_true_iff. split; [reflexivity|exact H].
Qed.

Lemma map_ext_Forall : forall A B (f g : A -> B) l, Forall (fun x => f x = g x) l -> map f l = map g l.
Proof. induction 1; simpl; congruence. Qed.

Lemma print_norm : forall t, wf_ty t = true -> print_ty t = pr (norm t) /\ wfn (norm t) = true.
Proof.
  induction t as [n r args IH|items IH|items IH|u IHu| |s] using ty_ind'; intros H.
  - cbn [wf_ty] in H. apply andb_true_iff in H as [Ha Hr].
    assert (E : map print_ty args = map pr (map norm args) /\ forallb wfn (map norm args) = true).
    { clear Hr. induction IH as [|a l Pa _ IHl]; [split; reflexivity|].
      simpl in Ha. apply andb_true_iff in Ha as [Ha1 Ha2]. destruct (Pa Ha1) as [P1 P2]. destruct (IHl Ha2) as [Q1 Q2].
      simpl. rewrite P1, P2, Q1, Q2. split; reflexivity. }
    assert (Q : map (fun a => match a with UQuoted u => KQ :: print_ty u ++ [KQ] | _ => print_ty a end) args
                = map pr (map (fun a => match a with UQuoted u => NQuoted (norm u) | _ => norm a end) args) /\
                forallb wfn (map (fun a => match a with UQuoted u => NQuoted (norm u) | _ => norm a end) args) = true).
    { clear Hr E. induction IH as [|a l Pa _ IHl]; [split; reflexivity|].
      simpl in Ha. apply andb_true_iff in Ha as [Ha1 Ha2]. destruct (Pa Ha1) as [P1 P2]. destruct (IHl Ha2) as [Q1 Q2].
      cbn [map forallb]. rewrite Q1, Q2.
      destruct a; try (rewrite P1, P2; split; reflexivity).
      cbn [print_ty norm] in P1, P2. cbn [pr wfn]. rewrite P1, P2. split; reflexivity. }
    destruct Q as [Q1 Q2].
    destruct E as [E1 E2]. cbn [print_ty norm]. rewrite E1, Q1.
    destruct r as [| | |new].
    + split; [reflexivity|exact Q2].
    + destruct (jb_flat _ E2) as (J1 & J2 & J3).
      split.
      * rewrite pr_mk_union, J1. reflexivity.
      * apply wfn_mk_union; [|exact J2]. apply J3. destruct args; [discriminate Hr|discriminate].
    + destruct (map norm args) as [|a [|b l]] eqn:En; cbn [map].
      * split; reflexivity.
      * simpl in E2. rewrite andb_true_r in E2. destruct (items_atomic a E2) as [A1 A2].
        split.
        -- rewrite pr_mk_union, jb_app by (assumption || discriminate). rewrite jb_items. reflexivity.
        -- apply wfn_mk_union; [intro X; apply app_eq_nil in X as [_ X]; discriminate|].
           rewrite forallb_app, A1. reflexivity.
      * split; reflexivity.
    + split; [reflexivity|exact Q2].
  - cbn [wf_ty] in H.
    assert (E : map print_ty items = map pr (map norm items) /\ forallb wfn (map norm items) = true).
    { induction IH as [|a l Pa _ IHl]; [split; reflexivity|].
      simpl in H. apply andb_true_iff in H as [Ha1 Ha2]. destruct (Pa Ha1) as [P1 P2]. destruct (IHl Ha2) as [Q1 Q2].
      simpl. rewrite P1, P2, Q1, Q2. split; reflexivity. }
    destruct E as [E1 E2]. cbn [print_ty norm pr]. rewrite E1. split; [reflexivity|exact E2].
  - cbn [wf_ty] in H. apply andb_true_iff in H as [Ha Hr].
    assert (E : map print_ty items = map pr (map norm items) /\ forallb wfn (map norm items) = true).
    { clear Hr. induction IH as [|a l Pa _ IHl]; [split; reflexivity|].
      simpl in Ha. apply andb_true_iff in Ha as [Ha1 Ha2]. destruct (Pa Ha1) as [P1 P2]. destruct (IHl Ha2) as [Q1 Q2].
      simpl. rewrite P1, P2, Q1, Q2. split; reflexivity. }
    destruct E as [E1 E2]. cbn [print_ty norm]. rewrite E1.
    destruct (jb_flat _ E2) as (J1 & J2 & J3).
    split.
    + rewrite pr_mk_union, J1. reflexivity.
    + apply wfn_mk_union; [|exact J2]. apply J3. destruct items; [discriminate Hr|discriminate].
  - cbn [wf_ty] in H. apply andb_true_iff in H as [H _]. cbn [print_ty norm]. exact (IHu H).
  - split; reflexivity.
  - split; reflexivity.
Qed.

Theorem ann_roundtrip_holds : forall t, wf_ty t = true -> parse_ann (print_ty t) = Some (norm t).
Proof. intros t H. destruct (print_norm t H) as [E W]. rewrite E. apply parse_pr. exact W. Qed.
