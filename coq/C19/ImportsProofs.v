From Coq Require Import List String Bool.
From C19 Require Import Imports.
Import ListNotations.

Lemma mem_In : forall n l, mem n l = true <-> In n l.
Proof. intros; unfold mem; destruct (in_dec dn_dec n l); split; intros; auto; discriminate. Qed.

Lemma add_name_NoDup : forall n s, NoDup s -> NoDup (add_name n s).
Proof.
  intros n s H. unfold add_name. destruct (mem n s) eqn:E; [assumption|].
  constructor; [|assumption]. intro I. apply mem_In in I. congruence.
Qed.

Lemma require_NoDup : forall t n, NoDup (required_names t) -> NoDup (required_names (require_name t n)).
Proof. intros; simpl; apply add_name_NoDup; assumption. Qed.

Lemma add_from_one_NoDup : forall m r t na, NoDup (required_names t) -> NoDup (required_names (add_from_one m r t na)).
Proof.
  intros m r t [name [a|]] H; unfold add_from_one; destruct r; simpl; try apply add_name_NoDup; assumption.
Qed.

Lemma add_import_from_NoDup : forall ns m r t, NoDup (required_names t) -> NoDup (required_names (add_import_from t m ns r)).
Proof.
  unfold add_import_from. induction ns as [|x xs IH]; intros; simpl; [assumption|].
  apply IH. apply add_from_one_NoDup. assumption.
Qed.

Lemma fold_prefix_required : forall (ps : list dname) module t,
  required_names (fold_left (fun t' p => mkT (set p None (module_for t')) (set p module (direct_imports t'))
                                            (remove_key p (reverse_alias t')) (required_names t') (reexports t')) ps t)
  = required_names t.
Proof. induction ps; intros; simpl; [reflexivity|]. rewrite IHps. reflexivity. Qed.

Lemma step_NoDup : forall t o, NoDup (required_names t) -> NoDup (required_names (step t o)).
Proof.
  intros t [m ns r|m [a|] r|n|n] H; simpl.
  - apply add_import_from_NoDup; assumption.
  - destruct r; simpl; [apply add_name_NoDup|]; assumption.
  - unfold add_import. rewrite fold_prefix_required. simpl. destruct r; [apply add_name_NoDup|]; assumption.
  - apply add_name_NoDup; assumption.
  - apply add_name_NoDup; assumption.
Qed.

Lemma run_NoDup : forall ops t, NoDup (required_names t) -> NoDup (required_names (fold_left step ops t)).
Proof. induction ops; intros; simpl; [assumption|]. apply IHops. apply step_NoDup. assumption. Qed.

Lemma line_for_bound : forall t n, map bound (line_for t n) = if has n (module_for t) then [n] else [].
Proof.
  intros. unfold line_for, has. destruct (lookup n (module_for t)) as [[m|]|]; [| |reflexivity].
  - destruct (lookup n (reverse_alias t)); [reflexivity|]. destruct (mem n (reexports t)); reflexivity.
  - destruct (lookup n (reverse_alias t)); [reflexivity|]. destruct (mem n (reexports t)); reflexivity.
Qed.

Lemma lines_bound : forall t, map bound (import_lines t) = filter (fun n => has n (module_for t)) (required_names t).
Proof.
  intros. unfold import_lines. induction (required_names t) as [|n r IH]; simpl; [reflexivity|].
  rewrite map_app, IH, line_for_bound. destruct (has n (module_for t)); reflexivity.
Qed.

(* for any sequence of operations: the emitted block binds exactly the required names that were seen in an import
   statement — each once — and nothing else *)
Theorem imported_once : forall ops,
  let t := run ops in
  map bound (import_lines t) = filter (fun n => has n (module_for t)) (required_names t) /\
  NoDup (map bound (import_lines t)) /\
  (forall n, In n (map bound (import_lines t)) <-> In n (required_names t) /\ has n (module_for t) = true).
Proof.
  intros ops t. pose proof (lines_bound t) as E.
  assert (N : NoDup (required_names t)) by (apply run_NoDup; constructor).
  split; [exact E|]. split.
  - rewrite E. apply NoDup_filter. exact N.
  - intros n. rewrite E. rewrite filter_In. tauto.
Qed.
