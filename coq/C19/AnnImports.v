(* C19 — annotation printer and ImportTracker together: every name that occurs in a printed annotation has been handed
   to require_name, hence is bound exactly once by the import block if it was ever seen in an import statement, and
   is left alone otherwise (builtin, defined in the stub itself, or unknown to the tracker). *)
From Coq Require Import List String Bool Arith.
From C19 Require Import Imports ImportsProofs Ann.
Import ListNotations.
Open Scope list_scope.

Lemma names_join : forall sep ls, (match sep with KName _ => False | _ => True end) ->
  forall x, In x (names_of (join_with sep ls)) -> exists l, In l ls /\ In x (names_of l).
Proof.
  intros sep ls Hs. induction ls as [|a [|b r] IH]; intros x H; simpl in H.
  - contradiction.
  - exists a. split; [left; reflexivity|exact H].
  - unfold names_of in H. rewrite flat_map_app in H. apply in_app_or in H as [H|H].
    + exists a. split; [left; reflexivity|exact H].
    + simpl in H. assert (H' : In x (names_of (join_with sep (b :: r)))).
      { destruct sep; simpl in H; try exact H; contradiction. }
      destruct (IH x H') as (l & Hl & Hx). exists l. split; [right; exact Hl|exact Hx].
Qed.

Lemma ty_ind2 (P : ty -> Prop) :
  (forall n r args, Forall P args -> P (UName n r args)) ->
  (forall items, Forall P items -> P (UList items)) ->
  (forall items, Forall P items -> P (UUnion items)) ->
  (forall u, P u -> P (UQuoted u)) ->
  P UEll -> (forall s, P (ULit s)) -> forall t, P t.
Proof.
  intros H1 H2 H3 H6 H4 H5. fix IH 1. intros [n r args|items|items|u| |s].
  - apply H1. induction args; constructor; [apply IH|assumption].
  - apply H2. induction items; constructor; [apply IH|assumption].
  - apply H3. induction items; constructor; [apply IH|assumption].
  - apply H6, IH.
  - exact H4.
  - apply H5.
Qed.

Lemma in_sub_names : forall (l : list ty) x, Forall (fun t => forall x, In x (names_of (print_ty t)) -> In x (required_of t) \/ x = "None"%string) l ->
  (exists p, In p (map print_ty l) /\ In x (names_of p)) -> In x (flat_map required_of l) \/ x = "None"%string.
Proof.
  intros l x F (p & Hp & Hx). apply in_map_iff in Hp as (t & <- & Ht).
  rewrite Forall_forall in F. destruct (F t Ht x Hx) as [H|H]; [left|right; exact H].
  apply in_flat_map. exists t. split; assumption.
Qed.

(* the quotes put back around an argument add no name and hide none: the names between them are those of the visited type *)
Definition qarg (a : ty) : list tok := match a with UQuoted u => KQ :: print_ty u ++ [KQ] | _ => print_ty a end.
Lemma qarg_names : forall a x, In x (names_of (qarg a)) -> In x (names_of (print_ty a)).
Proof.
  intros a x H. destruct a; try exact H. cbn [qarg print_ty] in *. simpl in H.
  unfold names_of in H. rewrite flat_map_app in H. apply in_app_or in H as [H|H]; [exact H|simpl in H; contradiction].
Qed.
Lemma in_sub_names_q : forall (l : list ty) x, Forall (fun t => forall x, In x (names_of (print_ty t)) -> In x (required_of t) \/ x = "None"%string) l ->
  (exists p, In p (map qarg l) /\ In x (names_of p)) -> In x (flat_map required_of l) \/ x = "None"%string.
Proof.
  intros l x F (p & Hp & Hx). apply in_map_iff in Hp as (t & <- & Ht).
  apply (in_sub_names l x F). exists (print_ty t). split; [apply in_map; exact Ht|apply qarg_names; exact Hx].
Qed.

(* every name token of the printed annotation was required, except the literal None produced for Optional *)
Lemma printed_names_required : forall t x, In x (names_of (print_ty t)) -> In x (required_of t) \/ x = "None"%string.
Proof.
  induction t as [n r args IH|items IH|items IH|u IHu| |s] using ty_ind2; intros x H.
  - cbn [print_ty required_of] in *.
    change (map (fun a => match a with UQuoted u => KQ :: print_ty u ++ [KQ] | _ => print_ty a end) args) with (map qarg args) in H.
    destruct r as [| | |new].
    + unfold subscript in H. destruct (map qarg args) eqn:E.
      * simpl in H. destruct H as [<-|[]]. left. left. reflexivity.
      * rewrite <- E in H. simpl in H. destruct H as [<-|H]; [left; left; reflexivity|].
        unfold names_of in H. rewrite flat_map_app in H. apply in_app_or in H as [H|H]; [|simpl in H; contradiction].
        destruct (in_sub_names_q args x IH (names_join KComma _ I x H)) as [G|G]; [left; right; exact G|right; exact G].
    + apply (in_sub_names args x IH). apply (names_join KBar _ I x H).
    + destruct args as [|a [|b l]]; cbn [map] in H.
      * simpl in H. destruct H as [<-|[]]. left. left. reflexivity.
      * unfold names_of in H. rewrite flat_map_app in H. apply in_app_or in H as [H|H].
        -- inversion IH as [|? ? Pa _]; subst. destruct (Pa x H) as [G|G]; [left|right; exact G].
           simpl. rewrite app_nil_r. exact G.
        -- simpl in H. destruct H as [<-|[]]. right. reflexivity.
      * simpl in H. destruct H as [<-|[]]. left. left. reflexivity.
    + unfold subscript in H. destruct (map qarg args) eqn:E.
      * simpl in H. destruct H as [<-|[]]. left. left. reflexivity.
      * rewrite <- E in H. simpl in H. destruct H as [<-|H]; [left; left; reflexivity|].
        unfold names_of in H. rewrite flat_map_app in H. apply in_app_or in H as [H|H]; [|simpl in H; contradiction].
        destruct (in_sub_names_q args x IH (names_join KComma _ I x H)) as [G|G]; [left; right; exact G|right; exact G].
  - cbn [print_ty required_of] in *. simpl in H. unfold names_of in H. rewrite flat_map_app in H.
    apply in_app_or in H as [H|H]; [|simpl in H; contradiction].
    apply (in_sub_names items x IH). apply (names_join KComma _ I x H).
  - cbn [print_ty required_of] in *. apply (in_sub_names items x IH). apply (names_join KBar _ I x H).
  - cbn [print_ty required_of] in *. exact (IHu x H).
  - simpl in H. contradiction.
  - simpl in H. contradiction.
Qed.

Section WithSplit.
  (* how a dotted text is cut into components: any function (no assumption) *)
  Variable dn : string -> dname.

  Definition require_all (names : list string) (t : tracker) : tracker :=
    fold_left (fun t' n => require_name t' (dn n)) names t.

  Lemma require_all_fields : forall names t,
    module_for (require_all names t) = module_for t /\ direct_imports (require_all names t) = direct_imports t /\
    reverse_alias (require_all names t) = reverse_alias t /\ reexports (require_all names t) = reexports t.
  Proof.
    induction names as [|n r IH]; intros t; simpl; [repeat split|].
    destruct (IH (require_name t (dn n))) as (A & B & C & D). simpl in *. repeat split; assumption.
  Qed.

  Lemma require_target_ext : forall t t' n, direct_imports t = direct_imports t' -> require_target t n = require_target t' n.
  Proof. intros. unfold require_target. rewrite H. reflexivity. Qed.

  Lemma add_name_keeps : forall x n s, In x s -> In x (add_name n s).
  Proof. intros. unfold add_name. destruct (mem n s); [assumption|right; assumption]. Qed.
  Lemma add_name_in : forall n s, In n (add_name n s).
  Proof. intros. unfold add_name. destruct (mem n s) eqn:E; [apply mem_In; exact E|left; reflexivity]. Qed.

  Lemma require_all_keeps : forall names t x, In x (required_names t) -> In x (required_names (require_all names t)).
  Proof. induction names; intros; simpl; [assumption|]. apply IHnames. simpl. apply add_name_keeps. assumption. Qed.

  Lemma require_all_in : forall names t n, In n names ->
    In (require_target t (dn n)) (required_names (require_all names t)).
  Proof.
    induction names as [|m r IH]; intros t n H; [contradiction|]. simpl. destruct H as [->|H].
    - apply require_all_keeps. simpl. apply add_name_in.
    - rewrite (require_target_ext t (require_name t (dn m)) (dn n)) by reflexivity. apply IH. exact H.
  Qed.

  Lemma require_all_NoDup : forall names t, NoDup (required_names t) -> NoDup (required_names (require_all names t)).
  Proof. induction names; intros; simpl; [assumption|]. apply IHnames. apply require_NoDup. assumption. Qed.

  (* the emitter's sequence for one annotation: print it, requiring its names *)
  Definition print_annotation (t : ty) (tr : tracker) : list tok * tracker := (print_ty t, require_all (required_of t) tr).

  Theorem annotation_names_imported_once : forall ops t x,
    let tr := run ops in
    let '(text, tr') := print_annotation t tr in
    In x (names_of text) ->
    x = "None"%string \/
    let k := require_target tr (dn x) in
    In k (required_names tr') /\
    (has k (module_for tr') = true -> count_occ dn_dec (map bound (import_lines tr')) k = 1) /\
    (has k (module_for tr') = false -> ~ In k (map bound (import_lines tr'))).
  Proof.
    intros ops t x. cbv zeta. unfold print_annotation. intros H.
    destruct (printed_names_required t x H) as [G|G]; [right|left; exact G].
    set (tr := run ops). set (tr' := require_all (required_of t) tr).
    assert (K : In (require_target tr (dn x)) (required_names tr')) by (apply require_all_in; exact G).
    assert (N : NoDup (required_names tr')) by (apply require_all_NoDup; apply run_NoDup; constructor).
    pose proof (lines_bound tr') as E.
    split; [exact K|]. split.
    - intros Hh. apply NoDup_count_occ'.
      + rewrite E. apply NoDup_filter. exact N.
      + rewrite E. apply filter_In. split; assumption.
    - intros Hh I. rewrite E in I. apply filter_In in I as [_ I]. congruence.
  Qed.
End WithSplit.
