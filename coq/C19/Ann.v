(* C19 — model of annotation printing: mypy/stubutil.py AnnotationPrinter on the UNANALYZED types stubgen prints
   (visit_unbound_type, visit_union_type, visit_type_list, args_str, ellipsis, raw literals), a parser of the
   type-expression grammar at token level, and the names the printer requires from the ImportTracker.

   Abstracted as data carried by a name: what resolve_name/TYPING_BUILTIN_REPLACEMENTS decide (`rk`), and the text of a
   literal inside Literal[...].  Not modelled: the known_modules branch (stripping of local module prefixes), Instance /
   analysed types, `Tuple[()]`, unpack `*Ts`. *)
From Coq Require Import List String Bool Arith.
Import ListNotations.
Open Scope string_scope.
Open Scope list_scope.

Inductive rk := RPlain | RUnion | ROptional | RReplace (new : string).   (* typing.Union / typing.Optional / typing.List -> list *)

Inductive ty :=
| UName (n : string) (r : rk) (args : list ty)     (* n  or  n[args] *)
| UList (items : list ty)                          (* [a, b]  (first argument of Callable) *)
| UUnion (items : list ty)                         (* a | b  written with PEP 604 syntax *)
| UQuoted (t : ty)                                 (* a type written as a string literal: 'decimal.Decimal' *)
| UEll                                             (* ... *)
| ULit (text : string).                            (* literal inside Literal[...], as printed ('a', 1, True) *)

Inductive tok := KName (s : string) | KLB | KRB | KComma | KBar | KEll | KLit (s : string) | KQ.   (* KQ = a quote character *)

Fixpoint join_with (sep : tok) (ls : list (list tok)) : list tok :=
  match ls with [] => [] | [x] => x | x :: r => x ++ sep :: join_with sep r end.

Definition subscript (name : string) (args : list (list tok)) : list tok :=
  match args with [] => [KName name] | _ => KName name :: KLB :: join_with KComma args ++ [KRB] end.

(* AnnotationPrinter: visit_unbound_type / visit_union_type / visit_type_list / visit_ellipsis_type / raw literals *)
(* args_str: every argument is VISITED (so its names reach the ImportTracker); an argument that was written as a
   string literal (original_str_fallback) gets its quotes back around the visited text.  Everywhere else (top level,
   members of Union/Optional, Callable argument lists) a quoted type is printed without quotes. *)
Fixpoint print_ty (t : ty) : list tok :=
  match t with
  | UName n r args =>
      let pargs := map print_ty args in
      let qargs := map (fun a => match a with UQuoted u => KQ :: print_ty u ++ [KQ] | _ => print_ty a end) args in
      match r with
      | RUnion => join_with KBar pargs
      | ROptional => match pargs with [a] => a ++ [KBar; KName "None"] | _ => [KName "Incomplete"] end
      | RReplace new => subscript new qargs
      | RPlain => subscript n qargs
      end
  | UQuoted u => print_ty u
  | UList items => KLB :: join_with KComma (map print_ty items) ++ [KRB]
  | UUnion items => join_with KBar (map print_ty items)
  | UEll => [KEll]
  | ULit s => [KLit s]
  end.

Definition render_tok (t : tok) : string :=
  match t with KName s => s | KLB => "[" | KRB => "]" | KComma => ", " | KBar => " | " | KEll => "..." | KLit s => s | KQ => "'" end.
Definition render_ann (ts : list tok) : string := fold_right (fun t s => String.append (render_tok t) s) "" ts.

(* the names handed to ImportTracker.require_name while printing (add_name(..., require=True) for replacements and for
   Incomplete goes through the same tracker entry point after registering the import) *)
Fixpoint required_of (t : ty) : list string :=
  match t with
  | UName n r args =>
      let rest := flat_map required_of args in
      match r with
      | RUnion => rest
      | ROptional => match args with [_] => rest | _ => ["Incomplete"] end
      | RReplace new => new :: rest
      | RPlain => n :: rest
      end
  | UList items | UUnion items => flat_map required_of items
  | UQuoted u => required_of u            (* visited like any other argument *)
  | UEll | ULit _ => []
  end.

Definition names_of (ts : list tok) : list string :=
  flat_map (fun t => match t with KName s => [s] | _ => [] end) ts.

(* ---------------------------------------------------------------- normal form = what a reader of the stub sees *)
Inductive nty :=
| NName (n : string) (args : list nty)
| NList (items : list nty)
| NUnion (items : list nty)       (* at least two items, none of them a union *)
| NQuoted (n : nty)               (* 'T' as a subscript argument: a forward reference to T *)
| NEll
| NLit (s : string).

Definition items_of (n : nty) : list nty := match n with NUnion l => l | x => [x] end.
Definition mk_union (l : list nty) : nty := match l with [x] => x | _ => NUnion l end.

Fixpoint norm (t : ty) : nty :=
  match t with
  | UName n r args =>
      let nargs := map norm args in
      let qargs := map (fun a => match a with UQuoted u => NQuoted (norm u) | _ => norm a end) args in
      match r with
      | RUnion => mk_union (flat_map items_of nargs)
      | ROptional => match nargs with [a] => mk_union (items_of a ++ [NName "None" []]) | _ => NName "Incomplete" [] end
      | RReplace new => NName new qargs
      | RPlain => NName n qargs
      end
  | UQuoted u => norm u
  | UList items => NList (map norm items)
  | UUnion items => mk_union (flat_map items_of (map norm items))
  | UEll => NEll
  | ULit s => NLit s
  end.

Fixpoint pr (t : nty) : list tok :=
  match t with
  | NName n args => subscript n (map pr args)
  | NList items => KLB :: join_with KComma (map pr items) ++ [KRB]
  | NUnion items => join_with KBar (map pr items)
  | NQuoted n => KQ :: pr n ++ [KQ]
  | NEll => [KEll]
  | NLit s => [KLit s]
  end.

(* ---------------------------------------------------------------- parser: expr := atom ('|' atom)* ;
   atom := NAME | NAME '[' exprs ']' | '[' [exprs] ']' | '...' | LITERAL ; exprs := expr (',' expr)* *)
Definition p_atom (pe : list tok -> option (nty * list tok)) (pes : list tok -> option (list nty * list tok))
  (ts : list tok) : option (nty * list tok) :=
  match ts with
  | KQ :: r => match pe r with Some (t, KQ :: r') => Some (NQuoted t, r') | _ => None end
  | KEll :: r => Some (NEll, r)
  | KLit s :: r => Some (NLit s, r)
  | KName n :: KLB :: r =>
      match pes r with Some (args, KRB :: r') => Some (NName n args, r') | _ => None end
  | KName n :: r => Some (NName n [], r)
  | KLB :: KRB :: r => Some (NList [], r)
  | KLB :: r => match pes r with Some (items, KRB :: r') => Some (NList items, r') | _ => None end
  | _ => None
  end.

Fixpoint p_expr (f : nat) (ts : list tok) : option (nty * list tok) :=
  match f with
  | 0 => None
  | S f' =>
      match p_atom (p_expr f') (p_exprs f') ts with
      | Some (a, KBar :: r) =>
          match p_expr f' r with
          | Some (NUnion items, r') => Some (NUnion (a :: items), r')
          | Some (b, r') => Some (NUnion [a; b], r')
          | None => None
          end
      | x => x
      end
  end
with p_exprs (f : nat) (ts : list tok) : option (list nty * list tok) :=
  match f with
  | 0 => None
  | S f' =>
      match p_expr f' ts with
      | Some (e, KComma :: r) => match p_exprs f' r with Some (es, r') => Some (e :: es, r') | None => None end
      | Some (e, r) => Some ([e], r)
      | None => None
      end
  end.

Definition parse_ann (ts : list tok) : option nty :=
  match p_expr (S (2 * List.length ts)) ts with Some (t, []) => Some t | _ => None end.

(* source type expressions the grammar can produce: Union[...] and X | Y have at least one member *)
Fixpoint wf_ty (t : ty) : bool :=
  match t with
  | UName _ r args => forallb wf_ty args && match r with RUnion => negb (Nat.eqb (List.length args) 0) | _ => true end
  | UList items => forallb wf_ty items
  | UQuoted u => wf_ty u && match u with UName _ _ _ => true | _ => false end   (* args_str re-quotes UnboundType arguments only *)
  | UUnion items => forallb wf_ty items && negb (Nat.eqb (List.length items) 0)
  | UEll | ULit _ => true
  end.

