(* C19 — model of which definitions ASTStubGenerator emits (mypy/stubgen.py visit_func_def / visit_decorator /
   visit_overloaded_func_def / visit_class_def / visit_assignment_stmt + get_init / process_typealias), on a small
   module language.  The filtering predicates are NOT written here: they are regenerated from the source by
   tools/extractors/t19.py into gen/StubPreds.v.

   Kept: names, the order of definitions, decorators (kept / dropped, overload flag, the name they refer to), the names
   an item refers to in its annotations/bases, the generator's state (_toplevel_names, _vars[-1]).
   Abstracted away: signatures and annotations themselves (Sig.v / Ann.v), attributes assigned in __init__
   (find_self_initializers), NamedTuple/TypedDict calls, enum/dataclass special cases, unreachable blocks. *)
From Coq Require Import List String Bool.
From C19 Require Import Strs.
From Gen Require Import StubPreds.
Import ListNotations.
Open Scope string_scope.
Open Scope list_scope.

Record deco := mkDeco {
  d_ref : string;          (* the name the decorator expression starts with *)
  d_kept : bool;           (* process_decorator prints it (special decorator, or a plain NameExpr/MemberExpr) *)
  d_overload : bool        (* fullname in OVERLOAD_NAMES *)
}.

Inductive vkind :=
| VPlain                   (* anything that is not an alias expression *)
| VAliasImplicit           (* X = list[int]            : is_alias_expression, no annotation *)
| VAliasExplicit           (* X: TypeAlias = ...       : o.type.name == "TypeAlias" *)
| VAliasQualified.         (* X: typing.TypeAlias = ...: annotated, o.type.name == "typing.TypeAlias" *)

Inductive item :=
| IFunc (name : string) (decos : list deco) (refs : list string)
| IOverloaded (name : string) (parts : list (list deco * list string))   (* OverloadedFuncDef: consecutive decorated defs *)
| IClass (name : string) (refs : list string) (body : list item)
| IVar (name : string) (annotated : bool) (k : vkind) (refs : list string)
| IIf (b1 b2 : list item).                                               (* both branches reachable *)

Inductive out :=
| OFunc (name : string) (decos : list string) (refs : list string)
| OClass (name : string) (refs : list string) (body : list out)
| OVar (name : string) (refs : list string)
| OAlias (name : string) (refs : list string).

Definition oname (o : out) : string :=
  match o with OFunc n _ _ | OClass n _ _ | OVar n _ | OAlias n _ => n end.

Record gstate := mkG { recorded : list string; vars : list string }.

Definition record_name (top : bool) (n : string) (s : gstate) : gstate :=
  if top then mkG (recorded s ++ [n]) (vars s) else s.

Definition kept_decos (ds : list deco) : list string := map d_ref (filter d_kept ds).

(* visit_func_def after process_decorator *)
Definition emit_func (c : cfg) (top : bool) (s : gstate) (name : string) (ds : list deco) (refs : list string) : list out * gstate :=
  if func_skipped c top (recorded s) name None (existsb d_overload ds) then ([], s)
  else ([OFunc name (kept_decos ds) refs], record_name top name s).

(* visit_overloaded_func_def *)
Fixpoint emit_parts (c : cfg) (top : bool) (s : gstate) (name : string) (chain : bool) (parts : list (list deco * list string))
  : list out * gstate :=
  match parts with
  | [] => ([], s)
  | ([], _) :: r => emit_parts c top s name chain r            (* `if not isinstance(item, Decorator): continue` *)
  | (ds, refs) :: r =>
      if decorator_skipped c name None then emit_parts c top s name chain r
      else
        let ov := existsb d_overload ds in
        if negb chain then
          let '(o1, s1) := emit_func c top s name ds refs in
          let '(o2, s2) := emit_parts c top s1 name ov r in (o1 ++ o2, s2)
        else if ov then
          let '(o1, s1) := emit_func c top s name ds refs in
          let '(o2, s2) := emit_parts c top s1 name true r in (o1 ++ o2, s2)
        else emit_parts c top s name true r
  end.

(* visit_assignment_stmt for a single NameExpr lvalue *)
Definition emit_var (c : cfg) (top : bool) (s : gstate) (name : string) (annotated : bool) (k : vkind) (refs : list string)
  : list out * gstate :=
  let alias_path :=
    match k with
    | VAliasImplicit | VAliasExplicit => negb (is_private_name c name None)     (* process_typealias *)
    | VPlain | VAliasQualified => false
    end in
  if alias_path then ([OAlias name refs], record_name top name (mkG (recorded s) (vars s ++ [name])))   (* also _vars[-1].append *)
  else if var_already (vars s) name then ([], s)
  else if var_filtered c top name then ([], s)
  else ([OVar name refs], record_name top name (mkG (recorded s) (vars s ++ [name]))).

Fixpoint emit_item (c : cfg) (top : bool) (s : gstate) (it : item) {struct it} : list out * gstate :=
  match it with
  | IFunc name ds refs =>
      match ds with
      | [] => emit_func c top s name ds refs
      | _ => if decorator_skipped c name None then ([], s) else emit_func c top s name ds refs    (* visit_decorator *)
      end
  | IOverloaded name parts => emit_parts c top s name false parts
  | IClass name refs body =>
      (* no filtering at all; the body has its own variable scope and is not top level *)
      let s0 := record_name top name s in
      let '(ob, sb) :=
        (fix go (st : gstate) (l : list item) : list out * gstate :=
           match l with
           | [] => ([], st)
           | x :: r => let '(o1, s1) := emit_item c false st x in let '(o2, s2) := go s1 r in (o1 ++ o2, s2)
           end) (mkG (recorded s0) []) body in
      (* after popping its own scope the class name is appended to the ENCLOSING scope's _vars: a later `X = f(X)` is
         not emitted a second time *)
      ([OClass name refs ob], mkG (recorded sb) (vars s0 ++ [name]))
  | IVar name annotated k refs => emit_var c top s name annotated k refs
  | IIf b1 b2 =>
      let go := (fix go (st : gstate) (l : list item) : list out * gstate :=
           match l with
           | [] => ([], st)
           | x :: r => let '(o1, s1) := emit_item c top st x in let '(o2, s2) := go s1 r in (o1 ++ o2, s2)
           end) in
      let '(o1, s1) := go s b1 in let '(o2, s2) := go s1 b2 in (o1 ++ o2, s2)
  end.

Fixpoint emit_items (c : cfg) (top : bool) (s : gstate) (l : list item) : list out * gstate :=
  match l with
  | [] => ([], s)
  | x :: r => let '(o1, s1) := emit_item c top s x in let '(o2, s2) := emit_items c top s1 r in (o1 ++ o2, s2)
  end.

Definition emit_module (c : cfg) (l : list item) : list out := fst (emit_items c true (mkG [] []) l).

(* ---------------------------------------------------------------- what "public" means in the property *)
Definition dunder (n : string) : bool := starts_with "__" n && ends_with "__" n.
Definition public (c : cfg) (top : bool) (n : string) : bool :=
  negb (contains "__mypy-" n) &&
  (if top then (if all_truthy c then mem_str n (all_list c) else negb (starts_with "_" n))
   else negb (starts_with "_" n) || (dunder n && negb (mem_str n IGNORED_DUNDERS))).

(* every public function / class / annotated variable (and, inside emitted classes, every public member) is bound *)
Fixpoint covered (c : cfg) (top : bool) (it : item) (outs : list out) {struct it} : Prop :=
  match it with
  | IFunc n _ _ => public c top n = true -> In n (map oname outs)
  | IOverloaded n parts =>
      (match parts with (_ :: _, _) :: _ => True | _ => False end) ->     (* the first item is decorated (it always is) *)
      public c top n = true -> In n (map oname outs)
  | IVar n _ _ _ => public c top n = true -> In n (map oname outs)      (* annotated or not *)
  | IClass n _ body =>
      exists refs ob, In (OClass n refs ob) outs /\
        (fix all (l : list item) : Prop := match l with [] => True | x :: r => covered c false x ob /\ all r end) body
  | IIf b1 b2 =>
      (fix all (l : list item) : Prop := match l with [] => True | x :: r => covered c top x outs /\ all r end) b1 /\
      (fix all (l : list item) : Prop := match l with [] => True | x :: r => covered c top x outs /\ all r end) b2
  end.

Fixpoint all_covered (c : cfg) (top : bool) (l : list item) (outs : list out) : Prop :=
  match l with [] => True | x :: r => covered c top x outs /\ all_covered c top r outs end.

(* ---------------------------------------------------------------- self-consistency of the emitted stub *)
Definition defined_names (outs : list out) : list string := map oname outs.
Definition out_refs (o : out) : list string :=
  match o with OFunc _ ds refs => ds ++ refs | OClass _ refs _ => refs | OVar _ refs | OAlias _ refs => refs end.
(* every name a top-level emitted item refers to is defined by the stub or comes from `env` (builtins / imports) *)
Definition refs_defined (env : list string) (outs : list out) : bool :=
  forallb (fun o => forallb (fun r => mem_str r (map oname outs) || mem_str r env) (out_refs o)) outs.
Fixpoint count_name (n : string) (outs : list out) : nat :=
  match outs with [] => 0 | o :: r => (if String.eqb (oname o) n then 1 else 0) + count_name n r end.

(* ---------------------------------------------------------------- guards for the positive self-consistency theorems *)
(* the definitions of one scope, if/else alternatives flattened *)
Fixpoint flat_item (it : item) : list item :=
  match it with
  | IIf b1 b2 =>
      (fix go (l : list item) : list item := match l with [] => [] | x :: r => flat_item x ++ go r end) b1 ++
      (fix go (l : list item) : list item := match l with [] => [] | x :: r => flat_item x ++ go r end) b2
  | _ => [it]
  end.
Definition flat_items (l : list item) : list item := flat_map flat_item l.

Definition item_refs (it : item) : list string :=
  match it with
  | IFunc _ ds refs => kept_decos ds ++ refs
  | IOverloaded _ parts => flat_map (fun p => kept_decos (fst p) ++ snd p) parts
  | IClass _ refs _ => refs
  | IVar _ _ _ refs => refs
  | IIf _ _ => []
  end.

(* the name an item defines (an OverloadedFuncDef whose first item is decorated, as it always is) *)
Definition def_name (it : item) : list string :=
  match it with
  | IFunc n _ _ | IClass n _ _ | IVar n _ _ _ => [n]
  | IOverloaded n ((_ :: _, _) :: _) => [n]
  | _ => []
  end.
Definition def_names (l : list item) : list string := flat_map def_name (flat_items l).

(* every name a top-level definition refers to (decorators it keeps, bases, annotation names) is known from outside
   (`env`: builtins and imports) or is a PUBLIC name the module itself defines at top level.  This is exactly what the
   F-M / F-F witnesses violate: they refer to a definition that __all__ filters out. *)
Definition refs_guard (c : cfg) (env : list string) (l : list item) : bool :=
  forallb (fun it => forallb (fun r => mem_str r env || (public c true r && mem_str r (def_names l))) (item_refs it)) (flat_items l).

(* no top-level name is bound by two definitions (if/else alternatives included), as in the F-C witness *)
Fixpoint nodupb (l : list string) : bool :=
  match l with [] => true | x :: r => negb (mem_str x r) && nodupb r end.
Definition all_item_names (l : list item) : list string :=
  flat_map (fun it => match it with IFunc n _ _ | IClass n _ _ | IVar n _ _ _ | IOverloaded n _ => [n] | IIf _ _ => [] end) (flat_items l).
Definition no_redefinition_guard (l : list item) : bool := nodupb (all_item_names l).
Definition overload_names (l : list item) : list string :=
  flat_map (fun it => match it with IOverloaded n _ => [n] | _ => [] end) (flat_items l).
