From Coq Require Import List String Bool.
From C19 Require Import Strs Emit.
From Gen Require Import StubPreds.
Import ListNotations.
Open Scope string_scope.
Open Scope list_scope.

Lemma mem_str_In : forall n l, mem_str n l = true <-> In n l.
Proof.
  intros n l. unfold mem_str. rewrite existsb_exists. split.
  - intros (x & Hx & E). apply String.eqb_eq in E. subst. exact Hx.
  - intros H. exists n. split; [exact H|apply String.eqb_refl].
Qed.

(* the generated predicates never filter a public name (proof against the SHAPE emitted by t19) *)
Lemma public_not_private : forall c top n, public c top n = true -> is_private_name c n None = false.
Proof.
  intros c top n H. unfold public in H. apply andb_true_iff in H as [H0 H]. apply negb_true_iff in H0.
  unfold is_private_name. rewrite H0. simpl opt_mem. cbv iota.
  destruct (include_private c); [reflexivity|].
  destruct (String.eqb n "_"); [reflexivity|].
  destruct (starts_with "_" n) eqn:Eu; simpl; [|reflexivity].
  destruct top.
  - destruct (all_truthy c) eqn:Ea.
    + rewrite H. reflexivity.
    + simpl in H. discriminate.
  - simpl in H. unfold dunder in H. apply andb_true_iff in H as [Hd Hi]. apply negb_true_iff in Hi.
    destruct (all_truthy c && mem_str n (all_list c)); [reflexivity|]. rewrite Hd. exact Hi.
Qed.

Lemma public_in_all : forall c top n, public c top n = true -> is_not_in_all c top n = false.
Proof.
  intros c top n H. unfold is_not_in_all. rewrite (public_not_private c top n H).
  destruct (all_truthy c) eqn:Ea; [|reflexivity].
  destruct top; [|reflexivity]. unfold public in H. apply andb_true_iff in H as [_ H]. rewrite Ea in H. rewrite H. reflexivity.
Qed.

Definition names (outs : list out) : list string := map oname outs.
Definition inv (top : bool) (s : gstate) (pre : list out) : Prop :=
  (top = true -> incl (recorded s) (names pre)) /\ incl (vars s) (names pre).

Lemma names_app : forall a b, names (a ++ b) = names a ++ names b.
Proof. intros; apply map_app. Qed.

Lemma inv_more : forall top s pre o, inv top s pre -> inv top s (pre ++ o).
Proof.
  intros top s pre o [H1 H2]. split; [intros T|]; rewrite names_app; apply incl_appl; auto.
Qed.

Lemma record_inv : forall top s pre n, inv top s pre -> In n (names pre) -> inv top (record_name top n s) pre.
Proof.
  intros top s pre n [H1 H2] Hn. unfold record_name. destruct top; [|split; assumption].
  split; [intros _|exact H2]. simpl. apply incl_app; [auto|]. intros x [<-|[]]. exact Hn.
Qed.

Lemma emit_func_ok : forall c top s pre name ds refs,
  inv top s pre ->
  let '(o, s') := emit_func c top s name ds refs in
  inv top s' (pre ++ o) /\ (public c top name = true -> In name (names (pre ++ o))).
Proof.
  intros c top s pre name ds refs Hi. unfold emit_func.
  destruct (func_skipped c top (recorded s) name None (existsb d_overload ds)) eqn:E.
  - rewrite app_nil_r. split; [exact Hi|]. intros P.
    unfold func_skipped in E. rewrite (public_not_private _ _ _ P), (public_in_all _ _ _ P) in E. simpl in E.
    apply andb_true_iff in E as [E _]. unfold is_recorded_name in E. apply andb_true_iff in E as [Et Em].
    destruct Hi as [H1 _]. apply H1; [exact Et|]. apply mem_str_In. exact Em.
  - assert (Hn : In name (names (pre ++ [OFunc name (kept_decos ds) refs]))) by (rewrite names_app; apply in_or_app; right; left; reflexivity).
    split; [|intros _; exact Hn]. apply record_inv; [apply inv_more; exact Hi|exact Hn].
Qed.

Lemma emit_parts_ok : forall c top name parts s pre chain,
  inv top s pre ->
  let '(o, s') := emit_parts c top s name chain parts in
  inv top s' (pre ++ o) /\
  (chain = false -> (match parts with (_ :: _, _) :: _ => True | _ => False end) -> public c top name = true -> In name (names (pre ++ o))).
Proof.
  induction parts as [|[ds refs] r IH]; intros s pre chain Hi; simpl.
  - rewrite app_nil_r. split; [exact Hi|]. intros _ [].
  - destruct ds as [|d ds'].
    + specialize (IH s pre chain Hi). destruct (emit_parts c top s name chain r) as [o s']. destruct IH as [I1 _].
      split; [exact I1|]. intros _ [].
    + set (ds := d :: ds') in *.
      destruct (decorator_skipped c name None) eqn:Ed.
      * specialize (IH s pre chain Hi). destruct (emit_parts c top s name chain r) as [o s']. destruct IH as [I1 I2].
        split; [exact I1|]. intros Hc _ P. unfold decorator_skipped in Ed. rewrite (public_not_private _ _ _ P) in Ed. discriminate.
      * destruct chain; simpl; change (d_overload d || existsb d_overload ds') with (existsb d_overload ds) in *.
        -- destruct (existsb d_overload ds).
           ++ pose proof (emit_func_ok c top s pre name ds refs Hi) as F. destruct (emit_func c top s name ds refs) as [o1 s1]. destruct F as [F1 _].
              specialize (IH s1 (pre ++ o1) true F1). destruct (emit_parts c top s1 name true r) as [o2 s2]. destruct IH as [I1 _].
              rewrite app_assoc. split; [exact I1|]. intros X; discriminate.
           ++ specialize (IH s pre true Hi). destruct (emit_parts c top s name true r) as [o s']. destruct IH as [I1 _].
              split; [exact I1|]. intros X; discriminate.
        -- pose proof (emit_func_ok c top s pre name ds refs Hi) as F. destruct (emit_func c top s name ds refs) as [o1 s1]. destruct F as [F1 F2].
           specialize (IH s1 (pre ++ o1) (existsb d_overload ds) F1). destruct (emit_parts c top s1 name (existsb d_overload ds) r) as [o2 s2].
           destruct IH as [I1 _]. rewrite app_assoc. split; [exact I1|]. intros _ _ P.
           rewrite names_app. apply in_or_app. left. apply F2. exact P.
Qed.

Lemma emit_var_ok : forall c top s pre name annotated k refs,
  inv top s pre ->
  let '(o, s') := emit_var c top s name annotated k refs in
  inv top s' (pre ++ o) /\ (public c top name = true -> In name (names (pre ++ o))).
Proof.
  intros c top s pre name annotated k refs Hi. unfold emit_var.
  set (ap := match k with VAliasImplicit | VAliasExplicit => negb (is_private_name c name None) | _ => false end).
  destruct ap.
  - assert (Hn : In name (names (pre ++ [OAlias name refs]))) by (rewrite names_app; apply in_or_app; right; left; reflexivity).
    split; [|intros _; exact Hn]. apply record_inv; [|exact Hn].
    destruct (inv_more top s pre [OAlias name refs] Hi) as [H1 H2]. split; [exact H1|]. simpl.
    apply incl_app; [exact H2|]. intros x [<-|[]]. exact Hn.
  - destruct (var_already (vars s) name) eqn:Ea.
    + rewrite app_nil_r. split; [exact Hi|]. intros _. destruct Hi as [_ H2]. apply H2. apply mem_str_In. exact Ea.
    + destruct (var_filtered c top name) eqn:Ef.
      * rewrite app_nil_r. split; [exact Hi|]. intros P. unfold var_filtered in Ef.
        rewrite (public_not_private _ _ _ P), (public_in_all _ _ _ P) in Ef. discriminate.
      * assert (Hn : In name (names (pre ++ [OVar name refs]))) by (rewrite names_app; apply in_or_app; right; left; reflexivity).
        split; [|intros _; exact Hn]. apply record_inv; [|exact Hn].
        destruct (inv_more top s pre [OVar name refs] Hi) as [H1 H2]. split; [exact H1|]. simpl.
        apply incl_app; [exact H2|]. intros x [<-|[]]. exact Hn.
Qed.

(* covered is monotone in the output list *)
Lemma item_ind' (P : item -> Prop) :
  (forall n ds refs, P (IFunc n ds refs)) -> (forall n parts, P (IOverloaded n parts)) ->
  (forall n refs body, Forall P body -> P (IClass n refs body)) ->
  (forall n a k refs, P (IVar n a k refs)) ->
  (forall b1 b2, Forall P b1 -> Forall P b2 -> P (IIf b1 b2)) -> forall it, P it.
Proof.
  intros H1 H2 H3 H4 H5. fix IH 1. intros [n ds refs|n parts|n refs body|n a k refs|b1 b2].
  - apply H1. - apply H2.
  - apply H3. induction body; constructor; [apply IH|assumption].
  - apply H4.
  - apply H5; [induction b1|induction b2]; constructor; try apply IH; assumption.
Qed.

Lemma covered_all_eq : forall c top l outs,
  (fix all (l : list item) : Prop := match l with [] => True | x :: r => covered c top x outs /\ all r end) l = all_covered c top l outs.
Proof. induction l; intros; simpl; [reflexivity|]. rewrite IHl. reflexivity. Qed.

Lemma covered_mono : forall c it top outs outs', incl outs outs' -> covered c top it outs -> covered c top it outs'.
Proof.
  intros c. induction it as [n ds refs|n parts|n refs body IH|n a k refs|b1 b2 IH1 IH2] using item_ind'; intros top outs outs' Hin H; simpl in *.
  - intros P. apply (incl_map oname Hin). auto.
  - intros Hp P. apply (incl_map oname Hin). auto.
  - destruct H as (refs' & ob & Ho & Hb). exists refs', ob. split; [apply Hin; exact Ho|exact Hb].
  - intros P. apply (incl_map oname Hin). auto.
  - rewrite !covered_all_eq in *. destruct H as [Ha Hb]. split.
    + clear Hb IH2. induction b1 as [|x r IHr]; [exact I|]. simpl in *. inversion IH1; subst. destruct Ha as [Hx Hr]. split; eauto.
    + clear Ha IH1. induction b2 as [|x r IHr]; [exact I|]. simpl in *. inversion IH2; subst. destruct Hb as [Hx Hr]. split; eauto.
Qed.

Lemma all_covered_mono : forall c top l outs outs', incl outs outs' -> all_covered c top l outs -> all_covered c top l outs'.
Proof. induction l; intros; simpl in *; [exact I|]. destruct H0. split; [eapply covered_mono; eauto|eauto]. Qed.

Lemma go_eq : forall c top l st,
  (fix go (st : gstate) (l : list item) : list out * gstate :=
     match l with
     | [] => ([], st)
     | x :: r => let '(o1, s1) := emit_item c top st x in let '(o2, s2) := go s1 r in (o1 ++ o2, s2)
     end) st l = emit_items c top st l.
Proof. induction l; intros; simpl; [reflexivity|]. destruct (emit_item c top st a). rewrite IHl. reflexivity. Qed.

(* inside a class (not top level) _toplevel_names is not touched *)
Lemma emit_func_rec : forall c s n ds refs, recorded (snd (emit_func c false s n ds refs)) = recorded s.
Proof. intros. unfold emit_func. destruct (func_skipped _ _ _ _ _ _); reflexivity. Qed.

Lemma emit_parts_rec : forall c n parts s chain, recorded (snd (emit_parts c false s n chain parts)) = recorded s.
Proof.
  induction parts as [|[ds refs] r IH]; intros s chain; simpl; [reflexivity|].
  destruct ds as [|d ds']; [apply IH|]. set (ds := d :: ds') in *.
  destruct (decorator_skipped c n None); [apply IH|].
  destruct chain; simpl; change (d_overload d || existsb d_overload ds') with (existsb d_overload ds) in *.
  - destruct (existsb d_overload ds); [|apply IH].
    pose proof (emit_func_rec c s n ds refs) as E. destruct (emit_func c false s n ds refs) as [o1 s1]. simpl in E.
    pose proof (IH s1 true) as E2. destruct (emit_parts c false s1 n true r) as [o2 s2]. simpl in *. congruence.
  - pose proof (emit_func_rec c s n ds refs) as E. destruct (emit_func c false s n ds refs) as [o1 s1]. simpl in E.
    pose proof (IH s1 (existsb d_overload ds)) as E2. destruct (emit_parts c false s1 n (existsb d_overload ds) r) as [o2 s2]. simpl in *. congruence.
Qed.

Lemma emit_var_rec : forall c s n a k refs, recorded (snd (emit_var c false s n a k refs)) = recorded s.
Proof.
  intros. unfold emit_var. destruct (match k with VAliasImplicit | VAliasExplicit => _ | _ => false end); [reflexivity|].
  destruct (var_already _ _); [reflexivity|]. destruct (var_filtered _ _ _); reflexivity.
Qed.

Definition rec_same (c : cfg) (it : item) : Prop := forall s, recorded (snd (emit_item c false s it)) = recorded s.

Lemma items_rec_from : forall c l, Forall (rec_same c) l -> forall s, recorded (snd (emit_items c false s l)) = recorded s.
Proof.
  intros c l F. induction F as [|x r Hx _ IH]; intros s; simpl; [reflexivity|].
  specialize (Hx s). destruct (emit_item c false s x) as [o1 s1]. simpl in Hx.
  specialize (IH s1). destruct (emit_items c false s1 r) as [o2 s2]. simpl in *. congruence.
Qed.

Lemma rec_same_all : forall c it, rec_same c it.
Proof.
  intros c. induction it as [n ds refs|n parts|n refs body IH|n a k refs|b1 b2 IH1 IH2] using item_ind'; intros s.
  - cbn [emit_item]. destruct ds; [apply emit_func_rec|]. destruct (decorator_skipped c n None); [reflexivity|apply emit_func_rec].
  - apply emit_parts_rec.
  - cbn [emit_item]. rewrite go_eq. pose proof (items_rec_from c body IH (mkG (recorded (record_name false n s)) [])) as E.
    destruct (emit_items c false (mkG (recorded (record_name false n s)) []) body) as [ob sb]. simpl in *. exact E.
  - apply emit_var_rec.
  - cbn [emit_item]. rewrite go_eq.
    pose proof (items_rec_from c b1 IH1 s) as E1. destruct (emit_items c false s b1) as [o1 s1]. simpl in E1.
    rewrite go_eq.
    pose proof (items_rec_from c b2 IH2 s1) as E2. destruct (emit_items c false s1 b2) as [o2 s2]. simpl in E2. simpl.
    rewrite E2. exact E1.
Qed.

Lemma items_rec : forall c l s, recorded (snd (emit_items c false s l)) = recorded s.
Proof. intros. apply items_rec_from. apply Forall_forall. intros. apply rec_same_all. Qed.

Definition item_ok (c : cfg) (it : item) : Prop := forall top s pre, inv top s pre ->
  let '(o, s') := emit_item c top s it in inv top s' (pre ++ o) /\ covered c top it (pre ++ o).

Lemma items_ok_from : forall c l, Forall (item_ok c) l -> forall top s pre, inv top s pre ->
  let '(o, s') := emit_items c top s l in inv top s' (pre ++ o) /\ all_covered c top l (pre ++ o).
Proof.
  intros c l F. induction F as [|x r Hx _ IH]; intros top s pre Hi; simpl.
  - rewrite app_nil_r. split; [exact Hi|exact I].
  - specialize (Hx top s pre Hi). destruct (emit_item c top s x) as [o1 s1]. destruct Hx as [X1 X2].
    specialize (IH top s1 (pre ++ o1) X1). destruct (emit_items c top s1 r) as [o2 s2]. destruct IH as [I1 I2].
    rewrite app_assoc. split; [exact I1|]. split; [|exact I2].
    eapply covered_mono; [|exact X2]. apply incl_appl. apply incl_refl.
Qed.

Lemma item_ok_all : forall c it, item_ok c it.
Proof.
  intros c. induction it as [n ds refs|n parts|n refs body IH|n a k refs|b1 b2 IH1 IH2] using item_ind'; intros top s pre Hi.
  - cbn [emit_item covered]. destruct ds as [|d ds'].
    + exact (emit_func_ok c top s pre n [] refs Hi).
    + destruct (decorator_skipped c n None) eqn:Ed.
      * rewrite app_nil_r. split; [exact Hi|]. intros P. unfold decorator_skipped in Ed. rewrite (public_not_private _ _ _ P) in Ed. discriminate.
      * exact (emit_func_ok c top s pre n (d :: ds') refs Hi).
  - cbn [emit_item covered]. pose proof (emit_parts_ok c top n parts s pre false Hi) as F.
    destruct (emit_parts c top s n false parts) as [o s']. destruct F as [F1 F2]. split; [exact F1|]. intros Hp P. apply F2; auto.
  - cbn [emit_item]. rewrite go_eq.
    set (s0 := record_name top n s).
    pose proof (items_ok_from c body IH false (mkG (recorded s0) []) []) as B.
    assert (Hb : inv false (mkG (recorded s0) []) []) by (split; [intros X; discriminate|intros x []]).
    specialize (B Hb). pose proof (items_rec c body (mkG (recorded s0) [])) as Er0.
    destruct (emit_items c false (mkG (recorded s0) []) body) as [ob sb]. destruct B as [B1 B2]. simpl in B2, Er0.
    assert (Hn : In n (names (pre ++ [OClass n refs ob]))) by (rewrite names_app; apply in_or_app; right; left; reflexivity).
    split.
    + (* recorded: record_name at top; the body does not change _toplevel_names (not top level) *)
      assert (Er : recorded sb = recorded s0) by exact Er0.
      rewrite Er.
      assert (I0 : inv top s0 (pre ++ [OClass n refs ob])) by (apply record_inv; [apply inv_more; exact Hi|exact Hn]).
      destruct I0 as [I1 I2]. split; [exact I1|]. simpl. apply incl_app; [exact I2|]. intros x [<-|[]]. exact Hn.
    + cbn [covered]. exists refs, ob. split; [apply in_or_app; right; left; reflexivity|]. rewrite covered_all_eq. exact B2.
  - cbn [emit_item covered]. pose proof (emit_var_ok c top s pre n a k refs Hi) as F.
    destruct (emit_var c top s n a k refs) as [o s']. destruct F as [F1 F2]. split; [exact F1|]. intros P. auto.
  - cbn [emit_item]. rewrite go_eq.
    pose proof (items_ok_from c b1 IH1 top s pre Hi) as A. destruct (emit_items c top s b1) as [o1 s1]. destruct A as [A1 A2].
    rewrite go_eq.
    pose proof (items_ok_from c b2 IH2 top s1 (pre ++ o1) A1) as B. destruct (emit_items c top s1 b2) as [o2 s2]. destruct B as [B1 B2].
    rewrite app_assoc. split; [exact B1|]. cbn [covered]. rewrite !covered_all_eq. split; [|exact B2].
    eapply all_covered_mono; [|exact A2]. apply incl_appl. apply incl_refl.
Qed.

Theorem public_members_preserved_holds : forall c l, all_covered c true l (emit_module c l).
Proof.
  intros c l. unfold emit_module.
  pose proof (items_ok_from c l) as H.
  assert (F : Forall (item_ok c) l) by (apply Forall_forall; intros; apply item_ok_all).
  specialize (H F true (mkG [] []) []).
  assert (I0 : inv true (mkG [] []) []) by (split; [intros _ x []|intros x []]).
  specialize (H I0). destruct (emit_items c true (mkG [] []) l) as [o s']. simpl in *. exact (proj2 H).
Qed.
