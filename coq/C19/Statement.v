(* C19 — full-strength statements over the model (always visible).  Property C19 itself ("for every module mypy can
   analyse the stub is syntactically valid, type-checks, agrees with stubtest and is structurally faithful") quantifies
   over the whole emitter; only the signature core is modelled, the rest is searched by the cross-tool oracle (S). *)
From Coq Require Import List String Bool.
From C19 Require Import Sig Imports.

(* every parameter list Python's grammar can produce is printed so that it parses back to the same kinds, names,
   order, annotations (defaults as rendered) *)
Definition sig_roundtrip : Prop :=
  forall magic a, wf_params a = true ->
    parse_sig (print_sig (get_func_args magic (transform_args a))) = Some (stub_view magic a).
(* FALSE on the current tree: Properties.sig_roundtrip_refuted (parameters named __x outside the leading positional
   run); proved instead: Properties.sig_roundtrip_partial. *)

(* the printed list obeys the ordering constraints of Python's parameter grammar *)
Definition printed_sig_is_valid_python : Prop :=
  forall magic a, wf_params a = true ->
    parse_sig (print_sig (get_func_args magic (transform_args a))) <> None.
(* FALSE on the current tree: Properties.printed_sig_is_valid_python_refuted; proved instead: ..._partial. *)

(* ImportTracker: proved at full strength over the model (Properties.every_required_name_imported_once).  Note what it
   does NOT say: a required name that was never registered by add_import/add_import_from is silently skipped by
   import_lines (by design: "defined locally"); whether stubgen registers every name it prints is emitter logic,
   covered only by the S oracle (mypy on the stub: name-defined). *)
