(* C19 — full-strength statements over the model (always visible).  Property C19 itself ("for every module mypy can
   analyse the stub is syntactically valid, type-checks, agrees with stubtest and is structurally faithful") quantifies
   over the whole emitter; only the signature core is modelled, the rest is searched by the cross-tool oracle (S). *)
From Coq Require Import List String Bool.
From C19 Require Import Sig Imports Ann Defaults Strs Emit.
From Gen Require Import StubPreds.

(* every parameter list Python's grammar can produce is printed so that it parses back to the same kinds, names,
   order, annotations (defaults as rendered) *)
Definition sig_roundtrip : Prop :=
  forall magic a, wf_params a = true ->
    parse_sig (print_sig (get_func_args magic (transform_args a))) = Some (stub_view magic a).
(* Since fix d2bbe81 this holds under the extra hypothesis self_cls_plain (Properties.sig_roundtrip); without it exactly
   one thing fails: the annotation of a first parameter named self/cls is dropped (Properties.self_annotation_dropped). *)

(* the printed list obeys the ordering constraints of Python's parameter grammar *)
Definition printed_sig_is_valid_python : Prop :=
  forall magic a, wf_params a = true ->
    parse_sig (print_sig (get_func_args magic (transform_args a))) <> None.
(* proved under self_cls_plain (Properties.printed_sig_is_valid_python); dropping an annotation cannot invalidate the
   list, but that case is not part of the proof. *)

(* ImportTracker: proved at full strength over the model (Properties.every_required_name_imported_once).  Note what it
   does NOT say: a required name that was never registered by add_import/add_import_from is silently skipped by
   import_lines (by design: "defined locally"); whether stubgen registers every name it prints is emitter logic,
   covered only by the S oracle (mypy on the stub: name-defined). *)

(* annotation printing: proved at full strength over the model (Properties.ann_roundtrip, for every type expression of
   the grammar modelled in Ann.v) *)
Definition ann_roundtrip : Prop := forall t, wf_ty t = true -> parse_ann (print_ty t) = Some (norm t).
(* NOT modelled: analysed types (Instance, CallableType as reveal_type prints it), Tuple[()], unpack, the known_modules
   branch; default-value rendering (get_str_default_of_node) is carried as data by Sig.param, tied by the C stage only. *)

(* default values: full statement (for EVERY default expression) *)
Definition default_is_valid_expr_and_closed : Prop :=
  forall len e, exists p, parse_default (default_tokens len e) = Some p /\ closed p = true.
(* FALSE on the current tree: Properties.default_is_valid_expr_and_closed_refuted (float literal overflowing to inf);
   proved for finite float literals: ..._partial, default_faithful. *)

(* faithfulness clause of the property on the modelled module language: proved (Properties.public_members_preserved). *)
Definition public_members_preserved : Prop := forall c l, all_covered c true l (emit_module c l).
(* self-consistency clauses that are FALSE on the current tree for that language: *)
Definition definitions_unique : Prop := forall c l n, count_name n (emit_module c l) <= 1.      (* F-C *)
Definition references_defined : Prop :=                                                           (* F-M, F-F *)
  forall c l env, (forall it, In it l -> True) -> refs_defined env (emit_module c l) = true.
(* (references_defined is stated without the obvious side condition "the source defines or imports what it uses":
   the refutation Properties.references_defined_refuted uses a source that does.) *)

(* positive versions proved under decidable guards: Properties.definitions_unique_guarded (no_redefinition_guard; overload
   chains excepted) and Properties.references_defined_guarded (refs_guard). *)
