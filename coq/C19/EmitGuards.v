(* C19 — positive self-consistency theorems for the emitter model under decidable guards on the source module *)
From Coq Require Import List String Bool Arith Lia.
From C19 Require Import Strs Emit EmitProofs.
From Gen Require Import StubPreds.
Import ListNotations.
Open Scope string_scope.
Open Scope list_scope.

Lemma flat_go_eq : forall l,
  (fix go (l : list item) : list item := match l with [] => [] | x :: r => flat_item x ++ go r end) l = flat_items l.
Proof. induction l; simpl; [reflexivity|]. rewrite IHl. reflexivity. Qed.

Lemma flat_if : forall b1 b2, flat_item (IIf b1 b2) = flat_items b1 ++ flat_items b2.
Proof. intros. cbn [flat_item]. rewrite !flat_go_eq. reflexivity. Qed.

(* ------------------------------------------------------------ every emitted item refers only to what its source item refers to *)
Definition src_ok (it : item) (o : out) : Prop := exists it', In it' (flat_item it) /\ incl (out_refs o) (item_refs it').

Lemma emit_func_src : forall c top s n ds refs o, In o (fst (emit_func c top s n ds refs)) -> out_refs o = kept_decos ds ++ refs.
Proof.
  intros. unfold emit_func in H. destruct (func_skipped _ _ _ _ _ _); simpl in H; [contradiction|]. destruct H as [<-|[]]. reflexivity.
Qed.

Lemma emit_parts_src : forall c top n parts s chain o, In o (fst (emit_parts c top s n chain parts)) ->
  exists p, In p parts /\ out_refs o = kept_decos (fst p) ++ snd p.
Proof.
  induction parts as [|[ds refs] r IH]; intros s chain o H; simpl in H; [contradiction|].
  assert (REC : forall s' ch, In o (fst (emit_parts c top s' n ch r)) -> exists p, In p ((ds, refs) :: r) /\ out_refs o = kept_decos (fst p) ++ snd p).
  { intros s' ch Hx. destruct (IH s' ch o Hx) as (p & Hp & E). exists p. split; [right; exact Hp|exact E]. }
  destruct ds as [|d ds']; [eapply REC; eauto|]. set (ds := d :: ds') in *.
  destruct (decorator_skipped c n None); [eapply REC; eauto|].
  assert (FUN : forall (sx : gstate) ch, In o (fst (let '(o1, s1) := emit_func c top s n ds refs in let '(o2, s2) := emit_parts c top s1 n ch r in (o1 ++ o2, s2))) ->
                exists p, In p ((ds, refs) :: r) /\ out_refs o = kept_decos (fst p) ++ snd p).
  { intros _ ch Hx. pose proof (emit_func_src c top s n ds refs o) as F. destruct (emit_func c top s n ds refs) as [o1 s1].
    destruct (emit_parts c top s1 n ch r) as [o2 s2] eqn:E2. simpl in Hx. apply in_app_or in Hx as [Hx|Hx].
    - exists (ds, refs). split; [left; reflexivity|]. apply F. exact Hx.
    - apply (REC s1 ch). rewrite E2. exact Hx. }
  destruct chain; simpl in H.
  - change (d_overload d || existsb d_overload ds') with (existsb d_overload ds) in H.
    destruct (existsb d_overload ds); [apply (FUN s true); exact H|eapply REC; eauto].
  - change (d_overload d || existsb d_overload ds') with (existsb d_overload ds) in H. apply (FUN s (existsb d_overload ds)). exact H.
Qed.

Lemma emit_var_src : forall c top s n a k refs o, In o (fst (emit_var c top s n a k refs)) -> out_refs o = refs.
Proof.
  intros. unfold emit_var in H.
  destruct (match k with VAliasImplicit | VAliasExplicit => _ | _ => false end); simpl in H; [destruct H as [<-|[]]; reflexivity|].
  destruct (var_already _ _); simpl in H; [contradiction|]. destruct (var_filtered _ _ _); simpl in H; [contradiction|].
  destruct H as [<-|[]]. reflexivity.
Qed.

Definition src_item_ok (c : cfg) (it : item) : Prop := forall top s o, In o (fst (emit_item c top s it)) -> src_ok it o.

Lemma src_items_from : forall c l, Forall (src_item_ok c) l -> forall top s o, In o (fst (emit_items c top s l)) ->
  exists it', In it' (flat_items l) /\ incl (out_refs o) (item_refs it').
Proof.
  intros c l F. induction F as [|x r Hx _ IH]; intros top s o H; simpl in H; [contradiction|].
  pose proof (Hx top s o) as X. destruct (emit_item c top s x) as [o1 s1]. specialize (IH top s1 o).
  destruct (emit_items c top s1 r) as [o2 s2]. simpl in *. apply in_app_or in H as [H|H].
  - destruct (X H) as (it' & I1 & I2). exists it'. split; [apply in_or_app; left; exact I1|exact I2].
  - destruct (IH H) as (it' & I1 & I2). exists it'. split; [apply in_or_app; right; exact I1|exact I2].
Qed.

Lemma src_item_all : forall c it, src_item_ok c it.
Proof.
  intros c. induction it as [n ds refs|n parts|n refs body IH|n a k refs|b1 b2 IH1 IH2] using item_ind'; intros top s o H.
  - exists (IFunc n ds refs). split; [left; reflexivity|]. cbn [emit_item] in H.
    assert (E : out_refs o = kept_decos ds ++ refs).
    { destruct ds; [eapply emit_func_src; eauto|]. destruct (decorator_skipped c n None); [simpl in H; contradiction|eapply emit_func_src; eauto]. }
    rewrite E. apply incl_refl.
  - exists (IOverloaded n parts). split; [left; reflexivity|]. cbn [emit_item] in H.
    destruct (emit_parts_src c top n parts s false o H) as (p & Hp & E). rewrite E. cbn [item_refs].
    intros x Hx. apply in_flat_map. exists p. split; assumption.
  - exists (IClass n refs body). split; [left; reflexivity|]. cbn [emit_item] in H. rewrite go_eq in H.
    destruct (emit_items c false _ body) as [ob sb]. simpl in H. destruct H as [<-|[]]. apply incl_refl.
  - exists (IVar n a k refs). split; [left; reflexivity|]. cbn [emit_item] in H. rewrite (emit_var_src _ _ _ _ _ _ _ _ H). apply incl_refl.
  - cbn [emit_item] in H. rewrite go_eq in H. unfold src_ok. rewrite flat_if.
    pose proof (src_items_from c b1 IH1 top s o) as A. destruct (emit_items c top s b1) as [o1 s1]. rewrite go_eq in H.
    pose proof (src_items_from c b2 IH2 top s1 o) as B. destruct (emit_items c top s1 b2) as [o2 s2]. simpl in *.
    apply in_app_or in H as [H|H].
    + destruct (A H) as (it' & I1 & I2). exists it'. split; [apply in_or_app; left; exact I1|exact I2].
    + destruct (B H) as (it' & I1 & I2). exists it'. split; [apply in_or_app; right; exact I1|exact I2].
Qed.

(* ------------------------------------------------------------ a public name the module defines is bound in the stub *)
Definition cov_names (c : cfg) (it : item) : Prop := forall outs, covered c true it outs ->
  forall r, In r (flat_map def_name (flat_item it)) -> public c true r = true -> In r (map oname outs).

Lemma cov_names_list : forall c l, Forall (cov_names c) l -> forall outs, all_covered c true l outs ->
  forall r, In r (flat_map def_name (flat_items l)) -> public c true r = true -> In r (map oname outs).
Proof.
  intros c l F. induction F as [|x t Hx _ IH]; intros outs Hc r Hr P; simpl in *; [contradiction|].
  destruct Hc as [C1 C2]. unfold flat_items in Hr. simpl in Hr. rewrite flat_map_app in Hr. apply in_app_or in Hr as [Hr|Hr].
  - eapply Hx; eauto.
  - eapply IH; eauto.
Qed.

Lemma cov_names_all : forall c it, cov_names c it.
Proof.
  intros c. induction it as [n ds refs|n parts|n refs body IH|n a k refs|b1 b2 IH1 IH2] using item_ind'; intros outs Hc r Hr P.
  - simpl in Hr. destruct Hr as [<-|[]]. apply Hc. exact P.
  - simpl in Hr. destruct parts as [|[[|d ds] rf] ps]; simpl in Hr; try contradiction. destruct Hr as [<-|[]]. apply Hc; [exact I|exact P].
  - simpl in Hr. destruct Hr as [<-|[]]. simpl in Hc. destruct Hc as (refs' & ob & Ho & _).
    apply in_map_iff. exists (OClass n refs' ob). split; [reflexivity|exact Ho].
  - simpl in Hr. destruct Hr as [<-|[]]. apply Hc. exact P.
  - rewrite flat_if, flat_map_app in Hr. simpl in Hc. rewrite !covered_all_eq in Hc. destruct Hc as [C1 C2].
    apply in_app_or in Hr as [Hr|Hr]; [eapply (cov_names_list c b1 IH1)|eapply (cov_names_list c b2 IH2)]; eauto.
Qed.

Theorem references_defined_guarded_holds : forall c env l,
  refs_guard c env l = true -> refs_defined env (emit_module c l) = true.
Proof.
  intros c env l G. unfold refs_defined. apply forallb_forall. intros o Ho. apply forallb_forall. intros r Hr.
  assert (S : exists it', In it' (flat_items l) /\ incl (out_refs o) (item_refs it')).
  { apply (src_items_from c l) with (top := true) (s := mkG [] []); [apply Forall_forall; intros; apply src_item_all|exact Ho]. }
  destruct S as (it' & I1 & I2). unfold refs_guard in G. rewrite forallb_forall in G. specialize (G it' I1).
  rewrite forallb_forall in G. specialize (G r (I2 r Hr)).
  apply orb_true_iff in G as [G|G]; [rewrite G; apply orb_true_r|].
  apply andb_true_iff in G as [P D]. apply orb_true_iff. left. apply mem_str_In. apply mem_str_In in D.
  apply (cov_names_list c l) with (outs := emit_module c l); try assumption.
  - apply Forall_forall; intros; apply cov_names_all.
  - apply public_members_preserved_holds.
Qed.

(* ------------------------------------------------------------ no duplicate definitions *)
Definition name1 (it : item) : list string :=
  match it with IFunc n _ _ | IClass n _ _ | IVar n _ _ _ | IOverloaded n _ => [n] | IIf _ _ => [] end.
Definition ov1 (it : item) : list string := match it with IOverloaded n _ => [n] | _ => [] end.
Definition cnt (n : string) (l : list item) : nat := count_occ string_dec (flat_map name1 l) n.

Lemma count_app : forall n a b, count_name n (a ++ b) = count_name n a + count_name n b.
Proof. induction a; intros; simpl; [reflexivity|]. rewrite IHa. lia. Qed.

Lemma count_zero : forall n l, (forall o, In o l -> oname o <> n) -> count_name n l = 0.
Proof.
  induction l as [|o r IH]; intros H; simpl; [reflexivity|].
  destruct (String.eqb (oname o) n) eqn:E; [apply String.eqb_eq in E; exfalso; apply (H o); [left; reflexivity|exact E]|].
  apply IH. intros; apply H; right; assumption.
Qed.

Lemma count_one : forall n o, count_name n [o] = if String.eqb (oname o) n then 1 else 0.
Proof. intros; simpl. destruct (String.eqb (oname o) n); reflexivity. Qed.

Lemma cnt_single : forall n m, count_occ string_dec [m] n = if String.eqb m n then 1 else 0.
Proof.
  intros. simpl. destruct (string_dec m n) as [->|Hne]; [rewrite String.eqb_refl; reflexivity|].
  destruct (String.eqb m n) eqn:E; [apply String.eqb_eq in E; contradiction|reflexivity].
Qed.

Lemma emit_func_names : forall c top s m ds refs o, In o (fst (emit_func c top s m ds refs)) -> oname o = m.
Proof. intros. unfold emit_func in H. destruct (func_skipped _ _ _ _ _ _); simpl in H; [contradiction|]. destruct H as [<-|[]]. reflexivity. Qed.

Lemma emit_func_count : forall c top s m ds refs n,
  count_name n (fst (emit_func c top s m ds refs)) <= if String.eqb m n then 1 else 0.
Proof.
  intros. unfold emit_func. destruct (func_skipped _ _ _ _ _ _); simpl; [destruct (String.eqb m n); lia|].
  destruct (String.eqb m n); lia.
Qed.

Lemma emit_parts_names : forall c top m parts s chain o, In o (fst (emit_parts c top s m chain parts)) -> oname o = m.
Proof.
  induction parts as [|[ds refs] r IH]; intros s chain o H; simpl in H; [contradiction|].
  destruct ds as [|d ds']; [eapply IH; eauto|]. set (ds := d :: ds') in *.
  destruct (decorator_skipped c m None); [eapply IH; eauto|].
  assert (FUN : forall ch, In o (fst (let '(o1, s1) := emit_func c top s m ds refs in let '(o2, s2) := emit_parts c top s1 m ch r in (o1 ++ o2, s2))) -> oname o = m).
  { intros ch Hx. pose proof (emit_func_names c top s m ds refs o) as F. destruct (emit_func c top s m ds refs) as [o1 s1].
    destruct (emit_parts c top s1 m ch r) as [o2 s2] eqn:E2. simpl in Hx. apply in_app_or in Hx as [Hx|Hx]; [apply F; exact Hx|].
    apply (IH s1 ch). rewrite E2. exact Hx. }
  destruct chain; simpl in H; change (d_overload d || existsb d_overload ds') with (existsb d_overload ds) in H.
  - destruct (existsb d_overload ds); [apply (FUN true); exact H|eapply IH; eauto].
  - apply (FUN (existsb d_overload ds)). exact H.
Qed.

Lemma emit_var_count : forall c top s m a k refs n,
  count_name n (fst (emit_var c top s m a k refs)) <= if String.eqb m n then 1 else 0.
Proof.
  intros. unfold emit_var.
  destruct (match k with VAliasImplicit | VAliasExplicit => _ | _ => false end); simpl; [destruct (String.eqb m n); lia|].
  destruct (var_already _ _); simpl; [destruct (String.eqb m n); lia|].
  destruct (var_filtered _ _ _); simpl; destruct (String.eqb m n); lia.
Qed.

Definition uniq_item (c : cfg) (it : item) : Prop := forall top s n,
  ~ In n (flat_map ov1 (flat_item it)) -> count_name n (fst (emit_item c top s it)) <= cnt n (flat_item it).

Lemma cnt_app : forall n a b, cnt n (a ++ b) = cnt n a + cnt n b.
Proof. intros. unfold cnt. rewrite flat_map_app, count_occ_app. reflexivity. Qed.

Lemma uniq_items_from : forall c l, Forall (uniq_item c) l -> forall top s n,
  ~ In n (flat_map ov1 (flat_items l)) -> count_name n (fst (emit_items c top s l)) <= cnt n (flat_items l).
Proof.
  intros c l F. induction F as [|x r Hx _ IH]; intros top s n Hn; simpl; [unfold cnt; simpl; lia|].
  unfold flat_items in *. simpl in Hn. rewrite flat_map_app in Hn.
  pose proof (Hx top s n) as X. destruct (emit_item c top s x) as [o1 s1]. specialize (IH top s1 n).
  destruct (emit_items c top s1 r) as [o2 s2]. simpl in *. rewrite count_app, cnt_app.
  assert (A : ~ In n (flat_map ov1 (flat_item x))) by (intro; apply Hn; apply in_or_app; left; assumption).
  assert (B : ~ In n (flat_map ov1 (flat_map flat_item r))) by (intro; apply Hn; apply in_or_app; right; assumption).
  specialize (X A). specialize (IH B). lia.
Qed.

Lemma uniq_item_all : forall c it, uniq_item c it.
Proof.
  intros c. induction it as [m ds refs|m parts|m refs body IH|m a k refs|b1 b2 IH1 IH2] using item_ind'; intros top s n Hn.
  - unfold cnt. cbn [flat_item flat_map name1 app]. rewrite cnt_single. cbn [emit_item].
    destruct ds; [apply emit_func_count|]. destruct (decorator_skipped c m None); [simpl; destruct (String.eqb m n); lia|apply emit_func_count].
  - cbn [emit_item]. rewrite count_zero; [lia|]. intros o Ho E. rewrite (emit_parts_names _ _ _ _ _ _ _ Ho) in E. subst.
    apply Hn. simpl. left. reflexivity.
  - unfold cnt. cbn [flat_item flat_map name1 app]. rewrite cnt_single. cbn [emit_item]. rewrite go_eq.
    destruct (emit_items c false _ body) as [ob sb]. simpl. destruct (String.eqb m n); lia.
  - unfold cnt. cbn [flat_item flat_map name1 app]. rewrite cnt_single. cbn [emit_item]. apply emit_var_count.
  - rewrite flat_if in *. rewrite flat_map_app in Hn. cbn [emit_item]. rewrite go_eq.
    pose proof (uniq_items_from c b1 IH1 top s n) as A. destruct (emit_items c top s b1) as [o1 s1]. rewrite go_eq.
    pose proof (uniq_items_from c b2 IH2 top s1 n) as B. destruct (emit_items c top s1 b2) as [o2 s2]. simpl in *.
    rewrite count_app, cnt_app.
    assert (A' : ~ In n (flat_map ov1 (flat_items b1))) by (intro; apply Hn; apply in_or_app; left; assumption).
    assert (B' : ~ In n (flat_map ov1 (flat_items b2))) by (intro; apply Hn; apply in_or_app; right; assumption).
    specialize (A A'). specialize (B B'). lia.
Qed.

Lemma nodupb_NoDup : forall l, nodupb l = true -> NoDup l.
Proof.
  induction l as [|x r IH]; intros H; [constructor|]. simpl in H. apply andb_true_iff in H as [H1 H2].
  constructor; [|auto]. intro I. apply mem_str_In in I. rewrite I in H1. discriminate.
Qed.

Theorem definitions_unique_guarded_holds : forall c l n,
  no_redefinition_guard l = true -> ~ In n (overload_names l) -> count_name n (emit_module c l) <= 1.
Proof.
  intros c l n G Hn. unfold emit_module.
  pose proof (uniq_items_from c l) as U.
  assert (F : Forall (uniq_item c) l) by (apply Forall_forall; intros; apply uniq_item_all).
  specialize (U F true (mkG [] []) n Hn).
  unfold no_redefinition_guard, all_item_names in G. apply nodupb_NoDup in G.
  assert (C : cnt n (flat_items l) <= 1).
  { unfold cnt. change (flat_map name1 (flat_items l)) with (flat_map (fun it => match it with IFunc n _ _ | IClass n _ _ | IVar n _ _ _ | IOverloaded n _ => [n] | IIf _ _ => [] end) (flat_items l)).
    apply NoDup_count_occ. exact G. }
  lia.
Qed.
