(* Property C19 (partial): signature printing/parsing.  Statements closed by `exact`, each with Print Assumptions. *)
From Coq Require Import List String Bool.
From C19 Require Import Sig SigProofs Imports ImportsProofs Ann AnnProofs AnnImports Defaults DefaultsProofs Strs Emit EmitProofs EmitGuards.
From Gen Require Import StubPreds.
Import ListNotations.
Open Scope string_scope.

(* After fix d2bbe81 (only a leading run of positional parameters can be positional-only) the statements that the
   previous round REFUTED hold: kinds, names, order, annotations and rendered defaults of ANY parameter list Python's
   grammar can produce survive printing + parsing.  The one remaining hypothesis: a parameter called self/cls is
   unannotated (stubgen drops the annotation of a first parameter so named, by design: see self_annotation_dropped). *)
Theorem sig_roundtrip : forall magic a,
  wf_params a = true -> self_cls_plain a = true ->
  parse_sig (print_sig (get_func_args magic (transform_args a))) = Some (stub_view magic a).
Proof. intros magic a H1 H2. exact (sig_roundtrip_holds magic a (conj H1 H2)). Qed.
Print Assumptions sig_roundtrip.

Theorem printed_sig_is_valid_python : forall magic a,
  wf_params a = true -> self_cls_plain a = true ->
  parse_sig (print_sig (get_func_args magic (transform_args a))) <> None.
Proof. intros magic a H1 H2. rewrite (sig_roundtrip_holds magic a (conj H1 H2)). discriminate. Qed.
Print Assumptions printed_sig_is_valid_python.

(* exactly what still fails without self_cls_plain: the annotation of a first parameter named self (or cls) is lost *)
Definition wit_self : arguments := mkArgs [] [mkParam "self" (Some "T") None; mkParam "x" (Some "int") None] None [] None.
Theorem self_annotation_dropped : exists a r,
  wf_params a = true /\ self_cls_plain a = false /\
  render (print_sig (get_func_args false (transform_args a))) = "self, x: int" /\
  parse_sig (print_sig (get_func_args false (transform_args a))) = Some r /\ r <> stub_view false a /\
  map pann (args r) = [None; Some "int"].
Proof. exists wit_self. eexists. vm_compute. repeat split; try reflexivity. intro H; discriminate H. Qed.
Print Assumptions self_annotation_dropped.

(* the former witnesses of the refutations, now inside the theorem: a keyword-only __x gets no slash; `a, __b` keeps
   both parameters positional-or-keyword *)
Example former_witnesses :
  let sg a := render (print_sig (get_func_args false (transform_args a))) in
  sg (mkArgs [] [] None [mkParam "__x" None None] None) = "*, __x" /\
  sg (mkArgs [] [mkParam "a" None None; mkParam "__b" None None] None [] None) = "a, __b" /\
  sg (mkArgs [] [] None [] (Some (mkParam "__k" None None))) = "**__k".
Proof. vm_compute. repeat split; reflexivity. Qed.

(* ImportTracker: for ANY sequence of add_import / add_import_from / require_name / reexport, the emitted import block
   binds exactly the required names that were seen in an import statement, each exactly once, and no other name *)
Theorem every_required_name_imported_once : forall ops,
  let t := run ops in
  map bound (import_lines t) = filter (fun n => has n (module_for t)) (required_names t) /\
  NoDup (map bound (import_lines t)) /\
  (forall n, In n (map bound (import_lines t)) <-> In n (required_names t) /\ has n (module_for t) = true).
Proof. exact imported_once. Qed.
Print Assumptions every_required_name_imported_once.

Example tracker_example :
  import_lines (run [OAddImport ["os"; "path"] None false; OAddImportFrom ["typing"] [(["Any"], None); (["List"], Some ["L"])] false;
                     OAddImport ["numpy"] (Some ["np"]) false; ORequire ["os"; "path"; "join"]; ORequire ["L"]; OReexport ["np"];
                     ORequire ["unknown"]])
  = [LImport ["numpy"] (Some ["np"]); LFrom ["typing"] ["List"] (Some ["L"]); LImport ["os"; "path"] None].
Proof. vm_compute. reflexivity. Qed.

(* annotation printing (AnnotationPrinter on the unanalysed types stubgen prints: names, subscripts, typing.Union /
   typing.Optional / PEP 604 unions, Callable argument lists, `...`, Literal values, typing.List -> list): for EVERY type
   expression, parsing the printed text gives back the expression up to the printer's own normalisation (Union/Optional
   become flat `X | Y` unions, replaced names) *)
Theorem ann_roundtrip : forall t, wf_ty t = true -> parse_ann (print_ty t) = Some (norm t).
Proof. exact ann_roundtrip_holds. Qed.
Print Assumptions ann_roundtrip.

(* printer + tracker: every name occurring in a printed annotation is the literal None, or was handed to require_name;
   its import key is then bound exactly once by the emitted import block when the tracker has seen it in an import
   statement, and not bound at all otherwise (builtin / defined in the stub / never registered) — for any history of
   tracker operations before the annotation is printed, and any way `dn` of cutting dotted names *)
Theorem annotation_names_imported_once : forall (dn : string -> dname) ops t x,
  let tr := run ops in
  let '(text, tr') := print_annotation dn t tr in
  In x (names_of text) ->
  x = "None" \/
  let k := require_target tr (dn x) in
  In k (required_names tr') /\
  (has k (module_for tr') = true -> count_occ dn_dec (map bound (import_lines tr')) k = 1) /\
  (has k (module_for tr') = false -> ~ In k (map bound (import_lines tr'))).
Proof. exact AnnImports.annotation_names_imported_once. Qed.
Print Assumptions annotation_names_imported_once.

Example ann_example :
  let t := UName "Dict" (RReplace "dict") [UName "str" RPlain []; UName "Optional" ROptional
             [UName "Callable" RPlain [UList [UName "int" RPlain []]; UName "Union" RUnion [UName "A" RPlain []; UName "B" RPlain []]]]] in
  wf_ty t = true /\ render_ann (print_ty t) = "dict[str, Callable[[int], A | B] | None]".
Proof. vm_compute. split; reflexivity. Qed.

(* ---- default values (get_str_default_of_node + the 200-character rule) *)
(* when the rendered default is not `...` it parses back to the source expression itself, hence has the source's value
   under any evaluator; for every expression whose float literals are finite *)
Theorem default_faithful : forall e ts, finite e = true -> rend e = Some ts ->
  parse_default ts = Some e /\ forall (V : Type) (ev : dexpr -> V) p, parse_default ts = Some p -> ev p = ev e.
Proof. exact default_faithful_holds. Qed.
Print Assumptions default_faithful.

(* what ends up in the stub (literal or `...`) is an expression with no free identifier besides True/False/None *)
Theorem default_is_valid_expr_and_closed_partial : forall len e, finite e = true ->
  exists p, parse_default (default_tokens len e) = Some p /\ closed p = true.
Proof. exact default_closed_holds. Qed.
Print Assumptions default_is_valid_expr_and_closed_partial.

(* a float literal that overflows (1e999) is rendered as the identifier `inf`: valid syntax, free identifier *)
Theorem default_is_valid_expr_and_closed_refuted : exists e, forall len,
  len [XId "inf"] <= 200 ->
  default_tokens len e = [XId "inf"] /\ parse_default (default_tokens len e) = Some (DName "inf") /\ closed (DName "inf") = false.
Proof.
  exists (DFloat FInf). intros len H. unfold default_tokens. simpl. apply PeanoNat.Nat.leb_le in H. rewrite H. repeat split.
Qed.
Print Assumptions default_is_valid_expr_and_closed_refuted.

(* ---- which definitions are emitted (predicates regenerated from the source: gen/StubPreds.v) *)
(* every public function, class and annotated variable of the module, and recursively every public member of every
   class, is bound in the stub — for any module of the modelled language, any __all__, with or without --include-private *)
Theorem public_members_preserved : forall c l, all_covered c true l (emit_module c l).
Proof. exact public_members_preserved_holds. Qed.
Print Assumptions public_members_preserved.

(* F-C: alternative class definitions under if/else are both emitted (functions are not: _toplevel_names) *)
Theorem definitions_unique_refuted : exists c l,
  count_name "X" (emit_module c l) = 2 /\ count_name "f" (emit_module c l) = 1.
Proof.
  exists (mkCfg false None), [IIf [IClass "X" [] []] [IClass "X" [] []]; IIf [IFunc "f" [] []] [IFunc "f" [] []]].
  vm_compute. split; reflexivity.
Qed.
Print Assumptions definitions_unique_refuted.

(* F-M and F-F: with __all__, a definition that is filtered out is still referred to by what is emitted:
   `Bl: typing.TypeAlias = list[int]` (kept when spelled `Cl: TypeAlias = ...`) and a decorator `dc` *)
Theorem references_defined_refuted : exists c l env,
  refs_defined env (emit_module c l) = false /\
  map oname (emit_module c l) = ["Cl"; "fa"; "de"] /\
  public c true "Bl" = false /\ public c true "dc" = false.
Proof.
  exists (mkCfg false (Some ["fa"; "de"])),
         [IVar "Bl" true VAliasQualified ["list"]; IVar "Cl" true VAliasExplicit ["list"]; IFunc "fa" [] ["Bl"; "Cl"];
          IFunc "dc" [] []; IFunc "de" [mkDeco "dc" true false] []],
         ["list"].
  vm_compute. repeat split; reflexivity.
Qed.
Print Assumptions references_defined_refuted.

(* the POSITIVE counterparts of the two refutations, under decidable guards on the source module that exclude exactly the
   witness classes (evaluated on every module of the emitter tie: see evidence keys C_emit_guard) *)
(* if no top-level name is bound by two definitions (if/else alternatives included), the stub defines every name at most
   once — except the items of an overload chain, which are repeated by design *)
Theorem definitions_unique_guarded : forall c l n,
  no_redefinition_guard l = true -> ~ In n (overload_names l) -> count_name n (emit_module c l) <= 1.
Proof. exact definitions_unique_guarded_holds. Qed.
Print Assumptions definitions_unique_guarded.

(* if every name a top-level definition refers to (kept decorators, bases, annotation names) is known from outside (env) or
   is a PUBLIC top-level definition of the module, every reference of the emitted stub is defined in the stub or in env *)
Theorem references_defined_guarded : forall c env l,
  refs_guard c env l = true -> refs_defined env (emit_module c l) = true.
Proof. exact references_defined_guarded_holds. Qed.
Print Assumptions references_defined_guarded.

Example guards_satisfiable :
  let c := mkCfg false (Some ["fa"; "Bl"; "dc"; "de"]) in
  let l := [IVar "Bl" true VAliasQualified ["list"]; IFunc "fa" [] ["Bl"]; IFunc "dc" [] []; IFunc "de" [mkDeco "dc" true false] [];
            IOverloaded "ov" [([mkDeco "overload" true true], []); ([mkDeco "overload" true true], [])]] in
  no_redefinition_guard l = true /\ refs_guard c ["list"; "overload"] l = true /\
  map oname (emit_module c l) = ["Bl"; "fa"; "dc"; "de"].
Proof. vm_compute. repeat split; reflexivity. Qed.
(* and the guards reject the witnesses of the refutations *)
Example guards_reject_witnesses :
  no_redefinition_guard [IIf [IClass "X" [] []] [IClass "X" [] []]] = false /\
  refs_guard (mkCfg false (Some ["fa"; "de"])) ["list"]
    [IVar "Bl" true VAliasQualified ["list"]; IFunc "fa" [] ["Bl"]; IFunc "dc" [] []; IFunc "de" [mkDeco "dc" true false] []] = false.
Proof. vm_compute. split; reflexivity. Qed.

Example emit_example :
  emit_module (mkCfg false None)
    [IClass "C" [] [IFunc "__init__" [] []; IFunc "_p" [] []; IFunc "__str__" [] []; IVar "__slots__" false VPlain [];
                    IOverloaded "m" [([mkDeco "overload" true true], []); ([mkDeco "overload" true true], []); ([], [])];
                    IOverloaded "p" [([mkDeco "property" true false], []); ([mkDeco "p" true false], [])]];
     IVar "_v" true VPlain []; IVar "v" true VPlain []]
  = [OClass "C" [] [OFunc "__init__" [] []; OFunc "m" ["overload"] []; OFunc "m" ["overload"] [];
                    OFunc "p" ["property"] []; OFunc "p" ["p"] []];
     OVar "v" []].
Proof. vm_compute. reflexivity. Qed.

(* non-vacuity *)
Example hyps_satisfiable :
  let a := mkArgs [mkParam "a" None (Some ("1", Some "int"))] [mkParam "b" (Some "str") (Some ("'x'", Some "str"))] None
                  [mkParam "c" None None; mkParam "d" None (Some ("...", None))] (Some (mkParam "kw" None None)) in
  wf_params a = true /\ self_cls_plain a = true /\
  stub_signature false a = "(a: int = 1, /, b: str = 'x', *, c, d=..., **kw)".
Proof. vm_compute. repeat split; reflexivity. Qed.
Example hyps_satisfiable_dunder :
  let a := mkArgs [] [mkParam "__p" None None; mkParam "q" None (Some ("None", None))] (Some (mkParam "args" None None)) [] None in
  wf_params a = true /\ self_cls_plain a = true /\
  stub_signature false a = "(__p, /, q=None, *args)".
Proof. vm_compute. repeat split; reflexivity. Qed.
