(* Property C19 (partial): signature printing/parsing.  Statements closed by `exact`, each with Print Assumptions. *)
From Coq Require Import List String Bool.
From C19 Require Import Sig SigProofs Imports ImportsProofs.
Import ListNotations.
Open Scope string_scope.

(* kinds, names, order, annotations and rendered defaults of ANY parameter list survive printing + parsing, provided
   (i) the source obeys Python's grammar, (ii) a parameter called self/cls is unannotated, (iii) names of the form
   __x occur only as a leading run of the positional-or-keyword parameters *)
Theorem sig_roundtrip_partial : forall magic a,
  wf_params a = true -> self_cls_plain a = true -> elide_ok a = true ->
  parse_sig (print_sig (get_func_args magic (transform_args a))) = Some (stub_view magic a).
Proof. intros magic a H1 H2 H3. exact (sig_roundtrip_holds magic a (conj H1 (conj H2 H3))). Qed.
Print Assumptions sig_roundtrip_partial.

Theorem printed_sig_is_valid_python_partial : forall magic a,
  wf_params a = true -> self_cls_plain a = true -> elide_ok a = true ->
  parse_sig (print_sig (get_func_args magic (transform_args a))) <> None.
Proof. intros magic a H1 H2 H3. rewrite (sig_roundtrip_holds magic a (conj H1 (conj H2 H3))). discriminate. Qed.
Print Assumptions printed_sig_is_valid_python_partial.

(* a function whose only parameter is keyword-only and named __x is printed with the bare star followed by a slash:
   not a parameter list of Python *)
Definition wit_invalid : arguments := mkArgs [] [] None [mkParam "__x" None None] None.
Theorem printed_sig_is_valid_python_refuted : exists a,
  wf_params a = true /\ self_cls_plain a = true /\
  render (print_sig (get_func_args false (transform_args a))) = "*, /, __x" /\
  parse_sig (print_sig (get_func_args false (transform_args a))) = None.
Proof. exists wit_invalid. vm_compute. repeat split; reflexivity. Qed.
Print Assumptions printed_sig_is_valid_python_refuted.

(* `def f(a, __b): ...`  is printed as  `(a, /, __b)`: valid, but `a` became positional-only and `__b` did not *)
Definition wit_kind : arguments := mkArgs [] [mkParam "a" None None; mkParam "__b" None None] None [] None.
Theorem sig_roundtrip_refuted : exists a r,
  wf_params a = true /\ self_cls_plain a = true /\
  render (print_sig (get_func_args false (transform_args a))) = "a, /, __b" /\
  parse_sig (print_sig (get_func_args false (transform_args a))) = Some r /\ r <> stub_view false a /\
  map pname (posonly r) = ["a"].
Proof.
  exists wit_kind. eexists. vm_compute. repeat split; try reflexivity. intro H; discriminate H.
Qed.
Print Assumptions sig_roundtrip_refuted.

(* ImportTracker: for ANY sequence of add_import / add_import_from / require_name / reexport, the emitted import block
   binds exactly the required names that were seen in an import statement, each exactly once, and no other name *)
Theorem every_required_name_imported_once : forall ops,
  let t := run ops in
  map bound (import_lines t) = filter (fun n => has n (module_for t)) (required_names t) /\
  NoDup (map bound (import_lines t)) /\
  (forall n, In n (map bound (import_lines t)) <-> In n (required_names t) /\ has n (module_for t) = true).
Proof. exact imported_once. Qed.
Print Assumptions every_required_name_imported_once.

Example tracker_example :
  import_lines (run [OAddImport ["os"; "path"] None false; OAddImportFrom ["typing"] [(["Any"], None); (["List"], Some ["L"])] false;
                     OAddImport ["numpy"] (Some ["np"]) false; ORequire ["os"; "path"; "join"]; ORequire ["L"]; OReexport ["np"];
                     ORequire ["unknown"]])
  = [LImport ["numpy"] (Some ["np"]); LFrom ["typing"] ["List"] (Some ["L"]); LImport ["os"; "path"] None].
Proof. vm_compute. reflexivity. Qed.

(* non-vacuity *)
Example hyps_satisfiable :
  let a := mkArgs [mkParam "a" None (Some ("1", Some "int"))] [mkParam "b" (Some "str") (Some ("'x'", Some "str"))] None
                  [mkParam "c" None None; mkParam "d" None (Some ("...", None))] (Some (mkParam "kw" None None)) in
  wf_params a = true /\ self_cls_plain a = true /\ elide_ok a = true /\
  stub_signature false a = "(a: int = 1, /, b: str = 'x', *, c, d=..., **kw)".
Proof. vm_compute. repeat split; reflexivity. Qed.
Example hyps_satisfiable_dunder :
  let a := mkArgs [] [mkParam "__p" None None; mkParam "q" None (Some ("None", None))] (Some (mkParam "args" None None)) [] None in
  wf_params a = true /\ self_cls_plain a = true /\ elide_ok a = true /\
  stub_signature false a = "(__p, /, q=None, *args)".
Proof. vm_compute. repeat split; reflexivity. Qed.
