"""T7: regenerate coq/gen/CacheProtocol.v from the TEXT of mypy/build.py, mypy/build_worker/worker.py, mypy/metastore.py.

Extracted (python `ast` only, mypy is never imported; fail-closed: anything not recognised raises):

* build.write_cache: the store operations it performs, in source order (removes of the old meta /
  meta_ex, the data write), its reaction to a failed data write (`return interface_hash, None`) and to a
  remove raising an OSError other than FileNotFoundError (return None / propagate: nothing more is written);
* build.process_graph: `if manager.workers: manager.commit()` before the workers start;
* build.write_cache_meta / write_cache_meta_ex: exactly one store write each (meta / meta_ex);
* build.process_stale_scc, process_stale_scc_interface, process_stale_scc_implementation: for every
  `for id in stale` loop, the ordered store operations of its body (State.write_cache() is inlined),
  commit_module points, and the `if meta_tuple is None: continue` reaction;
* worker.serve: manager.commit() after each SCC's interface phase and after the implementation
  phases, both BEFORE the reply is sent; implementation processed per module;
* build.build_inner: `finally: manager.commit()`.

A change of the order in the source changes the generated protocol value, hence which theorem of
coq/C04 applies to it (Model.protocol_ok).
"""
from __future__ import annotations

import ast
import os
import sys

sys.path.insert(0, os.path.dirname(os.path.dirname(os.path.abspath(__file__))))
import vlib


class Unsupported(Exception):
    pass


def _funcs(tree: ast.Module) -> dict[str, ast.FunctionDef]:
    return {n.name: n for n in tree.body if isinstance(n, ast.FunctionDef)}


def _need(funcs: dict[str, ast.FunctionDef], name: str) -> ast.FunctionDef:
    if name not in funcs:
        raise Unsupported(f"function {name} not found")
    return funcs[name]


def _is_metastore(e: ast.expr) -> bool:
    return (isinstance(e, ast.Name) and e.id == "metastore") or (isinstance(e, ast.Attribute) and e.attr == "metastore")


def _calls_in_order(node: ast.AST) -> list[ast.Call]:
    """All Call nodes below node, in source order."""
    calls = [n for n in ast.walk(node) if isinstance(n, ast.Call)]
    return sorted(calls, key=lambda c: (c.lineno, c.col_offset))


def _rec_of_arg(a: ast.expr, env: dict[str, list[str]]) -> list[str]:
    """Which record(s) a file-name expression denotes."""
    if isinstance(a, ast.Name):
        if a.id in env:
            return env[a.id]
        if a.id == "data_file":
            return ["data"]
        if a.id == "meta_file":
            return ["meta"]
        if a.id == "meta_ex_file":
            return ["ex"]
    if isinstance(a, ast.Call) and isinstance(a.func, ast.Name) and a.func.id == "get_meta_ex_name":
        return ["ex"]
    raise Unsupported(f"line {a.lineno}: cannot tell which cache record `{ast.unparse(a)}` is")


WRITE = {"data": "PData", "meta": "PMeta", "ex": "PEx"}
REMOVE = {"meta": "PRmMeta", "ex": "PRmEx"}


def direct_store_ops(fn: ast.FunctionDef, skip_if_tests: tuple[str, ...] = ()) -> list[tuple[str, ast.Call, list[ast.AST]]]:
    """Ordered (pstep, call, ancestors) for every direct metastore call in fn."""
    out: list[tuple[str, ast.Call, list[ast.AST]]] = []

    def visit(stmts: list[ast.stmt], env: dict[str, list[str]], anc: list[ast.AST]) -> None:
        for s in stmts:
            if isinstance(s, ast.If):
                if ast.unparse(s.test) in skip_if_tests:
                    continue
                scan_expr(s.test, env, anc + [s])
                visit(s.body, env, anc + [s])
                visit(s.orelse, env, anc + [s])
            elif isinstance(s, ast.For):
                env2 = dict(env)
                if isinstance(s.target, ast.Name) and isinstance(s.iter, (ast.Tuple, ast.List)):
                    # `for f in (meta_file, get_meta_ex_name(meta_file)):` -- unrolled
                    for elt in s.iter.elts:
                        env3 = dict(env)
                        env3[s.target.id] = _rec_of_arg(elt, env)
                        visit(s.body, env3, anc + [s])
                    continue
                visit(s.body, env2, anc + [s])
            elif isinstance(s, ast.Try):
                visit(s.body, env, anc + [s])
                for h in s.handlers:
                    visit(h.body, env, anc + [s, h])
                visit(s.orelse, env, anc + [s])
                visit(s.finalbody, env, anc + [s])
            elif isinstance(s, (ast.While, ast.With)):
                visit(s.body, env, anc + [s])
            elif isinstance(s, (ast.FunctionDef, ast.ClassDef)):
                raise Unsupported(f"line {s.lineno}: nested definition in {fn.name}")
            else:
                scan_expr(s, env, anc + [s])

    def scan_expr(node: ast.AST, env: dict[str, list[str]], anc: list[ast.AST]) -> None:
        for c in _calls_in_order(node):
            f = c.func
            if isinstance(f, ast.Attribute) and _is_metastore(f.value):
                if f.attr == "write":
                    for r in _rec_of_arg(c.args[0], env):
                        out.append((WRITE[r], c, anc))
                elif f.attr == "remove":
                    for r in _rec_of_arg(c.args[0], env):
                        if r not in REMOVE:
                            raise Unsupported(f"line {c.lineno}: remove of the {r} record")
                        out.append((REMOVE[r], c, anc))
                elif f.attr in ("getmtime", "read"):
                    pass
                else:
                    raise Unsupported(f"line {c.lineno}: metastore.{f.attr} in {fn.name}")
            elif isinstance(f, ast.Attribute) and isinstance(f.value, ast.Name) and f.value.id == "os" \
                    and f.attr in ("remove", "unlink", "replace", "rename"):
                raise Unsupported(f"line {c.lineno}: os.{f.attr} on the cache outside the store in {fn.name}")

    visit(fn.body, {}, [])
    return out


def remove_reaction(ops: list[tuple[str, ast.Call, list[ast.AST]]]) -> bool:
    """Does a failing remove (an OSError that is not FileNotFoundError) stop all further cache writes of the module?

    True when there are no removes, when the exception propagates (the run dies: a crash position), or when the
    handler returns `<hash>, None`; False when a handler swallows it and carries on."""
    for o, call, anc in ops:
        if o not in ("PRmMeta", "PRmEx"):
            continue
        tries = [a for a in anc if isinstance(a, ast.Try) and any(x is call for b in a.body for x in ast.walk(b))]
        for t in tries:
            for h in t.handlers:
                names = [] if h.type is None else [ast.unparse(e) for e in (h.type.elts if isinstance(h.type, ast.Tuple) else [h.type])]
                if names == ["FileNotFoundError"]:
                    if not all(isinstance(b, ast.Pass) for b in h.body):
                        raise Unsupported(f"line {h.lineno}: FileNotFoundError handler of a remove does more than pass")
                    continue
                last = h.body[-1]
                returns_none = (isinstance(last, ast.Return) and isinstance(last.value, ast.Tuple) and len(last.value.elts) == 2
                                and isinstance(last.value.elts[1], ast.Constant) and last.value.elts[1].value is None)
                reraises = isinstance(last, ast.Raise)
                if not (returns_none or reraises):
                    return False
    return True


def _methods(tree: ast.Module, cls: str) -> dict[str, ast.FunctionDef]:
    for n in tree.body:
        if isinstance(n, ast.ClassDef) and n.name == cls:
            return {m.name: m for m in n.body if isinstance(m, ast.FunctionDef)}
    raise Unsupported(f"class {cls} not found in mypy/metastore.py")


def _lowlevel_calls(node: ast.AST, names: tuple[str, ...]) -> list[ast.Call]:
    return [c for c in _calls_in_order(node) if ast.unparse(c.func) in names]


def store_error_handling(mtree: ast.Module) -> dict[str, bool]:
    """The `except` structure of the store methods (fail closed on anything else):

    write:  the low-level operation (os.replace / db.execute) sits in a try whose only handler catches
            OSError / sqlite3.OperationalError and returns False; the method returns True otherwise.
    remove: the low-level operation (os.remove / db.execute) is NOT inside a try that swallows its error:
            a failing remove raises into build.write_cache.  Returns {"remove_raises": bool}."""
    res = {"remove_raises": True}
    for cls, low_w, low_r, exc in (("FilesystemMetadataStore", ("os.replace",), ("os.remove", "os.unlink"), "OSError"),
                                   ("SqliteMetadataStore", ("db.execute",), ("db.execute",), "sqlite3.OperationalError")):
        ms = _methods(mtree, cls)
        for need in ("write", "remove", "commit"):
            if need not in ms:
                raise Unsupported(f"{cls}.{need} not found")
        w = ms["write"]
        tries = [t for t in ast.walk(w) if isinstance(t, ast.Try)]
        if len(tries) != 1:
            raise Unsupported(f"{cls}.write: expected exactly one try block, found {len(tries)}")
        t = tries[0]
        if not any(_lowlevel_calls(b, low_w) for b in t.body):
            raise Unsupported(f"{cls}.write: {low_w} is not inside the try block")
        if len(_lowlevel_calls(w, low_w)) != sum(len(_lowlevel_calls(b, low_w)) for b in t.body):
            raise Unsupported(f"{cls}.write: {low_w} outside the try block")
        if len(t.handlers) != 1 or t.handlers[0].type is None or ast.unparse(t.handlers[0].type) != exc:
            raise Unsupported(f"{cls}.write: handlers are not exactly `except {exc}`")
        hb = t.handlers[0].body
        if not (len(hb) == 1 and isinstance(hb[0], ast.Return) and isinstance(hb[0].value, ast.Constant) and hb[0].value.value is False):
            raise Unsupported(f"{cls}.write: the handler does not `return False`")
        if t.orelse or t.finalbody:
            raise Unsupported(f"{cls}.write: try has else/finally")
        last = w.body[-1]
        if not (isinstance(last, ast.Return) and isinstance(last.value, ast.Constant) and last.value.value is True):
            raise Unsupported(f"{cls}.write: does not end with `return True`")
        r = ms["remove"]
        if not _lowlevel_calls(r, low_r):
            raise Unsupported(f"{cls}.remove: low-level removal {low_r} not found")
        for t in [t for t in ast.walk(r) if isinstance(t, ast.Try)]:
            if any(_lowlevel_calls(b, low_r) for b in t.body):
                for h in t.handlers:
                    if not isinstance(h.body[-1], ast.Raise):
                        res["remove_raises"] = False     # the store swallows a failing removal
    return res


def snapshot_order(tree: ast.Module, funcs: dict[str, ast.FunctionDef]) -> list[str]:
    """Where build.dispatch writes the build-level record that vouches for ALL module entries
    (@plugins_snapshot.json) relative to process_graph (which rewrites the entries)."""
    fn = _need(funcs, "dispatch")
    ev: list[str] = []
    for c in _calls_in_order(fn):
        f = c.func
        if isinstance(f, ast.Name) and f.id == "process_graph":
            ev.append("SnGraph")
        elif isinstance(f, ast.Name) and f.id == "write_plugins_snapshot":
            ev.append("SnWrite")
        elif isinstance(f, ast.Name) and f.id == "invalidate_plugins_snapshot":
            ev.append("SnInval")
        elif isinstance(f, ast.Attribute) and _is_metastore(f.value) and f.attr in ("write", "remove"):
            raise Unsupported(f"line {c.lineno}: direct metastore.{f.attr} in dispatch")
    if ev.count("SnGraph") != 1:
        raise Unsupported(f"dispatch: expected one call of process_graph, found {ev}")
    # no other writer of the snapshot
    writers = [c for c in ast.walk(tree) if isinstance(c, ast.Call) and isinstance(c.func, ast.Name)
               and c.func.id in ("write_plugins_snapshot", "invalidate_plugins_snapshot")]
    if len(writers) != len([e for e in ev if e != "SnGraph"]):
        raise Unsupported("the plugins snapshot is written outside build.dispatch")
    w = _need(funcs, "write_plugins_snapshot")
    calls = [c for c in _calls_in_order(w) if isinstance(c.func, ast.Attribute) and _is_metastore(c.func.value)]
    if len(calls) != 1 or calls[0].func.attr != "write" or ast.unparse(calls[0].args[0]) != "PLUGIN_SNAPSHOT_FILE":
        raise Unsupported("write_plugins_snapshot: expected exactly one metastore.write(PLUGIN_SNAPSHOT_FILE, ...)")
    if not any(isinstance(c.func, ast.Attribute) and c.func.attr == "error" and any(k.arg == "blocker" for k in c.keywords)
               for c in _calls_in_order(w)):
        raise Unsupported("write_plugins_snapshot: a failed write is no longer a blocking error")
    return ev


def deps_cache_protocol(funcs: dict[str, ast.FunctionDef]) -> dict[str, bool]:
    """build.write_deps_cache: deps files in a loop (a failure sets `error`, the meta entry of the file is
    updated only on success), then DEPS_META_FILE; is the meta write skipped when `error` is set?"""
    fn = _need(funcs, "write_deps_cache")
    loops = [s for s in fn.body if isinstance(s, ast.For)]
    dwrites = []
    for lp in loops:
        for c in _calls_in_order(lp):
            if isinstance(c.func, ast.Attribute) and c.func.attr == "write" and _is_metastore(c.func.value):
                dwrites.append((lp, c))
    if len(dwrites) != 1 or ast.unparse(dwrites[0][1].args[0]) != "deps_json":
        raise Unsupported("write_deps_cache: expected exactly one metastore.write(deps_json, ...) inside a loop")
    lp, dcall = dwrites[0]
    iff = next((n for n in ast.walk(lp) if isinstance(n, ast.If) and isinstance(n.test, ast.UnaryOp)
                and isinstance(n.test.op, ast.Not) and n.test.operand is dcall), None)
    if iff is None or "error = True" not in [ast.unparse(x) for x in iff.body]:
        raise Unsupported("write_deps_cache: a failed deps-file write does not set `error = True`")
    if not any(ast.unparse(x).startswith("fg_deps_meta[id] =") for x in iff.orelse) or \
            any("fg_deps_meta[id]" in ast.unparse(x) for x in iff.body):
        raise Unsupported("write_deps_cache: fg_deps_meta[id] is not updated exactly on success")
    mwrites = []

    def visit(stmts: list[ast.stmt], guarded: bool) -> None:
        for st in stmts:
            if isinstance(st, ast.For):
                continue
            if isinstance(st, ast.If):
                g = guarded or ast.unparse(st.test) == "not error"
                for c in _calls_in_order(st.test):
                    if isinstance(c.func, ast.Attribute) and c.func.attr == "write" and _is_metastore(c.func.value):
                        mwrites.append((c, guarded))
                visit(st.body, g)
                visit(st.orelse, guarded)
            else:
                for c in _calls_in_order(st):
                    if isinstance(c.func, ast.Attribute) and c.func.attr == "write" and _is_metastore(c.func.value):
                        mwrites.append((c, guarded))
    visit(fn.body, False)
    if len(mwrites) != 1 or ast.unparse(mwrites[0][0].args[0]) != "DEPS_META_FILE":
        raise Unsupported("write_deps_cache: expected exactly one metastore.write(DEPS_META_FILE, ...) outside the loop")
    return {"meta_last": mwrites[0][0].lineno > lp.lineno, "meta_skipped_on_error": mwrites[0][1]}


def coord_commit(funcs: dict[str, ast.FunctionDef]) -> bool:
    fn = _need(funcs, "process_graph")
    for s in fn.body:
        if isinstance(s, ast.If) and ast.unparse(s.test) == "manager.workers":
            return any(isinstance(c.func, ast.Attribute) and c.func.attr == "commit" for c in _calls_in_order(s))
    return False


def write_cache_ops(funcs: dict[str, ast.FunctionDef]) -> tuple[list[str], bool]:
    fn = _need(funcs, "write_cache")
    ops = direct_store_ops(fn, skip_if_tests=("st is None",))
    names = [o for o, _, _ in ops]
    if names.count("PData") != 1 or any(o in ("PMeta", "PEx") for o in names):
        raise Unsupported(f"write_cache: unexpected store writes {names}")
    # reaction to a failed data write: `if not metastore.write(data_file, ...): ... return <hash>, None`
    _, call, anc = next(x for x in ops if x[0] == "PData")
    drops = False
    for a in reversed(anc):
        if isinstance(a, ast.If) and isinstance(a.test, ast.UnaryOp) and isinstance(a.test.op, ast.Not) and a.test.operand is call:
            last = a.body[-1]
            if (isinstance(last, ast.Return) and isinstance(last.value, ast.Tuple) and len(last.value.elts) == 2
                    and isinstance(last.value.elts[1], ast.Constant) and last.value.elts[1].value is None):
                drops = True
            break
    global _RM_DROPS
    _RM_DROPS = remove_reaction(ops)
    return names, drops


_RM_DROPS = True


def single_write(funcs: dict[str, ast.FunctionDef], name: str, expect: str) -> None:
    ops = [o for o, _, _ in direct_store_ops(_need(funcs, name))]
    if ops != [expect]:
        raise Unsupported(f"{name}: expected exactly one store write {expect}, found {ops}")


def loop_templates(fn: ast.FunctionDef, wc_ops: list[str]) -> tuple[list[list[str]], bool]:
    """One op list per top-level `for ... in stale` loop of fn that performs store operations.

    Returns (loops, every meta/meta_ex loop skips modules whose write_cache() returned None)."""
    loops: list[list[str]] = []
    skips_ok = True

    def events(stmts: list[ast.stmt]) -> tuple[list[str], bool]:
        ev: list[str] = []
        skip = False
        for s in stmts:
            if isinstance(s, ast.If):
                t = ast.unparse(s.test)
                b, sk1 = events(s.body)
                o, sk2 = events(s.orelse)
                if t == "meta_tuple is None" and len(s.body) == 1 and isinstance(s.body[0], ast.Continue) and not ev:
                    skip = True
                    continue
                if b and o:
                    if b != o:
                        raise Unsupported(f"line {s.lineno}: branches perform different store operations {b} / {o}")
                    ev += b
                else:
                    ev += b + o
            elif isinstance(s, (ast.For, ast.While, ast.Try, ast.With)):
                inner = [c for c in _calls_in_order(s) if call_event(c) is not None]
                if inner:
                    raise Unsupported(f"line {s.lineno}: store operation inside a nested block")
            else:
                for c in _calls_in_order(s):
                    e = call_event(c)
                    if e is not None:
                        ev += e
        return ev, skip

    def call_event(c: ast.Call) -> list[str] | None:
        f = c.func
        if isinstance(f, ast.Attribute) and f.attr == "write_cache" and not c.args:
            return list(wc_ops)
        if isinstance(f, ast.Name) and f.id == "write_cache_meta":
            return ["PMeta"]
        if isinstance(f, ast.Name) and f.id == "write_cache_meta_ex":
            return ["PEx"]
        if isinstance(f, ast.Name) and f.id == "write_cache":
            raise Unsupported(f"line {c.lineno}: direct call of write_cache")
        if isinstance(f, ast.Attribute) and f.attr == "commit_module":
            return ["PCommitM"]
        if isinstance(f, ast.Attribute) and f.attr in ("commit", "commit_path"):
            raise Unsupported(f"line {c.lineno}: {f.attr} inside {fn.name}")
        if isinstance(f, ast.Attribute) and _is_metastore(f.value) and f.attr in ("write", "remove"):
            raise Unsupported(f"line {c.lineno}: direct metastore.{f.attr} inside {fn.name}")
        return None

    for s in fn.body:
        if isinstance(s, ast.For):
            it = ast.unparse(s.iter)
            ev, skip = events(s.body)
            if not ev:
                continue
            if it not in ("stale", "zip(stale, meta_files)"):
                raise Unsupported(f"line {s.lineno}: store operations in a loop over `{it}`")
            loops.append(ev)
            if ("PMeta" in ev or "PEx" in ev) and it == "stale" and not skip:
                skips_ok = False
        else:
            for c in _calls_in_order(s):
                if call_event(c) is not None:
                    raise Unsupported(f"line {c.lineno}: store operation outside the module loops of {fn.name}")
    if not loops:
        raise Unsupported(f"{fn.name}: no store operations found")
    return loops, skips_ok


def worker_commits(wtree: ast.Module) -> tuple[bool, bool]:
    serve = _need(_funcs(wtree), "serve")
    loop = next((s for s in serve.body if isinstance(s, ast.While)), None)
    if loop is None:
        raise Unsupported("worker.serve: main loop not found")
    ev: list[tuple[str, ast.Call]] = []
    for c in _calls_in_order(loop):
        f = c.func
        if isinstance(f, ast.Name) and f.id == "process_stale_scc_interface":
            ev.append(("iface", c))
        elif isinstance(f, ast.Name) and f.id == "process_stale_scc_implementation":
            if not (len(c.args) >= 4 and isinstance(c.args[1], ast.List) and len(c.args[1].elts) == 1
                    and isinstance(c.args[3], ast.List) and len(c.args[3].elts) == 1):
                raise Unsupported(f"worker.serve line {c.lineno}: implementation phase is not called per module")
            ev.append(("impl", c))
        elif isinstance(f, ast.Attribute) and f.attr == "commit":
            ev.append(("commit", c))
        elif isinstance(f, ast.Name) and f.id in ("timed_send", "send"):
            ev.append(("send", c))
        elif isinstance(f, ast.Attribute) and f.attr in ("commit_module", "commit_path"):
            raise Unsupported(f"worker.serve line {c.lineno}: {f.attr}")
    names = [e for e, _ in ev]
    if names.count("iface") != 1 or names.count("impl") != 1:
        raise Unsupported(f"worker.serve: unexpected phase calls {names}")

    def commit_before_send(after: str) -> bool:
        i = names.index(after)
        for e in names[i + 1:]:
            if e == "commit":
                return True
            if e == "send":
                return False
        return False

    iface_commit = commit_before_send("iface")
    if iface_commit:
        # must be per SCC: inside the same `for scc in sccs` loop as the interface call
        icall = ev[names.index("iface")][1]
        ccall = ev[names.index("iface") + 1][1]
        fors = [n for n in ast.walk(loop) if isinstance(n, ast.For)]
        same = any(any(x is icall for x in ast.walk(f)) and any(x is ccall for x in ast.walk(f)) for f in fors)
        iface_commit = same
    return iface_commit, commit_before_send("impl")


def final_commit(funcs: dict[str, ast.FunctionDef]) -> bool:
    fn = _need(funcs, "build_inner")
    for t in ast.walk(fn):
        if isinstance(t, ast.Try):
            for s in t.finalbody:
                for c in _calls_in_order(s):
                    if isinstance(c.func, ast.Attribute) and c.func.attr == "commit":
                        return True
    return False


def coq_list(xs: list[str]) -> str:
    return "[" + "; ".join(xs) + "]"


def coq_bool(b: bool) -> str:
    return "true" if b else "false"


def extract() -> dict[str, object]:
    tree = ast.parse(vlib.read_repo("mypy/build.py"))
    wtree = ast.parse(vlib.read_repo("mypy/build_worker/worker.py"))
    store = store_error_handling(ast.parse(vlib.read_repo("mypy/metastore.py")))
    funcs = _funcs(tree)
    wc, drops = write_cache_ops(funcs)
    single_write(funcs, "write_cache_meta", "PMeta")
    single_write(funcs, "write_cache_meta_ex", "PEx")
    seq, sk1 = loop_templates(_need(funcs, "process_stale_scc"), wc)
    iface, sk2 = loop_templates(_need(funcs, "process_stale_scc_interface"), wc)
    impl, _ = loop_templates(_need(funcs, "process_stale_scc_implementation"), wc)
    ic, mc = worker_commits(wtree)
    return {"write_cache": wc, "seq": seq, "iface": iface, "impl": impl,
            "data_fail_drops": drops and sk1 and sk2, "rm_fail_drops": _RM_DROPS and sk1 and sk2 and store["remove_raises"],
            "store_remove_raises": store["remove_raises"],
            "coord_commit": coord_commit(funcs), "worker_iface_commit": ic, "worker_impl_commit": mc,
            "final_commit": final_commit(funcs), "snapshot_order": snapshot_order(tree, funcs), "deps": deps_cache_protocol(funcs)}


def render(p: dict[str, object]) -> str:
    loops = lambda ls: "[" + "; ".join(coq_list(l) for l in ls) + "]"  # noqa: E731
    return f"""(* GENERATED from mypy/build.py and mypy/build_worker/worker.py by tools/extractors/t04.py -- do not edit; regenerated on every run *)
From Coq Require Import List Bool.
From C04 Require Import Model Deps.
Import ListNotations.

(* mypy/metastore.py: write = low-level op in try / except -> return False (both stores, checked);
   remove lets a low-level failure raise: {coq_bool(p['store_remove_raises'])} (if false a failing removal is silently
   ignored, so p_rm_fail_drops is false whatever build.write_cache does) *)
(* store operations inside build.write_cache, in source order *)
Definition write_cache_ops : list pstep := {coq_list(p['write_cache'])}.

Definition current_protocol : protocol :=
  {{| p_seq := {loops(p['seq'])};
     p_iface := {loops(p['iface'])};
     p_impl := {loops(p['impl'])};
     p_data_fail_drops := {coq_bool(p['data_fail_drops'])};
     p_rm_fail_drops := {coq_bool(p['rm_fail_drops'])};
     p_coord_commit := {coq_bool(p['coord_commit'])};
     p_worker_iface_commit := {coq_bool(p['worker_iface_commit'])};
     p_worker_impl_commit := {coq_bool(p['worker_impl_commit'])};
     p_final_commit := {coq_bool(p['final_commit'])} |}}.

(* build.dispatch: invalidation / rewriting of the entries (process_graph) / writing of @plugins_snapshot.json *)
Definition current_snapshot_order : list snapstep := {coq_list(p['snapshot_order'])}.

(* build.write_deps_cache *)
Definition current_deps_protocol : dprotocol :=
  {{| dp_meta_last := {coq_bool(p['deps']['meta_last'])}; dp_meta_skipped_on_error := {coq_bool(p['deps']['meta_skipped_on_error'])} |}}.
"""


def generate() -> dict[str, str]:
    files = {"CacheProtocol.v": render(extract())}
    for k, v in files.items():
        vlib.write_if_changed(os.path.join(vlib.GEN, k), v)
    return files


if __name__ == "__main__":
    for k, v in generate().items():
        print(f"(* ==== {k} ==== *)\n{v}")
