"""T (property C14): regenerate coq/gen/Clamp.v from mypy/errors.py `Errors.report` (fail-closed).

Translated: the block of `Errors.report` that normalises the span before the ErrorInfo is built, i.e. every
consecutive top-level `if` statement of the function body that only reads `line/column/end_line/end_column`
and only assigns `column/end_line/end_column`:

    if end_line is None or end_line < line:  end_line = line
    if column is None:                       column = -1
    if end_column is None:                   (column == -1 ? -1 : column + 1)
    if line == end_line and end_column <= column:  end_column = column + 1

into   Definition report_clamp (line : Z) (column end_line end_column : option Z) : Z * Z * Z * Z.

`int | None` parameters are `option Z`; a test `X is None [or R]` on such a variable becomes a `match`, after
which X is a plain Z (flow-sensitive narrowing, exactly what the Python does).  The translator also checks
that the ErrorInfo is built from exactly these four variables afterwards.  Anything else: Unsupported.
"""
from __future__ import annotations

import ast
import os
import sys

sys.path.insert(0, os.path.dirname(os.path.dirname(os.path.abspath(__file__))))
import vlib
from py2gallina import Translator, Unsupported, fail

HEADER = """(* GENERATED from mypy/errors.py (Errors.report) by tools/extractors/t14.py -- do not edit; regenerated on every run *)
From Coq Require Import ZArith Bool.
Open Scope Z_scope.
"""

VARS = ("line", "column", "end_line", "end_column")


class ClampTranslator(Translator):
    """Expression translation is inherited (fail-closed); statements of the clamp block are handled here."""

    def names_in(self, e: ast.AST) -> set[str]:
        return {n.id for n in ast.walk(e) if isinstance(n, ast.Name)}

    def assigned_in(self, stmts: list[ast.stmt]) -> set[str]:
        out: set[str] = set()
        for s in stmts:
            if isinstance(s, ast.Assign) and len(s.targets) == 1 and isinstance(s.targets[0], ast.Name):
                out.add(s.targets[0].id)
            elif isinstance(s, ast.If):
                out |= self.assigned_in(s.body) | self.assigned_in(s.orelse)
            else:
                raise fail(s, "unsupported statement in clamp block")
        return out

    def is_clamp_if(self, s: ast.stmt) -> bool:
        if not isinstance(s, ast.If):
            return False
        try:
            asg = self.assigned_in(s.body) | self.assigned_in(s.orelse)
        except Unsupported:
            return False
        reads = self.names_in(s.test)
        for b in ast.walk(s):
            if isinstance(b, ast.Assign):
                reads |= self.names_in(b.value)
        return bool(asg) and asg <= {"column", "end_line", "end_column"} and reads <= set(VARS)

    # value of variable `var` after executing `stmts`, as a Gallina expression of type Z;
    # `cur` = Gallina for "not assigned on this path" (None = the variable is still optional there -> unsupported)
    def value_after(self, stmts: list[ast.stmt], var: str, env: dict[str, str], cur: str | None) -> str:
        if not stmts:
            if cur is None:
                raise Unsupported(f"{var} may stay None on some path")
            return cur
        s, rest = stmts[0], stmts[1:]
        if rest:
            raise fail(s, "more than one statement in a branch of the clamp block")
        if isinstance(s, ast.Assign):
            if s.targets[0].id != var:  # type: ignore[attr-defined]
                raise fail(s, "branch assigns another variable")
            e, t = self.expr(s.value, env)
            if t != "Z":
                raise fail(s, f"assigned value of type {t}")
            return e
        if isinstance(s, ast.If):
            return self.ite(s, var, env, cur)
        raise fail(s, "unsupported statement")

    def ite(self, s: ast.If, var: str, env: dict[str, str], cur: str | None) -> str:
        test = s.test
        # X is None            /  X is None or R   with X : option Z
        first = test.values[0] if isinstance(test, ast.BoolOp) and isinstance(test.op, ast.Or) else test
        if (isinstance(first, ast.Compare) and len(first.ops) == 1 and isinstance(first.ops[0], ast.Is)
                and isinstance(first.left, ast.Name) and isinstance(first.comparators[0], ast.Constant)
                and first.comparators[0].value is None):
            x = first.left.id
            if env.get(x) != "opt:Z":
                raise fail(test, f"`is None` on {x} of type {env.get(x)}")
            env_some = dict(env)
            env_some[x] = "Z"
            inner = f"{x}_"
            # inside the Some branch the variable is referred to by a fresh name; rename via let
            then_none = self.value_after(s.body, var, env, None if var == x else cur)
            some_cur = inner if var == x else cur
            if test is first:
                some_val = self.value_after(s.orelse, var, env_some, x if var == x else cur)
            else:
                rest_vals = test.values[1:]  # type: ignore[attr-defined]
                r = rest_vals[0] if len(rest_vals) == 1 else ast.BoolOp(op=ast.Or(), values=rest_vals)
                c, ct = self.expr(r, env_some)
                if ct != "bool":
                    raise fail(test, "non-bool disjunct")
                a = self.value_after(s.body, var, env_some, x if var == x else cur)
                b = self.value_after(s.orelse, var, env_some, x if var == x else cur)
                some_val = f"(if {c} then {a} else {b})"
            del some_cur
            return f"(match {x} with None => {then_none} | Some {inner} => (let {x} := {inner} in {some_val}) end)"
        c, ct = self.expr(test, env)
        if ct != "bool":
            raise fail(test, f"condition of type {ct}")
        a = self.value_after(s.body, var, env, cur)
        b = self.value_after(s.orelse, var, env, cur)
        return f"(if {c} then {a} else {b})"


def gen_clamp() -> str:
    src = vlib.read_repo("mypy/errors.py")
    tree = ast.parse(src)
    cls = next((n for n in tree.body if isinstance(n, ast.ClassDef) and n.name == "Errors"), None)
    if cls is None:
        raise Unsupported("class Errors not found")
    fn = next((n for n in cls.body if isinstance(n, ast.FunctionDef) and n.name == "report"), None)
    if fn is None:
        raise Unsupported("Errors.report not found")
    # signature: which of the four are optional
    ann: dict[str, str] = {}
    for a in fn.args.args + fn.args.kwonlyargs:
        if a.arg in VARS:
            txt = ast.unparse(a.annotation) if a.annotation is not None else ""
            if txt == "int":
                ann[a.arg] = "Z"
            elif txt in ("int | None", "Optional[int]"):
                ann[a.arg] = "opt:Z"
            else:
                raise Unsupported(f"parameter {a.arg} has annotation {txt!r}")
    if set(ann) != set(VARS):
        raise Unsupported(f"report() parameters changed: {sorted(ann)}")
    tr = ClampTranslator("")
    body = [s for s in fn.body if not (isinstance(s, ast.Expr) and isinstance(s.value, ast.Constant))]
    idx = [i for i, s in enumerate(body) if tr.is_clamp_if(s)]
    block = [body[i] for i in idx]
    if idx and idx != list(range(idx[0], idx[-1] + 1)):
        raise Unsupported("span-normalising statements of Errors.report are no longer consecutive")
    after = body[idx[-1] + 1:] if idx else body
    # nothing after the block may assign the four variables, and ErrorInfo must be built from them
    for s in after:
        for n in ast.walk(s):
            if isinstance(n, (ast.Assign, ast.AugAssign, ast.AnnAssign)):
                tg = n.targets if isinstance(n, ast.Assign) else [n.target]
                for t in tg:
                    if isinstance(t, ast.Name) and t.id in VARS:
                        raise Unsupported(f"{t.id} is assigned after the clamp block (line {n.lineno})")
    call = None
    for s in after:
        for n in ast.walk(s):
            if isinstance(n, ast.Call) and isinstance(n.func, ast.Name) and n.func.id == "ErrorInfo":
                call = n
    if call is None:
        raise Unsupported("ErrorInfo(...) construction not found after the clamp block")
    kw = {k.arg: k.value for k in call.keywords}
    for v in VARS:
        if not (isinstance(kw.get(v), ast.Name) and kw[v].id == v):  # type: ignore[union-attr]
            raise Unsupported(f"ErrorInfo({v}=...) is not the local variable {v}")
    env = dict(ann)
    lets = []
    for s in block:
        assert isinstance(s, ast.If)
        asg = tr.assigned_in(s.body) | tr.assigned_in(s.orelse)
        if len(asg) != 1:
            raise fail(s, "an `if` of the clamp block assigns more than one variable")
        var = next(iter(asg))
        cur = var if env[var] == "Z" else None
        val = tr.ite(s, var, env, cur)
        lets.append(f" let {var} := {val} in")
        env[var] = "Z"
    for v in VARS:
        if env[v] != "Z":
            raise Unsupported(f"{v} can still be None when the ErrorInfo is built (clamp block changed)")
    binders = " ".join(f"({v} : {'Z' if ann[v] == 'Z' else 'option Z'})" for v in VARS)
    out = [HEADER]
    out.append(f"(* {len(block)} statements translated, source lines {block[0].lineno if block else '-'}..{block[-1].end_lineno if block else '-'} *)")
    out.append(f"Definition report_clamp {binders} : Z * Z * Z * Z :=\n" + "\n".join(lets) + "\n (line, column, end_line, end_column).")
    return "\n\n".join(out) + "\n"


def gen_magic() -> str:
    """mypy/sharedparse.py: MAGIC_METHODS_POS_ARGS_ONLY (set algebra over literal sets) and the two name predicates."""
    src = vlib.read_repo("mypy/sharedparse.py")
    tree = ast.parse(src)
    env: dict[str, set[str]] = {}

    def ev(e: ast.expr) -> set[str]:
        if isinstance(e, ast.Set) and all(isinstance(x, ast.Constant) and isinstance(x.value, str) for x in e.elts):
            return {x.value for x in e.elts}  # type: ignore[attr-defined]
        if isinstance(e, ast.Name) and e.id in env:
            return env[e.id]
        if isinstance(e, ast.BinOp) and isinstance(e.op, ast.BitOr):
            return ev(e.left) | ev(e.right)
        if isinstance(e, ast.BinOp) and isinstance(e.op, ast.Sub):
            return ev(e.left) - ev(e.right)
        raise fail(e, "unsupported set expression in sharedparse.py")
    for n in tree.body:
        if isinstance(n, ast.AnnAssign) and isinstance(n.target, ast.Name) and n.value is not None:
            try:
                env[n.target.id] = ev(n.value)
            except Unsupported:
                pass
    if "MAGIC_METHODS_POS_ARGS_ONLY" not in env:
        raise Unsupported("MAGIC_METHODS_POS_ARGS_ONLY not found / not a set expression")
    # the two predicates must still have the shape the model assumes
    fns = {n.name: n for n in tree.body if isinstance(n, ast.FunctionDef)}
    want = {
        "special_function_elide_names": "return name in MAGIC_METHODS_POS_ARGS_ONLY",
        "argument_elide_name": "return name is not None and name.startswith('__') and (not name.endswith('__'))",
    }
    for nm, body in want.items():
        if nm not in fns or len(fns[nm].body) != 1 or ast.unparse(fns[nm].body[0]) != body:
            raise Unsupported(f"{nm} changed: {ast.unparse(fns[nm]) if nm in fns else 'missing'}")
    names = sorted(env["MAGIC_METHODS_POS_ARGS_ONLY"])
    for x in names:
        if not all(32 <= ord(c) < 127 for c in x) or '"' in x:
            raise Unsupported(f"odd magic method name {x!r}")
    out = ["(* GENERATED from mypy/sharedparse.py by tools/extractors/t14.py -- do not edit; regenerated on every run *)",
           "From Coq Require Import List String Bool.", "Import ListNotations.", "Open Scope string_scope.", "",
           "Definition MAGIC_METHODS_POS_ARGS_ONLY : list string :=\n  [" + ";\n   ".join('"' + x + '"' for x in names) + "].", "",
           "(* special_function_elide_names(name) = name in MAGIC_METHODS_POS_ARGS_ONLY *)",
           "Definition special_function_elide_names (name : string) : bool := existsb (String.eqb name) MAGIC_METHODS_POS_ARGS_ONLY.", "",
           "(* argument_elide_name(name) = name.startswith('__') and not name.endswith('__') *)",
           "Definition argument_elide_name (name : string) : bool :=",
           "  prefix \"__\" name && negb (String.eqb (substring (String.length name - 2) 2 name) \"__\").", ""]
    return "\n".join(out)


def generate() -> dict[str, str]:
    files = {"Clamp.v": gen_clamp(), "Magic.v": gen_magic()}
    for k, v in files.items():
        vlib.write_if_changed(os.path.join(vlib.GEN, k), v)
    return files


if __name__ == "__main__":
    for k, v in generate().items():
        print(f"(* ==== {k} ==== *)\n{v}")
