"""T10: regenerate coq/gen/Globals.v from /repo (ast over text; nothing of mypy is imported).

Lists, for the modules anchored by C10 (MODULES below),
  * every module-level mutable object: dict/list/set literals and comprehensions, calls of container constructors,
    instances of classes defined in the module (one entry per field assigned in __init__), results of calls the
    extractor does not know to be immutable (fail-closed: they must be classified), names rebound through a
    `global` statement;
  * every class-level mutable attribute (ClassVar annotated, container valued, or stored through `Cls.attr = / +=`);
  * every functools.lru_cache / functools.cache function;
together with the fact `mutated` (a store / mutating method call / augmented assignment / global rebinding of the
object is visible somewhere under mypy/), and
  * the reset entry points called by build.build / build.build_inner and the set of globals they (transitively)
    assign or clear,
  * the committed classification tools/harness/globals_class.json.
"""
from __future__ import annotations

import ast
import json
import os
import re
import sys

sys.path.insert(0, os.path.dirname(os.path.dirname(os.path.abspath(__file__))))
import vlib

EXCLUDE_DIRS = ("typeshed", "test", "__pycache__", "xml")
EXCLUDE_FILES = ("stubgen", "stubtest", "stubdoc", "stubutil", "stubinfo", "stubgenc")


def all_modules() -> list[str]:
    """Every module under mypy/ except the test suite, typeshed and the stub tools."""
    out = []
    for dp, dn, fns in os.walk(os.path.join(vlib.REPO, "mypy")):
        dn[:] = sorted(d for d in dn if d not in EXCLUDE_DIRS)
        for fn in sorted(fns):
            if fn.endswith(".py") and not fn.startswith(EXCLUDE_FILES):
                out.append(os.path.relpath(os.path.join(dp, fn), vlib.REPO))
    return out


MODULES = all_modules()
CLASS_JSON = os.path.join(vlib.VERIF, "tools/harness/globals_class.json")

CONTAINER_CALLS = {"dict", "list", "set", "defaultdict", "Counter", "OrderedDict", "deque", "bytearray", "ChainMap"}
IMMUTABLE_CALLS = {"frozenset", "tuple", "TypeVar", "ParamSpec", "TypeVarTuple", "NewType", "namedtuple", "object",
                   "int", "str", "bytes", "float", "bool", "min", "max", "len", "compile", "cast", "getattr",
                   "join", "format", "abspath", "dirname", "realpath", "get", "getenv", "startswith", "bit_length",
                   "getLogger", "Struct", "intern"}
MUTATORS = {"add", "append", "extend", "update", "pop", "popitem", "clear", "setdefault", "remove", "discard",
            "insert", "sort", "reverse", "appendleft", "popleft", "subtract", "__setitem__", "__delitem__",
            "cache_clear", "difference_update", "intersection_update", "symmetric_difference_update"}


class Unsupported(Exception):
    pass


def modname(rel: str) -> str:
    return rel[:-3].replace("/", ".")


def call_name(f: ast.AST) -> str:
    if isinstance(f, ast.Name):
        return f.id
    if isinstance(f, ast.Attribute):
        return f.attr
    return "?"


def top_statements(body: list[ast.stmt]):
    """Module-level statements, descending into if/try/with blocks (not into defs)."""
    for s in body:
        yield s
        if isinstance(s, ast.If):
            yield from top_statements(s.body)
            yield from top_statements(s.orelse)
        elif isinstance(s, ast.Try):
            yield from top_statements(s.body)
            for h in s.handlers:
                yield from top_statements(h.body)
            yield from top_statements(s.orelse)
            yield from top_statements(s.finalbody)
        elif isinstance(s, ast.With):
            yield from top_statements(s.body)


def ann_text(a: ast.AST | None) -> str:
    return ast.unparse(a) if a is not None else ""


def has_container_literal(e: ast.AST) -> bool:
    return any(isinstance(n, (ast.Dict, ast.List, ast.Set, ast.DictComp, ast.ListComp, ast.SetComp)) for n in ast.walk(e))


def value_kind(value: ast.AST | None, ann: str, classes: dict[str, ast.ClassDef]) -> str | None:
    """None = immutable / not an object we track."""
    if value is None:
        return None
    if isinstance(value, (ast.Dict, ast.List, ast.Set, ast.DictComp, ast.ListComp, ast.SetComp)):
        return "container"
    if isinstance(value, ast.Call):
        nm = call_name(value.func)
        if nm in CONTAINER_CALLS:
            return "container"
        if nm in classes:
            return "instance:" + nm
        if nm in IMMUTABLE_CALLS:
            return None
        return "call:" + nm
    if isinstance(value, ast.BinOp):
        if has_container_literal(value) or re.search(r"\b(list|dict|set|List|Dict|Set)\b", ann):
            return "container"
        # A | B, A - B, A + B over names only (e.g. sharedparse.MAGIC_METHODS): may be a set/list/dict -- list it
        leaves = [n for n in ast.walk(value) if not isinstance(n, (ast.BinOp, ast.operator, ast.expr_context))]
        if leaves and all(isinstance(n, (ast.Name, ast.Attribute)) for n in leaves):
            return "container"
        return None
    if isinstance(value, ast.IfExp):
        return value_kind(value.body, ann, classes) or value_kind(value.orelse, ann, classes)
    return None


def init_fields(cls: ast.ClassDef) -> list[str]:
    out: list[str] = []
    for n in cls.body:
        if isinstance(n, ast.FunctionDef) and n.name == "__init__":
            for s in ast.walk(n):
                tgts: list[ast.AST] = []
                if isinstance(s, ast.Assign):
                    tgts = list(s.targets)
                elif isinstance(s, ast.AnnAssign) and s.value is not None:
                    tgts = [s.target]
                for t in tgts:
                    if isinstance(t, ast.Attribute) and isinstance(t.value, ast.Name) and t.value.id == "self" and t.attr not in out:
                        out.append(t.attr)
    return out


def stateful_class(cls: ast.ClassDef) -> bool:
    """Some method other than __init__ stores to / mutates a field of self."""
    for n in cls.body:
        if isinstance(n, (ast.FunctionDef, ast.AsyncFunctionDef)) and n.name not in ("__init__", "__new__"):
            for x in ast.walk(n):
                tg: list[ast.AST] = []
                if isinstance(x, ast.Assign):
                    tg = list(x.targets)
                elif isinstance(x, (ast.AugAssign, ast.AnnAssign)):
                    tg = [x.target]
                for t in tg:
                    while isinstance(t, ast.Subscript):
                        t = t.value
                    if isinstance(t, ast.Attribute) and isinstance(t.value, ast.Name) and t.value.id == "self":
                        return True
                if isinstance(x, ast.Call) and isinstance(x.func, ast.Attribute) and x.func.attr in MUTATORS \
                        and isinstance(x.func.value, ast.Attribute) and isinstance(x.func.value.value, ast.Name) \
                        and x.func.value.value.id == "self":
                    return True
    return False


def is_lru(d: ast.AST) -> bool:
    f = d.func if isinstance(d, ast.Call) else d
    return call_name(f) in ("lru_cache", "cache")


class ModInfo:
    def __init__(self, rel: str):
        self.rel = rel
        self.mod = modname(rel)
        self.tree = ast.parse(vlib.read_repo(rel))
        self.classes = {n.name: n for n in self.tree.body if isinstance(n, ast.ClassDef)}
        self.funcs = {n.name: n for n in self.tree.body if isinstance(n, ast.FunctionDef)}
        self.global_rebound: set[str] = set()
        for n in ast.walk(self.tree):
            if isinstance(n, ast.Global):
                self.global_rebound.update(n.names)
        # imported names: local name -> (module, original name)
        self.imports: dict[str, tuple[str, str]] = {}
        for n in ast.walk(self.tree):
            if isinstance(n, ast.ImportFrom) and n.module:
                for a in n.names:
                    self.imports[a.asname or a.name] = (n.module, a.name)
        self.instances: dict[str, str] = {}      # global var -> class name


def collect_globals(mi: ModInfo) -> list[tuple[str, str]]:
    """[(id, kind)]; id = 'mypy.mod:name' / 'mypy.mod:var.field' / 'mypy.mod:Class.attr' / 'mypy.mod:func()'."""
    out: list[tuple[str, str]] = []
    seen: set[str] = set()

    def add(name: str, kind: str) -> None:
        gid = f"{mi.mod}:{name}"
        if gid not in seen:
            seen.add(gid)
            out.append((gid, kind))
    for s in top_statements(mi.tree.body):
        tgt = None
        value = None
        ann = ""
        if isinstance(s, ast.Assign) and len(s.targets) == 1 and isinstance(s.targets[0], ast.Name):
            tgt, value = s.targets[0].id, s.value
        elif isinstance(s, ast.AnnAssign) and isinstance(s.target, ast.Name):
            tgt, value, ann = s.target.id, s.value, ann_text(s.annotation)
        if tgt is not None:
            if "TypeAlias" in ann:
                continue
            k = value_kind(value, ann, mi.classes)
            if k is None and tgt in mi.global_rebound:
                k = "rebound"
            if k is None:
                continue
            if k.startswith("instance:"):
                cls = k.split(":", 1)[1]
                mi.instances[tgt] = cls
                fields = init_fields(mi.classes[cls]) if stateful_class(mi.classes[cls]) else []
                if not fields:
                    add(tgt, k)
                for f in fields:
                    add(f"{tgt}.{f}", "field:" + cls)
            else:
                add(tgt, k)
        if isinstance(s, (ast.FunctionDef, ast.AsyncFunctionDef)) and any(is_lru(d) for d in s.decorator_list):
            add(s.name + "()", "lru_cache")
    for cname, cls in mi.classes.items():
        for s in cls.body:
            if isinstance(s, ast.AnnAssign) and isinstance(s.target, ast.Name) and s.value is not None:
                ann = ann_text(s.annotation)
                k = value_kind(s.value, ann, mi.classes)
                if ("ClassVar" in ann and "Final" not in ann) or k == "container":
                    add(f"{cname}.{s.target.id}", "classattr")
            elif isinstance(s, ast.Assign) and len(s.targets) == 1 and isinstance(s.targets[0], ast.Name):
                if value_kind(s.value, "", mi.classes) == "container":
                    add(f"{cname}.{s.targets[0].id}", "classattr")
            elif isinstance(s, (ast.FunctionDef, ast.AsyncFunctionDef)) and any(is_lru(d) for d in s.decorator_list):
                add(f"{cname}.{s.name}()", "lru_cache")
    # class attributes stored through the class object anywhere in the module
    for n in ast.walk(mi.tree):
        tgts: list[ast.AST] = []
        if isinstance(n, ast.Assign):
            tgts = list(n.targets)
        elif isinstance(n, (ast.AugAssign, ast.AnnAssign)):
            tgts = [n.target]
        for t in tgts:
            if isinstance(t, ast.Attribute) and isinstance(t.value, ast.Name) and t.value.id in mi.classes:
                add(f"{t.value.id}.{t.attr}", "classattr")
    return out


def chain(e: ast.AST | None) -> tuple[str, ...] | None:
    """Dotted name chain of an expression, looking through subscripts: self.x[k].y -> (self, x, y)."""
    if isinstance(e, ast.Name):
        return (e.id,)
    if isinstance(e, ast.Attribute):
        c = chain(e.value)
        return c + (e.attr,) if c else None
    if isinstance(e, ast.Subscript):
        return chain(e.value)
    return None


class FileIndex:
    """All mutation events inside function bodies of one file (module top level runs once, at import), and the
    file's imports."""

    def __init__(self, rel: str, txt: str, tree: ast.AST | None = None):
        self.rel = rel
        self.tree = tree or ast.parse(txt)
        self.events: list[tuple[int, tuple[str, ...]]] = []
        self.from_imports: dict[tuple[str, str], set[str]] = {}      # (module, name) -> local names
        self.global_fns: dict[str, list[int]] = {}                     # name -> lines of functions rebinding it
        seen: set[int] = set()
        for n in ast.walk(self.tree):
            if isinstance(n, ast.ImportFrom) and n.module:
                for a in n.names:
                    self.from_imports.setdefault((n.module, a.name), set()).add(a.asname or a.name)
            if isinstance(n, (ast.FunctionDef, ast.AsyncFunctionDef, ast.Lambda)):
                for x in ast.walk(n):
                    if id(x) in seen:
                        continue
                    seen.add(id(x))
                    if isinstance(x, ast.Global) and not isinstance(n, ast.Lambda):
                        for g in x.names:
                            self.global_fns.setdefault(g, []).append(n.lineno)
                    tg: list[ast.AST] = []
                    if isinstance(x, (ast.Assign, ast.Delete)):
                        tg = list(x.targets)
                    elif isinstance(x, ast.AugAssign):
                        tg = [x.target]
                    for t in tg:
                        if isinstance(t, (ast.Subscript, ast.Attribute)) or (isinstance(x, ast.AugAssign) and isinstance(t, ast.Name)):
                            c = chain(t)
                            if c:
                                self.events.append((x.lineno, c))
                    if isinstance(x, ast.Call) and isinstance(x.func, ast.Attribute) and x.func.attr in MUTATORS:
                        c = chain(x.func.value)
                        if c:
                            self.events.append((x.lineno, c))


def mutation_sites(name: str, owner: ModInfo, index: dict[str, FileIndex]) -> list[str]:
    """Where the process-global `name` of module owner.mod is mutated inside a function (file:line)."""
    sites: list[str] = []
    parts = name.rstrip("()").split(".")
    base = parts[0]
    attr = parts[1] if len(parts) > 1 else None
    short = owner.mod.rsplit(".", 1)[-1]
    for rel, fi in index.items():
        same = rel == owner.rel
        local = set(fi.from_imports.get((owner.mod, base), ()))
        if same:
            local.add(base)
        for line, c in fi.events:
            hit = False
            if attr is None:
                # NAME[k] = / NAME.add() / NAME += : chain (NAME,) ; NAME.f = / NAME.f.add(): chain (NAME, f)
                if c[0] in local and len(c) <= 2:
                    hit = True
                elif len(c) >= 2 and short in c[:-1] and c[c.index(short) + 1: c.index(short) + 2] == (base,) and len(c) - c.index(short) <= 3:
                    hit = True
            else:
                if len(c) >= 2 and c[1] == attr and (c[0] in local or (same and c[0] in ("self", "cls"))) and len(c) <= 3:
                    hit = True
                elif len(c) >= 3 and base in c[:-1] and c[c.index(base) + 1: c.index(base) + 2] == (attr,):
                    hit = True
            if hit and f"{rel}:{line}" not in sites:
                sites.append(f"{rel}:{line}")
        if same and attr is None:
            for ln in fi.global_fns.get(base, []):
                sites.append(f"{rel}:{ln}(global)")
    return sites


class Resets:
    """Globals assigned / cleared by the reset entry points that build.build / build.build_inner call."""

    def __init__(self, mods: dict[str, ModInfo]):
        self.mods = mods
        self.reset: list[str] = []
        self.calls: list[str] = []
        self.unconditional: list[str] = []      # reset calls executed on EVERY path through build()/build_inner()
        self.visited: set[tuple[str, str]] = set()

    def add(self, gid: str) -> None:
        if gid not in self.reset:
            self.reset.append(gid)

    def resolve_class(self, mi: ModInfo, cname: str) -> tuple[ModInfo, str] | None:
        if cname in mi.classes:
            return mi, cname
        if cname in mi.imports:
            m, orig = mi.imports[cname]
            tm = self.mods.get(m)
            if tm and orig in tm.classes:
                return tm, orig
        return None

    def resolve_instance(self, mi: ModInfo, var: str) -> tuple[ModInfo, str, str] | None:
        """global instance variable -> (module, var, class)"""
        if var in mi.instances:
            return mi, var, mi.instances[var]
        if var in mi.imports:
            m, orig = mi.imports[var]
            tm = self.mods.get(m)
            if tm and orig in tm.instances:
                return tm, orig, tm.instances[orig]
        return None

    def walk_body(self, mi: ModInfo, fn: ast.FunctionDef, self_obj: tuple[ModInfo, str, str] | None) -> None:
        key = (mi.mod, fn.name + (":" + self_obj[1] if self_obj else ""))
        if key in self.visited:
            return
        self.visited.add(key)
        globs = {g for n in ast.walk(fn) if isinstance(n, ast.Global) for g in n.names}
        for n in ast.walk(fn):
            tgts: list[ast.AST] = []
            if isinstance(n, ast.Assign):
                tgts = list(n.targets)
            elif isinstance(n, (ast.AugAssign, ast.AnnAssign)):
                tgts = [n.target]
            for t in tgts:
                if isinstance(t, ast.Name) and t.id in globs:
                    self.add(f"{mi.mod}:{t.id}")
                elif isinstance(t, ast.Attribute) and isinstance(t.value, ast.Name):
                    if t.value.id == "self" and self_obj:
                        self.add(f"{self_obj[0].mod}:{self_obj[1]}.{t.attr}")
                    else:
                        rc = self.resolve_class(mi, t.value.id)
                        if rc:
                            self.add(f"{rc[0].mod}:{rc[1]}.{t.attr}")
                        ri = self.resolve_instance(mi, t.value.id)
                        if ri:
                            self.add(f"{ri[0].mod}:{ri[1]}.{t.attr}")
            if isinstance(n, ast.Call):
                f = n.func
                if isinstance(f, ast.Attribute) and f.attr == "clear" and isinstance(f.value, ast.Attribute) \
                        and isinstance(f.value.value, ast.Name):
                    if f.value.value.id == "self" and self_obj:
                        self.add(f"{self_obj[0].mod}:{self_obj[1]}.{f.value.attr}")
                    else:
                        ri = self.resolve_instance(mi, f.value.value.id)
                        if ri:
                            self.add(f"{ri[0].mod}:{ri[1]}.{f.value.attr}")
                elif isinstance(f, ast.Attribute) and f.attr in ("clear", "cache_clear") and isinstance(f.value, ast.Name):
                    if f.value.id in mi.funcs:
                        self.add(f"{mi.mod}:{f.value.id}()")
                    elif f.value.id in mi.imports and mi.imports[f.value.id][0] in self.mods:
                        self.add(f"{mi.imports[f.value.id][0]}:{mi.imports[f.value.id][1]}" +
                                 ("()" if f.attr == "cache_clear" else ""))
                    else:
                        self.add(f"{mi.mod}:{f.value.id}")
                self.follow(mi, f, self_obj)

    def follow(self, mi: ModInfo, f: ast.AST, self_obj: tuple[ModInfo, str, str] | None) -> None:
        if isinstance(f, ast.Name):
            if f.id in mi.funcs:
                self.walk_body(mi, mi.funcs[f.id], None)
            elif f.id in mi.imports:
                m, orig = mi.imports[f.id]
                tm = self.mods.get(m)
                if tm and orig in tm.funcs:
                    self.walk_body(tm, tm.funcs[orig], None)
        elif isinstance(f, ast.Attribute) and isinstance(f.value, ast.Name):
            obj = self_obj if f.value.id == "self" else self.resolve_instance(mi, f.value.id)
            if obj:
                cls = obj[0].classes[obj[2]]
                for m in cls.body:
                    if isinstance(m, ast.FunctionDef) and m.name == f.attr:
                        self.walk_body(obj[0], m, obj)

    def from_build(self) -> None:
        b = self.mods["mypy.build"]
        for fname in ("build", "build_inner"):
            fn = b.funcs.get(fname)
            if fn is None:
                raise Unsupported(f"mypy/build.py: function {fname} not found")
            for n in ast.walk(fn):
                if isinstance(n, ast.Call) and "reset" in ast.unparse(n.func):
                    nm = ast.unparse(n.func)
                    if nm not in self.calls:
                        self.calls.append(nm)
                    self.follow(b, n.func, None)
            # A call under an `if` / loop / handler / nested def, or after a `return`, is not a reset: only an expression
            # statement directly in the function body (or in the body of a top-level `with` / `try:` block, whose
            # statements run unless something raises) with no earlier `return` anywhere in the function counts.
            def straight(body: list[ast.stmt]):
                for st in body:
                    yield st
                    if isinstance(st, ast.With):
                        yield from straight(st.body)
                    elif isinstance(st, ast.Try):
                        yield from straight(st.body)
            returns = [r.lineno for r in ast.walk(fn) if isinstance(r, ast.Return)
                       and not any(r in ast.walk(d) for d in ast.walk(fn) if isinstance(d, (ast.FunctionDef, ast.Lambda)) and d is not fn)]
            for st in straight(fn.body):
                if isinstance(st, ast.Expr) and isinstance(st.value, ast.Call) and "reset" in ast.unparse(st.value.func):
                    if not any(ln < st.lineno for ln in returns):
                        nm = ast.unparse(st.value.func)
                        if nm not in self.unconditional:
                            self.unconditional.append(nm)


# ------------------------------------------------------------------ the sorted choke points, syntactically

def find_func(tree: ast.AST, qual: str) -> ast.FunctionDef:
    cur: ast.AST = tree
    for part in qual.split("."):
        nxt = None
        for n in getattr(cur, "body", []):
            if isinstance(n, (ast.FunctionDef, ast.ClassDef)) and n.name == part:
                nxt = n
        if nxt is None:
            raise Unsupported(f"{qual}: {part} not found")
        cur = nxt
    if not isinstance(cur, ast.FunctionDef):
        raise Unsupported(f"{qual} is not a function")
    return cur


def is_sorted_call(e: ast.AST) -> bool:
    return isinstance(e, ast.Call) and isinstance(e.func, ast.Name) and e.func.id == "sorted"


def for_iters(fn: ast.AST) -> list[ast.AST]:
    return [n.iter for n in ast.walk(fn) if isinstance(n, (ast.For, ast.comprehension))]


def sorted_sites() -> tuple[list[tuple[str, bool]], bool]:
    """(site, is it still canonicalised the way the Coq model assumes) for every modelled choke point."""
    b = ast.parse(vlib.read_repo("mypy/build.py"))
    nd = ast.parse(vlib.read_repo("mypy/nodes.py"))
    ty = ast.parse(vlib.read_repo("mypy/types.py"))
    ut = ast.parse(vlib.read_repo("mypy/util.py"))
    er = ast.parse(vlib.read_repo("mypy/errors.py"))
    out: list[tuple[str, bool]] = []
    f = find_func(b, "deps_to_json")
    comps = [n for n in ast.walk(f) if isinstance(n, ast.DictComp)]
    deps_sorted = len(comps) == 1 and is_sorted_call(comps[0].value)
    out.append(("build.deps_to_json: {k: sorted(v)}", deps_sorted))
    f = find_func(b, "State.patch_indirect_dependencies")
    out.append(("build.State.patch_indirect_dependencies: for dep in sorted(encountered - existing_deps)",
                any(is_sorted_call(i) and "encountered" in ast.unparse(i) for i in for_iters(f))))
    f = find_func(b, "transitive_dep_hash")
    assigns = [n for n in ast.walk(f) if isinstance(n, ast.Assign) and ast.unparse(n.targets[0]) == "all_direct_deps"]
    out.append(("build.transitive_dep_hash: all_direct_deps = sorted(...) on both paths",
                len(assigns) == 2 and all(is_sorted_call(a.value) for a in assigns)))
    f = find_func(b, "order_ascc")
    rets = [n.value for n in ast.walk(f) if isinstance(n, ast.Return) and n.value is not None and is_sorted_call(n.value)]
    out.append(("build.order_ascc: sorted(ascc, key=lambda id: -graph[id].order)",
                len(rets) == 1 and is_sorted_call(rets[0]) and "-graph[id].order" in ast.unparse(rets[0])))
    f = find_func(b, "sorted_components")
    out.append(("build.sorted_components: sorted(ready, key=-min order)",
                any(is_sorted_call(n) and ast.unparse(n.args[0]) == "ready" and "-min(" in ast.unparse(n) for n in ast.walk(f))))
    # replaying cached errors of a fresh SCC: set-iteration order may be used only when at most ONE module has errors
    f = find_func(b, "find_stale_sccs")
    ifs = [n for n in ast.walk(f) if isinstance(n, ast.If) and "len(mods_with_errors)" in ast.unparse(n.test)]
    out.append(("build.find_stale_sccs: unordered fast path only if len(mods_with_errors) <= 1, else order_ascc_ex",
                len(ifs) == 1 and ast.unparse(ifs[0].test) == "len(mods_with_errors) <= 1"
                and "order_ascc_ex" in ast.unparse(ifs[0].orelse[0] if ifs[0].orelse else ast.Pass())
                and any("order_ascc_ex" in ast.unparse(x) for x in ifs[0].orelse)))
    f = find_func(nd, "SymbolTable.write")
    out.append(("nodes.SymbolTable.write: for key in sorted(self)",
                any(is_sorted_call(i) and ast.unparse(i.args[0]) == "self" for i in for_iters(f))))
    f = find_func(ty, "write_type_map")
    # since the C11 fix write_type_map keeps the dict's insertion order on purpose (TypedDict item order is visible in
    # messages): NOT a sorted choke point any more; its bytes are a function of the insertion order, which is source order
    out.append(("types.write_type_map: for key in value (insertion order kept, not modelled as a sorted choke point)",
                [ast.unparse(i) for i in for_iters(f)] == ["value"]))
    f = find_func(ut, "json_dumps")
    src = ast.unparse(f)
    dumps = [n for n in ast.walk(f) if isinstance(n, ast.Call) and isinstance(n.func, ast.Attribute) and n.func.attr == "dumps"]
    ok = True
    for d in dumps:
        if ast.unparse(d.func.value) == "json":
            ok = ok and any(k.arg == "sort_keys" and ast.unparse(k.value) == "True" for k in d.keywords)
    opts = [n for n in ast.walk(f) if isinstance(n, ast.Assign) and ast.unparse(n.targets[0]) == "dumps_option"]
    ok = ok and len(opts) >= 1 and all("OPT_SORT_KEYS" in ast.unparse(o.value) for o in opts) and "option=dumps_option" in src
    out.append(("util.json_dumps: sort_keys on every path", ok and len(dumps) >= 3))
    # str sets written through write_str_list / serialised into dict values
    for tree, mod, attrs in ((nd, "nodes", ["future_import_flags", "slots"]), (ty, "types", ["immutable", "required_keys", "readonly_keys"])):
        for a in attrs:
            good = 0
            bad = 0
            for n in ast.walk(tree):
                if isinstance(n, ast.Call) and call_name(n.func) == "write_str_list" and len(n.args) == 2 and f"self.{a}" in ast.unparse(n.args[1]):
                    if is_sorted_call(n.args[1]):
                        good += 1
                    else:
                        bad += 1
                if isinstance(n, ast.Dict):
                    for k, v in zip(n.keys, n.values):
                        if isinstance(k, ast.Constant) and k.value == a and f"self.{a}" in ast.unparse(v):
                            if any(is_sorted_call(x) for x in ast.walk(v)):
                                good += 1
                            else:
                                bad += 1
            out.append((f"{mod}: self.{a} written as sorted(...) (write and serialize)", good >= 2 and bad == 0))
    f = find_func(er, "Errors.sort_messages")
    keys = [ast.unparse(k.value) for n in ast.walk(f) if is_sorted_call(n) for k in n.keywords if k.arg == "key"]
    out.append(("errors.Errors.sort_messages: key=lambda x: (x.line, x.column)", keys == ["lambda x: (x.line, x.column)"]))
    f = find_func(er, "Errors.sort_within_context")
    keys = [ast.unparse(k.value) for n in ast.walk(f) if is_sorted_call(n) for k in n.keywords if k.arg == "key"]
    out.append(("errors.Errors.sort_within_context: key=lambda x: x.priority", keys == ["lambda x: x.priority"]))
    return out, deps_sorted


def render_sites() -> str:
    sites, deps_sorted = sorted_sites()
    out = ["(* GENERATED from mypy/build.py, nodes.py, types.py, util.py, errors.py by tools/extractors/t10.py -- do not edit *)",
           "From Coq Require Import List String Bool.", "Import ListNotations.", "Open Scope string_scope.", "",
           "(* does the code at each modelled choke point still canonicalise the order the way C10/Model.v assumes? *)",
           "Definition sorted_sites : list (string * bool) := ["]
    out.append(";\n".join(f"  ({coq_str(n)}, {'true' if b else 'false'})" for n, b in sites))
    out.append("].\n\n(* build.deps_to_json sorts the targets of every trigger *)")
    out.append(f"Definition deps_to_json_sorted : bool := {'true' if deps_sorted else 'false'}.\n")
    return "\n".join(out)


# ------------------------------------------------------------------ per-instance containers / memos of the build

INSTANCE_CLASSES = [("mypy/build.py", "BuildManager", ["__init__"], ("manager", "mgr")),
                    ("mypy/modulefinder.py", "FindModuleCache", ["__init__", "clear"], ("find_module_cache", "fmc", "finder")),
                    ("mypy/fscache.py", "FileSystemCache", ["__init__", "flush"], ("fscache",))]


def container_fields(cls: ast.ClassDef, methods: list[str]) -> list[str]:
    out: list[str] = []
    for m in cls.body:
        if isinstance(m, ast.FunctionDef) and m.name in methods:
            for st in ast.walk(m):
                tg = val = None
                ann = ""
                if isinstance(st, ast.Assign) and len(st.targets) == 1:
                    tg, val = st.targets[0], st.value
                elif isinstance(st, ast.AnnAssign) and st.value is not None:
                    tg, val, ann = st.target, st.value, ast.unparse(st.annotation)
                if isinstance(tg, ast.Attribute) and isinstance(tg.value, ast.Name) and tg.value.id == "self":
                    if isinstance(val, (ast.Dict, ast.Set, ast.List)) or (isinstance(val, ast.Call) and call_name(val.func) in CONTAINER_CALLS) \
                            or re.search(r"\b(dict|set|list|defaultdict)\[", ann):
                        if tg.attr not in out:
                            out.append(tg.attr)
    return out


def write_events(trees: dict[str, ast.AST]) -> list[tuple[str, str, str | None, tuple[str, ...], str]]:
    """One pass: every statement inside a function that stores into / mutates an attribute-chain object
    (local aliases `x = a.b.c` resolved): (file, function qualname, enclosing class, chain, statement text)."""
    ev: list[tuple[str, str, str | None, tuple[str, ...], str]] = []
    for rel, tree in trees.items():
        def visit(body: list[ast.stmt], qual: str, in_cls: str | None) -> None:
            for n in body:
                if isinstance(n, ast.ClassDef):
                    visit(n.body, n.name, n.name)
                elif isinstance(n, (ast.FunctionDef, ast.AsyncFunctionDef)):
                    q = f"{qual}.{n.name}" if qual else n.name
                    nodes = list(ast.walk(n))
                    alias: dict[str, tuple[str, ...]] = {}
                    for x in nodes:
                        if isinstance(x, ast.Assign) and len(x.targets) == 1 and isinstance(x.targets[0], ast.Name) \
                                and isinstance(x.value, ast.Attribute):
                            c = chain(x.value)
                            if c and len(c) >= 2:
                                alias[x.targets[0].id] = c

                    def res(c: tuple[str, ...] | None) -> tuple[str, ...] | None:
                        if c and len(c) == 1:
                            return alias.get(c[0])
                        return c
                    for x in nodes:
                        cs: list[tuple[str, ...] | None] = []
                        if isinstance(x, (ast.Assign, ast.AugAssign, ast.Delete)):
                            tg = x.targets if isinstance(x, (ast.Assign, ast.Delete)) else [x.target]
                            for t in tg:
                                if isinstance(t, ast.Subscript):
                                    cs.append(res(chain(t.value)))
                                elif isinstance(x, ast.AugAssign):
                                    cs.append(res(chain(t)))
                        elif isinstance(x, ast.Expr) and isinstance(x.value, ast.Call) and isinstance(x.value.func, ast.Attribute) \
                                and x.value.func.attr in MUTATORS:
                            cs.append(res(chain(x.value.func.value)))
                        for c in cs:
                            if c and len(c) >= 2:
                                ev.append((rel, q, in_cls, c, " ".join(ast.unparse(x).split())[:150]))
        visit(tree.body, "", None)
    return ev


def write_sites(attr: str, rel_cls: str, cname: str, bases: tuple[str, ...], events: list) -> list[str]:
    sites = []
    for rel, q, in_cls, c, text in events:
        if c[-1] != attr:
            continue
        if c[-2] == "self":
            if not (rel == rel_cls and in_cls == cname):
                continue
        elif c[-2] not in bases:
            continue
        sites.append(f"{rel}:{q}: {text}")
    return sorted(set(sites))


def instance_state() -> dict:
    trees: dict[str, ast.AST] = {}
    for rel in all_modules():
        trees[rel] = ast.parse(vlib.read_repo(rel))
    fields: list[tuple[str, list[str]]] = []
    events = write_events(trees)
    for rel, cname, methods, bases in INSTANCE_CLASSES:
        cls = [n for n in trees[rel].body if isinstance(n, ast.ClassDef) and n.name == cname]
        if not cls:
            raise Unsupported(f"{rel}: class {cname} not found")
        for f in container_fields(cls[0], methods):
            fields.append((f"{cname}.{f}", write_sites(f, rel, cname, bases, events)))
    b = trees["mypy/build.py"]
    bi = find_func(b, "build_inner")
    creators = [
        ("build.build_inner constructs a new BuildManager on its straight-line path",
         any(isinstance(st, ast.Assign) and isinstance(st.value, ast.Call) and call_name(st.value.func) == "BuildManager" for st in bi.body)),
        ("build.BuildManager.__init__ constructs a new FindModuleCache",
         any(isinstance(st, ast.Assign) and isinstance(st.value, ast.Call) and call_name(st.value.func) == "FindModuleCache"
             and ast.unparse(st.targets[0]) == "self.find_module_cache" for st in find_func(b, "BuildManager.__init__").body)),
        ("build.build / build_inner creates a FileSystemCache when the caller passes none",
         any(isinstance(st, ast.Assign) and "FileSystemCache()" in ast.unparse(st.value) and ast.unparse(st.targets[0]) == "fscache"
             for fn in ("build", "build_inner") for st in find_func(b, fn).body)),
        ("main.main creates a FileSystemCache per call",
         any(isinstance(st, ast.Assign) and ast.unparse(st.value) == "FileSystemCache()" for st in ast.walk(find_func(trees["mypy/main.py"], "main")))),
    ]
    return {"fields": fields, "creators": creators}


def load_instance_classification() -> dict[str, dict]:
    try:
        return json.load(open(CLASS_JSON)).get("instance_state", {})
    except FileNotFoundError:
        return {}


def coq_list(xs: list[str]) -> str:
    return "[" + "; ".join(coq_str(x) for x in xs) + "]"


def render_instance(ist: dict, cl: dict[str, dict]) -> str:
    out = ["(* GENERATED by tools/extractors/t10.py from mypy/build.py, modulefinder.py, fscache.py, main.py and"
           " tools/harness/globals_class.json (section instance_state) -- do not edit *)",
           "From Coq Require Import List String Bool.", "Import ListNotations.", "Open Scope string_scope.", "",
           "Inductive iclass := PerBuildInstance | OrderSensitiveMemo.", "",
           "(* container attributes of the per-build objects, with every statement that writes into them *)",
           "Definition instance_fields : list (string * list string) := ["]
    out.append(";\n".join(f"  ({coq_str(f)}, {coq_list(w)})" for f, w in ist["fields"]))
    out.append("].\n\n(* is each owner object created anew for every build? *)\nDefinition instance_creators : list (string * bool) := [")
    out.append(";\n".join(f"  ({coq_str(n)}, {'true' if b else 'false'})" for n, b in ist["creators"]))
    out.append("].\n\n(* reviewed classification; for memos: the reviewed write sites *)")
    out.append("Definition instance_classification : list (string * (iclass * list string)) := [")
    rows = []
    for f, v in cl.items():
        c = {"per_build_instance": "PerBuildInstance", "order_sensitive_memo": "OrderSensitiveMemo"}.get(v.get("class", ""))
        if c is None:
            raise Unsupported(f"globals_class.json instance_state: {f}: unknown class {v.get('class')!r}")
        if c == "OrderSensitiveMemo" and not v.get("reason"):
            raise Unsupported(f"globals_class.json instance_state: {f}: order_sensitive_memo needs a reason")
        rows.append(f"  ({coq_str(f)}, ({c}, {coq_list(v.get('writes', []))}))")
    out.append(";\n".join(rows))
    out.append("].\n")
    return "\n".join(out)


# ------------------------------------------------------------------ every iteration in the functions that produce
# cache records / processing orders: sorted, ordered origin, order-insensitive fold, or a listed exception

ITER_FUNCS = {
    "mypy/build.py": ["write_deps_cache", "deps_to_json", "invert_deps", "transitive_dep_hash",
                      "State.patch_indirect_dependencies", "State.suppressed_deps_opts", "find_stale_sccs", "State.write_cache",
                      "State.dependency_priorities", "State.dependency_lines", "order_ascc", "order_ascc_ex",
                      "sorted_components", "sorted_components_inner", "deps_filtered"],
    "mypy/graph_utils.py": ["prepare_sccs"],
    "mypy/nodes.py": ["SymbolTable.write", "SymbolTable.serialize", "TypeInfo.protocol_members"],
    # round 6: message generation
    "mypy/errors.py": ["Errors.file_messages", "Errors.new_messages", "Errors.generate_unused_ignore_errors",
                       "Errors.generate_ignore_without_code_errors", "Errors.remove_duplicates", "Errors.render_messages",
                       "Errors.targets"],
    "mypy/messages.py": ["best_matches", "pretty_seq", "format_key_list", "format_item_name_list",
                         "MessageBuilder.unexpected_typeddict_keys", "MessageBuilder.report_protocol_problems",
                         "MessageBuilder.pretty_overload", "MessageBuilder.cannot_instantiate_abstract_class",
                         "get_missing_protocol_members", "get_conflict_protocol_types", "get_bad_protocol_flags"],
    "mypy/server/deps.py": ["merge_dependencies"],
    "mypy/typestate.py": ["TypeState.update_protocol_deps", "TypeState._snapshot_protocol_deps"],
}


def iteration_sites() -> list[tuple[str, bool]]:
    """(site id, iterable is syntactically a sorted(...) value) for every for-loop / comprehension of ITER_FUNCS."""
    out: dict[str, bool] = {}
    for rel, fs in ITER_FUNCS.items():
        tree = ast.parse(vlib.read_repo(rel))
        for q in fs:
            f = find_func(tree, q)
            sorted_names: dict[str, bool] = {}
            for x in ast.walk(f):
                if isinstance(x, ast.Assign) and len(x.targets) == 1 and isinstance(x.targets[0], ast.Name):
                    nm = x.targets[0].id
                    sorted_names[nm] = sorted_names.get(nm, True) and is_sorted_call(x.value)
            for x in ast.walk(f):
                its: list[ast.AST] = []
                if isinstance(x, ast.For):
                    its = [x.iter]
                elif isinstance(x, (ast.ListComp, ast.SetComp, ast.DictComp, ast.GeneratorExp)):
                    its = [g.iter for g in x.generators]
                for it in its:
                    is_s = is_sorted_call(it) or (isinstance(it, ast.Name) and sorted_names.get(it.id, False))
                    sid = f"{rel}:{q}: " + " ".join(ast.unparse(it).split())[:100]
                    out[sid] = out.get(sid, True) and is_s
    return sorted(out.items())


def load_iter_classification() -> dict[str, dict]:
    try:
        return json.load(open(CLASS_JSON)).get("iteration_sites", {})
    except FileNotFoundError:
        return {}


ITER_CLASSES = {"sorted": "ISorted", "ordered_origin": "IOrderedOrigin", "order_insensitive": "IOrderInsensitive", "exception": "IException"}


def render_iter(sites: list[tuple[str, bool]], cl: dict[str, dict]) -> str:
    out = ["(* GENERATED by tools/extractors/t10.py (iteration sites of the functions that produce cache records and"
           " processing orders) and tools/harness/globals_class.json (section iteration_sites) -- do not edit *)",
           "From Coq Require Import List String Bool.", "Import ListNotations.", "Open Scope string_scope.", "",
           "Inductive itclass := ISorted | IOrderedOrigin | IOrderInsensitive | IException.", "",
           "(* (site, the iterable is syntactically sorted(...) or a name only ever bound to sorted(...)) *)",
           "Definition iteration_sites : list (string * bool) := ["]
    out.append(";\n".join(f"  ({coq_str(n)}, {'true' if b else 'false'})" for n, b in sites))
    out.append("].\n\nDefinition iteration_classification : list (string * itclass) := [")
    rows = []
    for k, v in cl.items():
        c = ITER_CLASSES.get(v.get("class", ""))
        if c is None:
            raise Unsupported(f"globals_class.json iteration_sites: {k}: unknown class {v.get('class')!r}")
        if c != "ISorted" and not v.get("reason"):
            raise Unsupported(f"globals_class.json iteration_sites: {k}: class {v['class']} needs a reason")
        rows.append(f"  ({coq_str(k)}, {c})")
    out.append(";\n".join(rows))
    out.append("].\n\n(* sites classified `exception` = known findings *)\nDefinition iteration_exceptions : list string := [")
    out.append(";\n".join("  " + coq_str(k) for k, v in cl.items() if v.get("class") == "exception"))
    out.append("].\n")
    return "\n".join(out)


def coq_str(s: str) -> str:
    return '"' + s.replace('"', '""') + '"'


CLASSES = {"reset_per_build": "ResetPerBuild", "immutable_after_import": "ImmutableAfterImport",
           "cache_semantically_transparent": "CacheTransparent", "finding": "Finding"}


def extract() -> dict:
    modules = all_modules()
    mods = {modname(r): ModInfo(r) for r in modules}
    index: dict[str, FileIndex] = {}
    root = os.path.join(vlib.REPO, "mypy")
    for dp, dn, fns in os.walk(root):
        dn[:] = [d for d in dn if d not in EXCLUDE_DIRS]
        for fn in fns:
            if fn.endswith(".py"):
                p = os.path.join(dp, fn)
                rel = os.path.relpath(p, vlib.REPO)
                mi = mods.get(modname(rel))
                index[rel] = FileIndex(rel, "" if mi else open(p, encoding="utf-8").read(), mi.tree if mi else None)
    globs: list[tuple[str, str, list[str]]] = []
    for mi in mods.values():
        for gid, kind in collect_globals(mi):
            name = gid.split(":", 1)[1]
            sites = [] if kind == "lru_cache" else mutation_sites(name, mi, index)
            globs.append((gid, kind, sites))
    rs = Resets(mods)
    rs.from_build()
    return {"globals": globs, "reset": rs.reset, "calls": rs.calls, "unconditional": rs.unconditional, "modules": modules}


def load_classification() -> dict[str, dict[str, str]]:
    try:
        return json.load(open(CLASS_JSON))["globals"]
    except FileNotFoundError:
        return {}


def render(ex: dict, cl: dict[str, dict[str, str]]) -> str:
    out = [f"(* GENERATED from the {len(ex['modules'])} modules under mypy/ (without test/, typeshed/, stub tools) and tools/harness/globals_class.json by tools/extractors/t10.py"
           " -- do not edit; regenerated on every run *)",
           "From Coq Require Import List String Bool.", "Import ListNotations.", "Open Scope string_scope.", "",
           "Inductive gclass := ResetPerBuild | ImmutableAfterImport | CacheTransparent | Finding.", "",
           "(* (id, (kind, mutated somewhere under mypy/)) *)",
           "Definition globals : list (string * (string * bool)) := ["]
    out.append(";\n".join(f"  ({coq_str(g)}, ({coq_str(k)}, {'true' if s else 'false'}))" for g, k, s in ex["globals"]))
    out.append("].\n\n(* globals assigned / cleared by the reset entry points called from build.build / build_inner *)")
    out.append("Definition reset_set : list string := [")
    out.append(";\n".join("  " + coq_str(r) for r in ex["reset"]))
    out.append("].\n\nDefinition build_reset_calls : list string := [")
    out.append(";\n".join("  " + coq_str(r) for r in ex["calls"]))
    out.append("].\n\n(* the reset calls that are executed on every path (not under if / loop / handler / after a return) *)")
    out.append("Definition build_reset_calls_unconditional : list string := [")
    out.append(";\n".join("  " + coq_str(r) for r in ex["unconditional"]))
    out.append("].\n\n(* tools/harness/globals_class.json *)\nDefinition classification : list (string * gclass) := [")
    rows = []
    for g, v in cl.items():
        c = CLASSES.get(v.get("class", ""))
        if c is None:
            raise Unsupported(f"globals_class.json: {g}: unknown class {v.get('class')!r}")
        if c in ("CacheTransparent", "Finding") and not v.get("reason"):
            raise Unsupported(f"globals_class.json: {g}: class {v['class']} needs a reason")
        rows.append(f"  ({coq_str(g)}, {c})")
    out.append(";\n".join(rows))
    out.append("].\n")
    return "\n".join(out)


def generate() -> dict[str, str]:
    ex = extract()
    txt = render(ex, load_classification())
    vlib.write_if_changed(os.path.join(vlib.GEN, "Globals.v"), txt)
    st = render_sites()
    vlib.write_if_changed(os.path.join(vlib.GEN, "SortedSites.v"), st)
    it = render_instance(instance_state(), load_instance_classification())
    vlib.write_if_changed(os.path.join(vlib.GEN, "InstanceState.v"), it)
    its = render_iter(iteration_sites(), load_iter_classification())
    vlib.write_if_changed(os.path.join(vlib.GEN, "IterSites.v"), its)
    return {"Globals.v": txt, "SortedSites.v": st, "InstanceState.v": it, "IterSites.v": its}


if __name__ == "__main__":
    ex = extract()
    if len(sys.argv) > 1 and sys.argv[1] == "--list":
        cl = load_classification()
        for g, k, s in ex["globals"]:
            print(f"{g:60s} {k:22s} {'RESET' if g in ex['reset'] else '     '} {cl.get(g, {}).get('class', 'UNCLASSIFIED'):32s} {' '.join(s[:4])}")
        print("reset set:", ex["reset"])
        print("reset calls in build/build_inner:", ex["calls"])
    else:
        print(render(ex, load_classification()))
