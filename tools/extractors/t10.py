"""T10: regenerate coq/gen/Globals.v from /repo (ast over text; nothing of mypy is imported).

Lists, for the modules anchored by C10 (MODULES below),
  * every module-level mutable object: dict/list/set literals and comprehensions, calls of container constructors,
    instances of classes defined in the module (one entry per field assigned in __init__), results of calls the
    extractor does not know to be immutable (fail-closed: they must be classified), names rebound through a
    `global` statement;
  * every class-level mutable attribute (ClassVar annotated, container valued, or stored through `Cls.attr = / +=`);
  * every functools.lru_cache / functools.cache function;
together with the fact `mutated` (a store / mutating method call / augmented assignment / global rebinding of the
object is visible somewhere under mypy/), and
  * the reset entry points called by build.build / build.build_inner and the set of globals they (transitively)
    assign or clear,
  * the committed classification tools/harness/globals_class.json.
"""
from __future__ import annotations

import ast
import json
import os
import re
import sys

sys.path.insert(0, os.path.dirname(os.path.dirname(os.path.abspath(__file__))))
import vlib

MODULES = ["mypy/typestate.py", "mypy/types.py", "mypy/nodes.py", "mypy/build.py", "mypy/errors.py",
           "mypy/util.py", "mypy/graph_utils.py", "mypy/indirection.py", "mypy/server/update.py",
           "mypy/state.py", "mypy/known_modules.py", "mypy/modulefinder.py", "mypy/find_sources.py"]
CLASS_JSON = os.path.join(vlib.VERIF, "tools/harness/globals_class.json")

CONTAINER_CALLS = {"dict", "list", "set", "defaultdict", "Counter", "OrderedDict", "deque", "bytearray", "ChainMap"}
IMMUTABLE_CALLS = {"frozenset", "tuple", "TypeVar", "ParamSpec", "TypeVarTuple", "NewType", "namedtuple", "object",
                   "int", "str", "bytes", "float", "bool", "min", "max", "len", "compile", "cast", "getattr",
                   "join", "format", "abspath", "dirname", "realpath", "get", "getenv", "startswith", "bit_length",
                   "getLogger", "Struct", "intern"}
MUTATORS = {"add", "append", "extend", "update", "pop", "popitem", "clear", "setdefault", "remove", "discard",
            "insert", "sort", "reverse", "appendleft", "popleft", "subtract", "__setitem__", "__delitem__",
            "cache_clear", "difference_update", "intersection_update", "symmetric_difference_update"}


class Unsupported(Exception):
    pass


def modname(rel: str) -> str:
    return rel[:-3].replace("/", ".")


def call_name(f: ast.AST) -> str:
    if isinstance(f, ast.Name):
        return f.id
    if isinstance(f, ast.Attribute):
        return f.attr
    return "?"


def top_statements(body: list[ast.stmt]):
    """Module-level statements, descending into if/try/with blocks (not into defs)."""
    for s in body:
        yield s
        if isinstance(s, ast.If):
            yield from top_statements(s.body)
            yield from top_statements(s.orelse)
        elif isinstance(s, ast.Try):
            yield from top_statements(s.body)
            for h in s.handlers:
                yield from top_statements(h.body)
            yield from top_statements(s.orelse)
            yield from top_statements(s.finalbody)
        elif isinstance(s, ast.With):
            yield from top_statements(s.body)


def ann_text(a: ast.AST | None) -> str:
    return ast.unparse(a) if a is not None else ""


def has_container_literal(e: ast.AST) -> bool:
    return any(isinstance(n, (ast.Dict, ast.List, ast.Set, ast.DictComp, ast.ListComp, ast.SetComp)) for n in ast.walk(e))


def value_kind(value: ast.AST | None, ann: str, classes: dict[str, ast.ClassDef]) -> str | None:
    """None = immutable / not an object we track."""
    if value is None:
        return None
    if isinstance(value, (ast.Dict, ast.List, ast.Set, ast.DictComp, ast.ListComp, ast.SetComp)):
        return "container"
    if isinstance(value, ast.Call):
        nm = call_name(value.func)
        if nm in CONTAINER_CALLS:
            return "container"
        if nm in classes:
            return "instance:" + nm
        if nm in IMMUTABLE_CALLS:
            return None
        return "call:" + nm
    if isinstance(value, ast.BinOp):
        if has_container_literal(value) or re.search(r"\b(list|dict|set|List|Dict|Set)\b", ann):
            return "container"
        return None
    if isinstance(value, ast.IfExp):
        return value_kind(value.body, ann, classes) or value_kind(value.orelse, ann, classes)
    return None


def init_fields(cls: ast.ClassDef) -> list[str]:
    out: list[str] = []
    for n in cls.body:
        if isinstance(n, ast.FunctionDef) and n.name == "__init__":
            for s in ast.walk(n):
                tgts: list[ast.AST] = []
                if isinstance(s, ast.Assign):
                    tgts = list(s.targets)
                elif isinstance(s, ast.AnnAssign) and s.value is not None:
                    tgts = [s.target]
                for t in tgts:
                    if isinstance(t, ast.Attribute) and isinstance(t.value, ast.Name) and t.value.id == "self" and t.attr not in out:
                        out.append(t.attr)
    return out


def is_lru(d: ast.AST) -> bool:
    f = d.func if isinstance(d, ast.Call) else d
    return call_name(f) in ("lru_cache", "cache")


class ModInfo:
    def __init__(self, rel: str):
        self.rel = rel
        self.mod = modname(rel)
        self.tree = ast.parse(vlib.read_repo(rel))
        self.classes = {n.name: n for n in self.tree.body if isinstance(n, ast.ClassDef)}
        self.funcs = {n.name: n for n in self.tree.body if isinstance(n, ast.FunctionDef)}
        self.global_rebound: set[str] = set()
        for n in ast.walk(self.tree):
            if isinstance(n, ast.Global):
                self.global_rebound.update(n.names)
        # imported names: local name -> (module, original name)
        self.imports: dict[str, tuple[str, str]] = {}
        for n in ast.walk(self.tree):
            if isinstance(n, ast.ImportFrom) and n.module:
                for a in n.names:
                    self.imports[a.asname or a.name] = (n.module, a.name)
        self.instances: dict[str, str] = {}      # global var -> class name


def collect_globals(mi: ModInfo) -> list[tuple[str, str]]:
    """[(id, kind)]; id = 'mypy.mod:name' / 'mypy.mod:var.field' / 'mypy.mod:Class.attr' / 'mypy.mod:func()'."""
    out: list[tuple[str, str]] = []
    seen: set[str] = set()

    def add(name: str, kind: str) -> None:
        gid = f"{mi.mod}:{name}"
        if gid not in seen:
            seen.add(gid)
            out.append((gid, kind))
    for s in top_statements(mi.tree.body):
        tgt = None
        value = None
        ann = ""
        if isinstance(s, ast.Assign) and len(s.targets) == 1 and isinstance(s.targets[0], ast.Name):
            tgt, value = s.targets[0].id, s.value
        elif isinstance(s, ast.AnnAssign) and isinstance(s.target, ast.Name):
            tgt, value, ann = s.target.id, s.value, ann_text(s.annotation)
        if tgt is not None:
            if "TypeAlias" in ann:
                continue
            k = value_kind(value, ann, mi.classes)
            if k is None and tgt in mi.global_rebound:
                k = "rebound"
            if k is None:
                continue
            if k.startswith("instance:"):
                cls = k.split(":", 1)[1]
                mi.instances[tgt] = cls
                fields = init_fields(mi.classes[cls])
                if not fields:
                    add(tgt, k)
                for f in fields:
                    add(f"{tgt}.{f}", "field:" + cls)
            else:
                add(tgt, k)
        if isinstance(s, (ast.FunctionDef, ast.AsyncFunctionDef)) and any(is_lru(d) for d in s.decorator_list):
            add(s.name + "()", "lru_cache")
    for cname, cls in mi.classes.items():
        for s in cls.body:
            if isinstance(s, ast.AnnAssign) and isinstance(s.target, ast.Name) and s.value is not None:
                ann = ann_text(s.annotation)
                k = value_kind(s.value, ann, mi.classes)
                if ("ClassVar" in ann and "Final" not in ann) or k == "container":
                    add(f"{cname}.{s.target.id}", "classattr")
            elif isinstance(s, ast.Assign) and len(s.targets) == 1 and isinstance(s.targets[0], ast.Name):
                if value_kind(s.value, "", mi.classes) == "container":
                    add(f"{cname}.{s.targets[0].id}", "classattr")
            elif isinstance(s, (ast.FunctionDef, ast.AsyncFunctionDef)) and any(is_lru(d) for d in s.decorator_list):
                add(f"{cname}.{s.name}()", "lru_cache")
    # class attributes stored through the class object anywhere in the module
    for n in ast.walk(mi.tree):
        tgts: list[ast.AST] = []
        if isinstance(n, ast.Assign):
            tgts = list(n.targets)
        elif isinstance(n, (ast.AugAssign, ast.AnnAssign)):
            tgts = [n.target]
        for t in tgts:
            if isinstance(t, ast.Attribute) and isinstance(t.value, ast.Name) and t.value.id in mi.classes:
                add(f"{t.value.id}.{t.attr}", "classattr")
    return out


def mutation_sites(name: str, owner: ModInfo, all_src: dict[str, str], trees: dict[str, ast.AST]) -> list[str]:
    """Where the module-level object `name` of module owner.mod is mutated (file:line)."""
    sites: list[str] = []
    base = name.split(".")[0].rstrip("()")
    attr = name.split(".")[1] if "." in name else None
    short = owner.mod.rsplit(".", 1)[-1]
    for rel, txt in all_src.items():
        if base not in txt:
            continue
        same = rel == owner.rel
        tree = trees.get(rel)
        if tree is None:
            tree = trees[rel] = ast.parse(txt)
        imported_as: set[str] = set()
        if same:
            imported_as.add(base)
        else:
            for n in ast.walk(tree):
                if isinstance(n, ast.ImportFrom) and n.module == owner.mod:
                    for a in n.names:
                        if a.name == base:
                            imported_as.add(a.asname or a.name)

        def refers(e: ast.AST) -> bool:
            # the object itself (for Class.attr: the attribute expression)
            if attr is not None:
                return isinstance(e, ast.Attribute) and e.attr == attr and (
                    (isinstance(e.value, ast.Name) and (e.value.id in imported_as or e.value.id in ("cls", "self") and same))
                    or (isinstance(e.value, ast.Attribute) and e.value.attr == base))
            if isinstance(e, ast.Name):
                return e.id in imported_as
            return isinstance(e, ast.Attribute) and e.attr == base and (
                (isinstance(e.value, ast.Name) and e.value.id == short) or
                (isinstance(e.value, ast.Attribute) and e.value.attr == short))
        # only mutations inside function bodies count: module top level runs once, at import
        in_funcs = {id(x): x for fn in ast.walk(tree) if isinstance(fn, (ast.FunctionDef, ast.AsyncFunctionDef, ast.Lambda))
                    for x in ast.walk(fn)}
        for n in in_funcs.values():
            hit = False
            if isinstance(n, (ast.Assign, ast.AugAssign, ast.AnnAssign, ast.Delete)):
                tg = n.targets if isinstance(n, (ast.Assign, ast.Delete)) else [n.target]
                for t in tg:
                    if isinstance(t, ast.Subscript) and refers(t.value):
                        hit = True
                    if isinstance(n, ast.AugAssign) and refers(t):
                        hit = True
                    if attr is not None and refers(t) and not isinstance(n, ast.AnnAssign):
                        hit = True
            elif isinstance(n, ast.Call) and isinstance(n.func, ast.Attribute) and n.func.attr in MUTATORS and refers(n.func.value):
                hit = True
            if hit and f"{rel}:{n.lineno}" not in sites:
                sites.append(f"{rel}:{n.lineno}")
        if same and attr is None and base in owner.global_rebound:
            for fn in ast.walk(tree):
                if isinstance(fn, (ast.FunctionDef, ast.AsyncFunctionDef)) and any(
                        isinstance(g, ast.Global) and base in g.names for g in ast.walk(fn)):
                    sites.append(f"{rel}:{fn.lineno}(global)")
    return sites


class Resets:
    """Globals assigned / cleared by the reset entry points that build.build / build.build_inner call."""

    def __init__(self, mods: dict[str, ModInfo]):
        self.mods = mods
        self.reset: list[str] = []
        self.calls: list[str] = []
        self.visited: set[tuple[str, str]] = set()

    def add(self, gid: str) -> None:
        if gid not in self.reset:
            self.reset.append(gid)

    def resolve_class(self, mi: ModInfo, cname: str) -> tuple[ModInfo, str] | None:
        if cname in mi.classes:
            return mi, cname
        if cname in mi.imports:
            m, orig = mi.imports[cname]
            tm = self.mods.get(m)
            if tm and orig in tm.classes:
                return tm, orig
        return None

    def resolve_instance(self, mi: ModInfo, var: str) -> tuple[ModInfo, str, str] | None:
        """global instance variable -> (module, var, class)"""
        if var in mi.instances:
            return mi, var, mi.instances[var]
        if var in mi.imports:
            m, orig = mi.imports[var]
            tm = self.mods.get(m)
            if tm and orig in tm.instances:
                return tm, orig, tm.instances[orig]
        return None

    def walk_body(self, mi: ModInfo, fn: ast.FunctionDef, self_obj: tuple[ModInfo, str, str] | None) -> None:
        key = (mi.mod, fn.name + (":" + self_obj[1] if self_obj else ""))
        if key in self.visited:
            return
        self.visited.add(key)
        globs = {g for n in ast.walk(fn) if isinstance(n, ast.Global) for g in n.names}
        for n in ast.walk(fn):
            tgts: list[ast.AST] = []
            if isinstance(n, ast.Assign):
                tgts = list(n.targets)
            elif isinstance(n, (ast.AugAssign, ast.AnnAssign)):
                tgts = [n.target]
            for t in tgts:
                if isinstance(t, ast.Name) and t.id in globs:
                    self.add(f"{mi.mod}:{t.id}")
                elif isinstance(t, ast.Attribute) and isinstance(t.value, ast.Name):
                    if t.value.id == "self" and self_obj:
                        self.add(f"{self_obj[0].mod}:{self_obj[1]}.{t.attr}")
                    else:
                        rc = self.resolve_class(mi, t.value.id)
                        if rc:
                            self.add(f"{rc[0].mod}:{rc[1]}.{t.attr}")
                        ri = self.resolve_instance(mi, t.value.id)
                        if ri:
                            self.add(f"{ri[0].mod}:{ri[1]}.{t.attr}")
            if isinstance(n, ast.Call):
                f = n.func
                if isinstance(f, ast.Attribute) and f.attr == "clear" and isinstance(f.value, ast.Attribute) \
                        and isinstance(f.value.value, ast.Name):
                    if f.value.value.id == "self" and self_obj:
                        self.add(f"{self_obj[0].mod}:{self_obj[1]}.{f.value.attr}")
                    else:
                        ri = self.resolve_instance(mi, f.value.value.id)
                        if ri:
                            self.add(f"{ri[0].mod}:{ri[1]}.{f.value.attr}")
                elif isinstance(f, ast.Attribute) and f.attr in ("clear", "cache_clear") and isinstance(f.value, ast.Name):
                    if f.value.id in mi.funcs:
                        self.add(f"{mi.mod}:{f.value.id}()")
                    elif f.value.id in mi.imports and mi.imports[f.value.id][0] in self.mods:
                        self.add(f"{mi.imports[f.value.id][0]}:{mi.imports[f.value.id][1]}" +
                                 ("()" if f.attr == "cache_clear" else ""))
                    else:
                        self.add(f"{mi.mod}:{f.value.id}")
                self.follow(mi, f, self_obj)

    def follow(self, mi: ModInfo, f: ast.AST, self_obj: tuple[ModInfo, str, str] | None) -> None:
        if isinstance(f, ast.Name):
            if f.id in mi.funcs:
                self.walk_body(mi, mi.funcs[f.id], None)
            elif f.id in mi.imports:
                m, orig = mi.imports[f.id]
                tm = self.mods.get(m)
                if tm and orig in tm.funcs:
                    self.walk_body(tm, tm.funcs[orig], None)
        elif isinstance(f, ast.Attribute) and isinstance(f.value, ast.Name):
            obj = self_obj if f.value.id == "self" else self.resolve_instance(mi, f.value.id)
            if obj:
                cls = obj[0].classes[obj[2]]
                for m in cls.body:
                    if isinstance(m, ast.FunctionDef) and m.name == f.attr:
                        self.walk_body(obj[0], m, obj)

    def from_build(self) -> None:
        b = self.mods["mypy.build"]
        for fname in ("build", "build_inner"):
            fn = b.funcs.get(fname)
            if fn is None:
                raise Unsupported(f"mypy/build.py: function {fname} not found")
            for n in ast.walk(fn):
                if isinstance(n, ast.Call) and "reset" in ast.unparse(n.func):
                    nm = ast.unparse(n.func)
                    if nm not in self.calls:
                        self.calls.append(nm)
                    self.follow(b, n.func, None)


def coq_str(s: str) -> str:
    return '"' + s.replace('"', '""') + '"'


CLASSES = {"reset_per_build": "ResetPerBuild", "immutable_after_import": "ImmutableAfterImport",
           "cache_semantically_transparent": "CacheTransparent", "finding": "Finding"}


def extract() -> dict:
    mods = {modname(r): ModInfo(r) for r in MODULES}
    all_src: dict[str, str] = {}
    root = os.path.join(vlib.REPO, "mypy")
    for dp, dn, fns in os.walk(root):
        dn[:] = [d for d in dn if d not in ("typeshed", "test", "__pycache__", "xml")]
        for fn in fns:
            if fn.endswith(".py"):
                p = os.path.join(dp, fn)
                all_src[os.path.relpath(p, vlib.REPO)] = open(p, encoding="utf-8").read()
    trees: dict[str, ast.AST] = {mi.rel: mi.tree for mi in mods.values()}
    globs: list[tuple[str, str, list[str]]] = []
    for mi in mods.values():
        for gid, kind in collect_globals(mi):
            name = gid.split(":", 1)[1]
            sites = [] if kind.startswith("field:") or kind == "lru_cache" else mutation_sites(name, mi, all_src, trees)
            globs.append((gid, kind, sites))
    rs = Resets(mods)
    rs.from_build()
    return {"globals": globs, "reset": rs.reset, "calls": rs.calls}


def load_classification() -> dict[str, dict[str, str]]:
    try:
        return json.load(open(CLASS_JSON))["globals"]
    except FileNotFoundError:
        return {}


def render(ex: dict, cl: dict[str, dict[str, str]]) -> str:
    out = ["(* GENERATED from " + ", ".join(MODULES) + " and tools/harness/globals_class.json by tools/extractors/t10.py"
           " -- do not edit; regenerated on every run *)",
           "From Coq Require Import List String Bool.", "Import ListNotations.", "Open Scope string_scope.", "",
           "Inductive gclass := ResetPerBuild | ImmutableAfterImport | CacheTransparent | Finding.", "",
           "(* (id, (kind, mutated somewhere under mypy/)) *)",
           "Definition globals : list (string * (string * bool)) := ["]
    out.append(";\n".join(f"  ({coq_str(g)}, ({coq_str(k)}, {'true' if s else 'false'}))" for g, k, s in ex["globals"]))
    out.append("].\n\n(* globals assigned / cleared by the reset entry points called from build.build / build_inner *)")
    out.append("Definition reset_set : list string := [")
    out.append(";\n".join("  " + coq_str(r) for r in ex["reset"]))
    out.append("].\n\nDefinition build_reset_calls : list string := [")
    out.append(";\n".join("  " + coq_str(r) for r in ex["calls"]))
    out.append("].\n\n(* tools/harness/globals_class.json *)\nDefinition classification : list (string * gclass) := [")
    rows = []
    for g, v in cl.items():
        c = CLASSES.get(v.get("class", ""))
        if c is None:
            raise Unsupported(f"globals_class.json: {g}: unknown class {v.get('class')!r}")
        if c in ("CacheTransparent", "Finding") and not v.get("reason"):
            raise Unsupported(f"globals_class.json: {g}: class {v['class']} needs a reason")
        rows.append(f"  ({coq_str(g)}, {c})")
    out.append(";\n".join(rows))
    out.append("].\n")
    return "\n".join(out)


def generate() -> dict[str, str]:
    ex = extract()
    txt = render(ex, load_classification())
    vlib.write_if_changed(os.path.join(vlib.GEN, "Globals.v"), txt)
    return {"Globals.v": txt}


if __name__ == "__main__":
    ex = extract()
    if len(sys.argv) > 1 and sys.argv[1] == "--list":
        cl = load_classification()
        for g, k, s in ex["globals"]:
            print(f"{g:60s} {k:22s} {'RESET' if g in ex['reset'] else '     '} {cl.get(g, {}).get('class', 'UNCLASSIFIED'):32s} {' '.join(s[:4])}")
        print("reset set:", ex["reset"])
        print("reset calls in build/build_inner:", ex["calls"])
    else:
        print(render(ex, load_classification()))
