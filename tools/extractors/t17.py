"""T9/T17: regenerate coq/gen/Flags.v from /repo (ast over text only; fail-closed).

Extracted:
  mypy/main.py          flag_prefix_pairs; every add_invertible_flag(...) call of define_options;
                        every plain add_argument(..., action="store_true"/"store_false") flag;
                        invert_flag_name is PINNED (its ast must equal the shape the hand model
                        C17.Model.invert_flag_name transcribes)
  mypy/options.py       PER_MODULE_OPTIONS; attribute table of Options (name, bool default / None / other)
  mypy/config_parser.py keys of ini_config_types (+ "is bool"); the alias and the inversion elif-chain of
                        parse_section as a rule table (prefix, chars dropped, prefix added)
"""
from __future__ import annotations

import ast
import os
import sys

sys.path.insert(0, os.path.dirname(os.path.dirname(os.path.abspath(__file__))))
import vlib


class Unsupported(Exception):
    pass


def _find(tree: ast.AST, kind, name: str):
    for n in ast.walk(tree):
        if isinstance(n, kind) and getattr(n, "name", None) == name:
            return n
    raise Unsupported(f"{kind.__name__} {name} not found")


def _assign_value(tree: ast.Module, name: str) -> ast.expr:
    for n in tree.body:
        if isinstance(n, ast.AnnAssign) and isinstance(n.target, ast.Name) and n.target.id == name and n.value is not None:
            return n.value
        if isinstance(n, ast.Assign) and len(n.targets) == 1 and isinstance(n.targets[0], ast.Name) and n.targets[0].id == name:
            return n.value
    raise Unsupported(f"top-level assignment to {name} not found")


def _const_str(e: ast.expr, what: str) -> str:
    if isinstance(e, ast.Constant) and isinstance(e.value, str):
        return e.value
    raise Unsupported(f"{what}: expected a string literal, got {ast.dump(e)[:80]}")


def coq_str(s: str) -> str:
    if any(ord(c) > 126 or ord(c) < 32 for c in s):
        raise Unsupported(f"non-printable/non-ascii string {s!r}")
    return '"' + s.replace('"', '""') + '"'


def coq_list(items: list[str], per_line: int = 1) -> str:
    if not items:
        return "[]"
    return "[\n    " + ";\n    ".join(items) + " ]"


# the exact shape of invert_flag_name transcribed by C17.Model.invert_flag_name
INVERT_FLAG_NAME_SRC = '''
def invert_flag_name(flag: str) -> str:
    split = flag[2:].split("-", 1)
    if len(split) == 2:
        prefix, rest = split
        if prefix in flag_prefix_map:
            return f"--{flag_prefix_map[prefix]}-{rest}"
        elif prefix == "no":
            return f"--{rest}"

    return f"--no-{flag[2:]}"
'''
# destructure_overrides (pyproject.toml), transcribed by C17.Model.destructure_overrides: pinned verbatim (docstring dropped)
DESTRUCTURE_OVERRIDES_SRC = 'def destructure_overrides(toml_data: dict[str, Any]) -> dict[str, Any]:\n    if \'overrides\' not in toml_data[\'mypy\']:\n        return toml_data\n    if not isinstance(toml_data[\'mypy\'][\'overrides\'], list):\n        raise ConfigTOMLValueError(\'tool.mypy.overrides sections must be an array. Please make sure you are using double brackets like so: [[tool.mypy.overrides]]\')\n    result = toml_data.copy()\n    for override in result[\'mypy\'][\'overrides\']:\n        if \'module\' not in override:\n            raise ConfigTOMLValueError(\'toml config file contains a [[tool.mypy.overrides]] section, but no module to override was specified.\')\n        if isinstance(override[\'module\'], str):\n            modules = [override[\'module\']]\n        elif isinstance(override[\'module\'], list):\n            modules = override[\'module\']\n        else:\n            raise ConfigTOMLValueError(\'toml config file contains a [[tool.mypy.overrides]] section with a module value that is not a string or a list of strings\')\n        for module in modules:\n            module_overrides = override.copy()\n            del module_overrides[\'module\']\n            old_config_name = f\'mypy-{module}\'\n            if old_config_name not in result:\n                result[old_config_name] = module_overrides\n            else:\n                for new_key, new_value in module_overrides.items():\n                    if new_key in result[old_config_name] and result[old_config_name][new_key] != new_value:\n                        raise ConfigTOMLValueError(f"toml config file contains [[tool.mypy.overrides]] sections with conflicting values. Module \'{module}\' has two different values for \'{new_key}\'")\n                    result[old_config_name][new_key] = new_value\n    del result[\'mypy\'][\'overrides\']\n    return result'

# _find_config_file, transcribed by C17.Model.find_config_file / walk_up: pinned verbatim
FIND_CONFIG_FILE_SRC = "def _find_config_file(stderr: TextIO | None=None) -> tuple[MutableMapping[str, Any], dict[str, _INI_PARSER_CALLABLE], str] | None:\n    current_dir = os.path.abspath(os.getcwd())\n    while True:\n        for name in defaults.CONFIG_NAMES + defaults.SHARED_CONFIG_NAMES:\n            config_file = os.path.relpath(os.path.join(current_dir, name))\n            ret = _parse_individual_file(config_file, stderr)\n            if ret is None:\n                continue\n            return ret\n        if any((os.path.exists(os.path.join(current_dir, cvs_root)) for cvs_root in ('.git', '.hg'))):\n            break\n        parent_dir = os.path.dirname(current_dir)\n        if parent_dir == current_dir:\n            break\n        current_dir = parent_dir\n    for config_file in defaults.USER_CONFIG_FILES:\n        ret = _parse_individual_file(config_file, stderr)\n        if ret is None:\n            continue\n        return ret\n    return None"

PREFIX_MAP_SRC = '''
for a, b in flag_prefix_pairs:
    flag_prefix_map[a] = b
    flag_prefix_map[b] = a
'''


def extract_main(src: str) -> dict:
    tree = ast.parse(src)
    pairs_e = _assign_value(tree, "flag_prefix_pairs")
    if not isinstance(pairs_e, ast.List):
        raise Unsupported("flag_prefix_pairs is not a list literal")
    pairs = []
    for t in pairs_e.elts:
        if not (isinstance(t, ast.Tuple) and len(t.elts) == 2):
            raise Unsupported("flag_prefix_pairs element is not a 2-tuple")
        pairs.append((_const_str(t.elts[0], "prefix"), _const_str(t.elts[1], "prefix")))
    # pinned code
    f = _find(tree, ast.FunctionDef, "invert_flag_name")
    want = ast.dump(ast.parse(INVERT_FLAG_NAME_SRC).body[0])
    if ast.dump(f) != want:
        raise Unsupported("invert_flag_name no longer has the transcribed shape")
    want_loop = ast.dump(ast.parse(PREFIX_MAP_SRC).body[0])
    if not any(isinstance(n, ast.For) and ast.dump(n) == want_loop for n in tree.body):
        raise Unsupported("flag_prefix_map construction loop changed")
    # add_invertible_flag: its own definition is pinned on the parts that matter
    d = _find(tree, ast.FunctionDef, "define_options")
    aif = _find(d, ast.FunctionDef, "add_invertible_flag")
    body_src = ast.unparse(aif)
    for needle in ["inverse = invert_flag_name(flag)",
                   "group.add_argument(flag, action='store_false' if default else 'store_true', dest=dest, help=help)",
                   "dest = arg.dest",
                   "group.add_argument(inverse, action='store_true' if default else 'store_false', dest=dest, help=argparse.SUPPRESS)"]:
        if needle not in body_src:
            raise Unsupported(f"add_invertible_flag changed: missing `{needle}`")
    rows = []
    plain = []
    strict: list[str] = []
    valued: dict[str, dict] = {}
    # flags that exist only for the daemon (`if server_options:`) are not part of `mypy`'s command line
    server_only = set()
    for n in ast.walk(d):
        if isinstance(n, ast.If) and isinstance(n.test, ast.Name) and n.test.id == "server_options":
            for b in n.body:
                server_only |= {id(x) for x in ast.walk(b)}
    for n in ast.walk(d):
        if not isinstance(n, ast.Call) or id(n) in server_only:
            continue
        if isinstance(n.func, ast.Name) and n.func.id == "add_invertible_flag":
            if len(n.args) != 1:
                raise Unsupported("add_invertible_flag with != 1 positional argument")
            flag = _const_str(n.args[0], "flag")
            kw = {k.arg: k.value for k in n.keywords}
            if set(kw) - {"default", "dest", "inverse", "help", "strict_flag", "group"}:
                raise Unsupported(f"add_invertible_flag({flag}) unknown keywords {sorted(kw)}")
            dflt = kw.get("default")
            if not (isinstance(dflt, ast.Constant) and isinstance(dflt.value, bool)):
                raise Unsupported(f"add_invertible_flag({flag}): default is not a bool literal")
            dest = _const_str(kw["dest"], "dest") if "dest" in kw else None
            inv = _const_str(kw["inverse"], "inverse") if "inverse" in kw else None
            if not flag.startswith("--"):
                raise Unsupported(f"flag {flag} does not start with --")
            rows.append((flag, inv, dflt.value, dest))
            sf = kw.get("strict_flag")
            if sf is not None:
                if not (isinstance(sf, ast.Constant) and isinstance(sf.value, bool)):
                    raise Unsupported(f"add_invertible_flag({flag}): strict_flag is not a bool literal")
                if sf.value:
                    strict.append(flag)
        elif isinstance(n.func, ast.Attribute) and n.func.attr == "add_argument" and not (
                isinstance(n.func.value, ast.Name) and n.func.value.id == "group" and n in ast.walk(aif)):
            kw = {k.arg: k.value for k in n.keywords}
            act = kw.get("action")
            if isinstance(act, ast.Constant) and act.value in ("store_true", "store_false"):
                names = [_const_str(a, "option string") for a in n.args]
                longs = [s for s in names if s.startswith("--")]
                if not longs:
                    raise Unsupported(f"boolean flag without long spelling: {names}")
                dest = _const_str(kw["dest"], "dest") if "dest" in kw else longs[0][2:].replace("-", "_")
                for s in longs:
                    plain.append((s, dest, act.value == "store_true"))
            elif act is not None and not isinstance(act, ast.Constant) and not isinstance(act, ast.Name):
                raise Unsupported(f"add_argument with computed action: {ast.dump(act)[:80]}")
            else:
                names = [a.value for a in n.args if isinstance(a, ast.Constant) and isinstance(a.value, str)]
                longs = [x for x in names if x.startswith("--")]
                if longs:
                    info = {"action": act.value if isinstance(act, ast.Constant) else ("store" if act is None else "custom"),
                            "dest": kw["dest"].value if isinstance(kw.get("dest"), ast.Constant) else longs[0][2:].replace("-", "_"),
                            "type": ast.unparse(kw["type"]) if "type" in kw else None,
                            "choices": [_const_str(c, "choice") for c in kw["choices"].elts] if isinstance(kw.get("choices"), ast.List) else None}
                    for x in longs:
                        valued[x] = info
    if len(rows) < 20:
        raise Unsupported(f"only {len(rows)} add_invertible_flag calls found")
    # the strict machinery is pinned
    aif_src = ast.unparse(aif)
    for needle in ["if strict_flag:", "strict_flag_assignments.append((dest, not default))"]:
        if needle not in aif_src:
            raise Unsupported(f"add_invertible_flag changed: missing `{needle}`")
    po = ast.unparse(_find(tree, ast.FunctionDef, "process_options"))
    for needle in ["def set_strict_flags() -> None:\n        nonlocal strict_option_set\n        strict_option_set = True\n        for dest, value in strict_flag_assignments:\n            setattr(options, dest, value)",
                   "parse_config_file(options, set_strict_flags, config_file, stdout, stderr)\n    if getattr(dummy, 'special-opts:strict'):\n        set_strict_flags()",
                   "parser.parse_args(args, SplitNamespace(options, special_opts, 'special-opts:'))",
                   "options.python_version = special_opts.python_version or options.python_version"]:
        if needle not in po:
            raise Unsupported(f"process_options changed: missing `{needle[:60]}`")
    if valued.get("--strict", {}).get("dest") != "special-opts:strict" and ("--strict", "special-opts:strict", True) not in plain:
        raise Unsupported("--strict is no longer a store_true flag into special-opts:strict")
    if not strict:
        raise Unsupported("no strict_flag=True flags found")
    fi = valued.get("--follow-imports", {}).get("choices")
    if not fi:
        raise Unsupported("--follow-imports choices not found")
    return {"pairs": pairs, "rows": rows, "plain": plain, "strict": strict, "valued": valued, "follow_imports_cli": fi}


def extract_options(src: str) -> dict:
    tree = ast.parse(src)
    pmo = _assign_value(tree, "PER_MODULE_OPTIONS")
    if not isinstance(pmo, ast.Set):
        raise Unsupported("PER_MODULE_OPTIONS is not a set literal")
    per_module = sorted(_const_str(e, "PER_MODULE_OPTIONS element") for e in pmo.elts)
    cls = _find(tree, ast.ClassDef, "Options")
    init = _find(cls, ast.FunctionDef, "__init__")
    attrs: dict[str, str] = {}
    for n in ast.walk(init):
        tgt = val = None
        if isinstance(n, ast.Assign) and len(n.targets) == 1:
            tgt, val = n.targets[0], n.value
        elif isinstance(n, ast.AnnAssign) and n.value is not None:
            tgt, val = n.target, n.value
        if isinstance(tgt, ast.Attribute) and isinstance(tgt.value, ast.Name) and tgt.value.id == "self":
            if isinstance(val, ast.Constant) and isinstance(val.value, bool):
                kind = "ABool " + ("true" if val.value else "false")
            elif isinstance(val, ast.Constant) and val.value is None:
                kind = "ANone"
            else:
                kind = "AOther"
            if tgt.attr in attrs and attrs[tgt.attr] != kind:
                raise Unsupported(f"Options.{tgt.attr} assigned twice with different kinds")
            attrs[tgt.attr] = kind
    for n in cls.body:  # methods and properties also answer hasattr()
        if isinstance(n, ast.FunctionDef) and n.name not in attrs and not n.name.startswith("__"):
            attrs[n.name] = "AOther"
    if len(attrs) < 100:
        raise Unsupported(f"only {len(attrs)} Options attributes found")
    return {"per_module": per_module, "attrs": attrs}


def extract_config_parser(src: str) -> dict:
    tree = ast.parse(src)
    ict = _assign_value(tree, "ini_config_types")
    if not isinstance(ict, ast.Dict):
        raise Unsupported("ini_config_types is not a dict literal")
    typed = []
    for k, v in zip(ict.keys, ict.values):
        typed.append((_const_str(k, "ini_config_types key"), isinstance(v, ast.Name) and v.id == "bool"))
    ps = _find(tree, ast.FunctionDef, "parse_section")
    loop = next((n for n in ps.body if isinstance(n, ast.For)), None)
    if loop is None:
        raise Unsupported("parse_section: main loop not found")
    aliases = []
    rules = []
    chain_found = False
    for n in ast.walk(loop):
        if isinstance(n, ast.If):
            s = ast.unparse(n.test)
            if s.startswith("options_key == "):
                if not (len(n.body) == 1 and isinstance(n.body[0], ast.Assign) and ast.unparse(n.body[0].targets[0]) == "options_key"):
                    raise Unsupported("alias branch changed")
                aliases.append((_const_str(n.test.comparators[0], "alias"), _const_str(n.body[0].value, "alias target")))
            if s == "key.startswith('x_')":
                chain_found = True
                cur = n
                if ast.unparse(cur.body[0]) != "pass":
                    raise Unsupported("x_ branch changed")
                while True:
                    if len(cur.orelse) == 1 and isinstance(cur.orelse[0], ast.If):
                        cur = cur.orelse[0]
                    else:
                        if "Unrecognized option" not in ast.unparse(cur.orelse[0] if cur.orelse else cur):
                            raise Unsupported("inversion chain does not end with 'Unrecognized option'")
                        break
                    t = ast.unparse(cur.test)
                    if t == "key == 'strict'":
                        continue
                    rules.append(parse_rule(cur))
    if not chain_found or len(rules) < 3:
        raise Unsupported("inversion elif-chain of parse_section not found")
    # the test that guards the chain and the use of `invert`
    whole = ast.unparse(ps)
    for needle in ["dv = getattr(template, options_key, None)", "if dv is None:", "if invert:\n                    v = not v",
                   "if invert:\n                    dv = getattr(template, options_key, None)\n                else:\n                    continue",
                   "ct = type(dv) if dv is not None else None", "if key in config_types:",
                   "if 'disable_error_code' not in results:\n        results['disable_error_code'] = []",
                   "if 'enable_error_code' not in results:\n        results['enable_error_code'] = []"]:
        if needle not in whole:
            raise Unsupported(f"parse_section changed: missing `{needle}`")
    cfi = _find(tree, ast.FunctionDef, "check_follow_imports")
    ch = next((n.value for n in cfi.body if isinstance(n, ast.Assign) and ast.unparse(n.targets[0]) == "choices"), None)
    if not isinstance(ch, ast.List):
        raise Unsupported("check_follow_imports: choices list not found")
    fi = [_const_str(c, "choice") for c in ch.elts]
    # conversion functions transcribed by hand in C17.Model are pinned by their source text
    pins = {
        "split_commas": "def split_commas(value: str) -> list[str]:\n    items = value.split(',')\n    if items and items[-1] == '':\n        items.pop(-1)\n    return items",
        "str_or_array_as_list": "def str_or_array_as_list(v: str | Sequence[str]) -> list[str]:\n    if isinstance(v, str):\n        return [v.strip()] if v.strip() else []\n    return [p.strip() for p in v if p.strip()]",
    }
    for name, want in pins.items():
        f = _find(tree, ast.FunctionDef, name)
        g = ast.parse(ast.unparse(f)).body[0]
        g.body = [b for b in g.body if not (isinstance(b, ast.Expr) and isinstance(b.value, ast.Constant))]
        if ast.unparse(g) != want:
            raise Unsupported(f"{name} no longer has the transcribed shape")
    dov = ast.parse(ast.unparse(_find(tree, ast.FunctionDef, "destructure_overrides"))).body[0]
    dov.body = [b for b in dov.body if not (isinstance(b, ast.Expr) and isinstance(b.value, ast.Constant))]
    if ast.unparse(dov) != DESTRUCTURE_OVERRIDES_SRC:
        raise Unsupported("destructure_overrides no longer has the transcribed shape")
    pcf = ast.unparse(_find(tree, ast.FunctionDef, "parse_config_file"))
    for needle in ["for glob in globs.split(','):", "options.per_module_options[glob] = updates", "for name, section in parser.items():\n        if name.startswith('mypy-'):"]:
        if needle not in pcf:
            raise Unsupported(f"parse_config_file changed: missing `{needle}`")
    if ast.unparse(_find(tree, ast.FunctionDef, "_find_config_file")) != FIND_CONFIG_FILE_SRC:
        raise Unsupported("_find_config_file no longer has the transcribed shape")
    pif = ast.unparse(_find(tree, ast.FunctionDef, "_parse_individual_file"))
    for needle in ["if not os.path.exists(config_file):\n        return None", "if 'mypy' not in toml_data:\n                return None",
                   "except (tomllib.TOMLDecodeError, configparser.Error, ConfigTOMLValueError) as err:\n        print(f'{config_file}: {err}', file=stderr)\n        return None",
                   "if os.path.basename(config_file) in defaults.SHARED_CONFIG_NAMES and 'mypy' not in parser:\n        return None",
                   "return (parser, config_types, config_file)"]:
        if needle not in pif:
            raise Unsupported(f"_parse_individual_file changed: missing `{needle[:50]}`")
    pv = ast.unparse(_find(tree, ast.FunctionDef, "parse_version"))
    for needle in ["m = re.match('\\\\A(\\\\d)\\\\.(\\\\d+)\\\\Z', str(v))", "if major == 2 and minor == 7:\n        pass", "elif major == 3:\n        if minor < defaults.PYTHON3_VERSION_MIN[1]:",
                   "raise VersionTypeError(msg, fallback=defaults.PYTHON3_VERSION_MIN)", "return (major, minor)"]:
        if needle not in pv:
            raise Unsupported(f"parse_version changed: missing `{needle}`")
    ts = ast.unparse(_find(tree, ast.FunctionDef, "try_split"))
    for needle in ["items = [p.strip() for p in re.split(split_regex, v)]\n        if items and items[-1] == '':\n            items.pop(-1)\n        return items"]:
        if needle not in ts:
            raise Unsupported("try_split changed")
    listy = {}
    for k, v in zip(ict.keys, ict.values):
        listy[_const_str(k, "key")] = ast.unparse(v)
    tct = None
    for n in ast.walk(tree):
        if isinstance(n, ast.Call) and ast.unparse(n.func) == "toml_config_types.update" and isinstance(n.args[0], ast.Dict):
            tct = {_const_str(k, "key"): ast.unparse(v) for k, v in zip(n.args[0].keys, n.args[0].values)}
    if tct is None:
        raise Unsupported("toml_config_types.update({...}) not found")
    pmc = ast.unparse(_find(tree, ast.FunctionDef, "parse_mypy_comments"))
    for needle in ["if 'python_version' in options:", "errors.append((lineno, 'python_version not supported in inline configuration'))",
                   "parser['dummy'] = options", "parse_section('', template, set_strict_flags, parser['dummy'], ini_config_types, stderr=stderr)",
                   "errors.append((lineno, 'Reports not supported in inline configuration'))", "if strict_found:",
                   "new_sections['enable_error_code'] = sorted(set(neec + eec))", "new_sections['disable_error_code'] = sorted(set(ndec + dec))", "sections.update(new_sections)"]:
        if needle not in pmc:
            raise Unsupported(f"parse_mypy_comments changed: missing `{needle}`")
    return {"typed": typed, "aliases": aliases, "rules": rules, "follow_imports_cfg": fi, "ini_conv": listy, "toml_conv": tct}


def parse_rule(n: ast.If) -> tuple[str, int, str]:
    """`elif key.startswith(P) and hasattr(template, E)`: options_key = E; invert = True."""
    t = n.test
    if not (isinstance(t, ast.BoolOp) and isinstance(t.op, ast.And) and len(t.values) == 2):
        raise Unsupported(f"inversion rule test: {ast.unparse(t)}")
    sw, ha = t.values
    if not (isinstance(sw, ast.Call) and ast.unparse(sw.func) == "key.startswith" and len(sw.args) == 1):
        raise Unsupported(f"inversion rule test: {ast.unparse(t)}")
    prefix = _const_str(sw.args[0], "prefix")
    if not (isinstance(ha, ast.Call) and ast.unparse(ha.func) == "hasattr" and len(ha.args) == 2 and ast.unparse(ha.args[0]) == "template"):
        raise Unsupported(f"inversion rule test: {ast.unparse(t)}")
    e = ha.args[1]
    body = [ast.unparse(s) for s in n.body]
    if body != [f"options_key = {ast.unparse(e)}", "invert = True"]:
        raise Unsupported(f"inversion rule body: {body}")

    def sliced(x: ast.expr) -> int:
        if isinstance(x, ast.Name) and x.id == "options_key":
            return 0
        if (isinstance(x, ast.Subscript) and isinstance(x.value, ast.Name) and x.value.id == "options_key"
                and isinstance(x.slice, ast.Slice) and x.slice.upper is None and x.slice.step is None
                and isinstance(x.slice.lower, ast.Constant) and isinstance(x.slice.lower.value, int) and x.slice.lower.value >= 0):
            return x.slice.lower.value
        raise Unsupported(f"inversion rule expression: {ast.unparse(x)}")
    if isinstance(e, ast.BinOp) and isinstance(e.op, ast.Add):
        return prefix, sliced(e.right), _const_str(e.left, "added prefix")
    return prefix, sliced(e), ""


HEADER = """(* GENERATED from mypy/main.py, mypy/options.py, mypy/config_parser.py by tools/extractors/t17.py
   -- do not edit; regenerated on every run *)
From Coq Require Import List String Bool.
From C17 Require Import Model.
Import ListNotations.
Open Scope string_scope.
"""


def opt_str(s: str | None) -> str:
    return "None" if s is None else f"(Some {coq_str(s)})"


def gen_flags() -> str:
    m = extract_main(vlib.read_repo("mypy/main.py"))
    o = extract_options(vlib.read_repo("mypy/options.py"))
    c = extract_config_parser(vlib.read_repo("mypy/config_parser.py"))
    out = [HEADER]
    out.append("Definition flag_prefix_pairs : list (string * string) :=\n  "
               + coq_list([f"({coq_str(a)}, {coq_str(b)})" for a, b in m["pairs"]]) + ".")
    out.append("(* add_invertible_flag(flag, inverse=, default=, dest=) *)\nDefinition invertible_flags : list inv_row :=\n  "
               + coq_list([f"({coq_str(f)}, {opt_str(i)}, {'true' if d else 'false'}, {opt_str(ds)})" for f, i, d, ds in m["rows"]]) + ".")
    out.append("(* add_argument(spelling, action=store_true/store_false, dest=): (spelling, (dest, stored value)) *)\n"
               "Definition plain_bool_flags : list (string * (string * bool)) :=\n  "
               + coq_list([f"({coq_str(f)}, ({coq_str(d)}, {'true' if v else 'false'}))" for f, d, v in m["plain"]]) + ".")
    out.append("(* flags declared with strict_flag=True, in declaration order *)\nDefinition strict_flags : list string :=\n  " + coq_list([coq_str(x) for x in m["strict"]]) + ".")
    out.append("Definition follow_imports_choices_cli : list string :=\n  " + coq_list([coq_str(x) for x in m["follow_imports_cli"]]) + ".")
    out.append("Definition follow_imports_choices_cfg : list string :=\n  " + coq_list([coq_str(x) for x in c["follow_imports_cfg"]]) + ".")
    dsrc = ast.parse(vlib.read_repo("mypy/defaults.py"))
    vmin = _assign_value(dsrc, "PYTHON3_VERSION_MIN")
    if not (isinstance(vmin, ast.Tuple) and len(vmin.elts) == 2 and all(isinstance(e, ast.Constant) and isinstance(e.value, int) for e in vmin.elts) and vmin.elts[0].value == 3):
        raise Unsupported("defaults.PYTHON3_VERSION_MIN is not (3, n)")
    out.append(f"Definition python3_min_minor : nat := {vmin.elts[1].value}.")
    for nm, coqn in (("CONFIG_NAMES", "config_names"), ("SHARED_CONFIG_NAMES", "shared_config_names")):
        v = _assign_value(dsrc, nm)
        if not isinstance(v, ast.List):
            raise Unsupported(f"defaults.{nm} is not a list literal")
        out.append(f"Definition {coqn} : list string :=\n  " + coq_list([coq_str(_const_str(e, nm)) for e in v.elts]) + ".")
    out.append("(* candidates of one directory in search order, with `is a shared name` *)\n"
               "Definition candidate_names : list (string * bool) :=\n  map (fun n => (n, false)) config_names ++ map (fun n => (n, true)) shared_config_names.")
    # which config keys use the plain comma-list conversion in ini and try_split in toml
    lam = "lambda s: [p.strip() for p in split_commas(s)]"
    comma_keys = sorted(k for k, v in c["ini_conv"].items() if v == lam and c["toml_conv"].get(k) in ("try_split", "lambda s: try_split(s)"))
    out.append("(* keys converted by [p.strip() for p in split_commas(s)] in ini and by try_split in toml *)\n"
               "Definition comma_list_keys : list string :=\n  " + coq_list([coq_str(x) for x in comma_keys]) + ".")
    out.append("Definition per_module_options : list string :=\n  " + coq_list([coq_str(s) for s in o["per_module"]]) + ".")
    out.append("(* Options.__init__ attributes (and methods, which also answer hasattr) *)\n"
               "Definition option_attrs : list (string * attr_kind) :=\n  "
               + coq_list([f"({coq_str(k)}, {v})" for k, v in o["attrs"].items()]) + ".")
    out.append("(* keys of ini_config_types, with `value is bool` *)\nDefinition typed_keys : list (string * bool) :=\n  "
               + coq_list([f"({coq_str(k)}, {'true' if b else 'false'})" for k, b in c["typed"]]) + ".")
    out.append("Definition key_aliases : list (string * string) :=\n  "
               + coq_list([f"({coq_str(a)}, {coq_str(b)})" for a, b in c["aliases"]]) + ".")
    out.append("(* parse_section inversion chain: key.startswith(prefix) and hasattr(template, added ++ key[dropped:]) *)\n"
               "Definition inversion_rules : list inv_rule :=\n  "
               + coq_list([f"({coq_str(p)}, {n}, {coq_str(a)})" for p, n, a in c["rules"]]) + ".")
    return "\n\n".join(out) + "\n"


def tables() -> dict:
    """The extracted tables as Python data (used by the harness to cross-check against the live objects)."""
    return {"main": extract_main(vlib.read_repo("mypy/main.py")),
            "options": extract_options(vlib.read_repo("mypy/options.py")),
            "config": extract_config_parser(vlib.read_repo("mypy/config_parser.py"))}


def generate() -> dict[str, str]:
    files = {"Flags.v": gen_flags()}
    for k, v in files.items():
        vlib.write_if_changed(os.path.join(vlib.GEN, k), v)
    return files


if __name__ == "__main__":
    for k, v in generate().items():
        print(f"(* ==== {k} ==== *)\n{v}")
