"""T5 (property C13): regenerate coq/gen/ErrorsCore.v from /repo (fail-closed).

Translated, from the text of the working tree (ast only, mypy is not imported):
  mypy/errors.py  Errors.is_error_code_enabled, Errors.is_ignored_error
  mypy/util.py    count_stats (and the module-level helper functions it calls, if any)
  mypy/main.py    the exit-status computation of main():  code = 0 / count_stats / if ...: code = ...

The object state these read is turned into Section variables (`disabled_error_codes`,
`enabled_error_codes` of self.options).  Type discipline: see TAGS below; Optional values are
narrowed exactly where Python's short-circuit `x and ...` / `x is not None and ...` narrows them.
"""
from __future__ import annotations

import ast
import copy
import os
import sys

sys.path.insert(0, os.path.dirname(os.path.dirname(os.path.abspath(__file__))))
import vlib
from py2gallina import Translator, Fn, Unsupported, fail, coq_string

HEADER = """(* GENERATED from {src} by tools/extractors/t13.py -- do not edit; regenerated on every run *)
From Coq Require Import ZArith List String Ascii Bool.
From C13 Require Import Types.
Import ListNotations.
Open Scope Z_scope.
"""

# type tags -> Coq types
TAGS = {
    "Z": "Z", "bool": "bool", "str": "string", "optstr": "(option string)",
    "info": "info", "code": "ecode", "optcode": "(option ecode)",
    "pcode": "string", "optpcode": "(option string)",       # a parent ErrorCode, by name
    "dict": "dict", "strlist": "(list string)", "strset": "(list string)", "codeset": "(list string)",
    "Z3": "(Z * Z * Z)%type", "self": None,
}
OPT = {"optcode": "code", "optpcode": "pcode", "optstr": "str"}
INFO_ATTRS = {"blocker": ("iblocker", "bool"), "code": ("icode", "optcode"), "line": ("iline", "Z"),
              "only_once": ("ionce", "bool"), "message": ("imsg", "str")}
CODE_ATTRS = {"code": ("cname", "str"), "sub_code_of": ("csub", "optpcode"), "default_enabled": ("cdef", "bool")}
OPTION_SETS = ("disabled_error_codes", "enabled_error_codes")


class T13(Translator):
    def __init__(self, src: str, cls: str | None = None):
        super().__init__(src)
        if cls is not None:
            c = [n for n in self.tree.body if isinstance(n, ast.ClassDef) and n.name == cls]
            if len(c) != 1:
                raise Unsupported(f"class {cls} not found")
            self.funcs = {n.name: n for n in c[0].body if isinstance(n, ast.FunctionDef)}
        self.narrow: dict[str, tuple[str, str]] = {}
        self.fresh = 0
        self.known_calls = {}
        self.methods: dict[str, tuple[str, list[str], str]] = {}

    # ---------------------------------------------------------------- plumbing
    def function(self, cfg: Fn) -> str:  # self is dropped from the binders
        self.narrow = {}
        params = {k: v for k, v in cfg.params.items() if v != "self"}
        cfg.coq_params = " ".join(f"({n} : {TAGS[t]})" for n, t in params.items())
        cfg.coq_ret = TAGS[cfg.ret]
        f = self.funcs.get(cfg.name)
        if f is not None and f.args.defaults:
            raise fail(f, "defaults")
        return super().function(cfg)

    def ret_type(self, cfg: Fn) -> str:
        return TAGS[cfg.ret]

    def fall_off(self, cfg: Fn) -> str | None:
        return "None" if cfg.ret == "optstr" else None

    def wrap_return(self, e: str, t: str, node: ast.AST) -> str:
        r = self.cfg.ret
        if r == t:
            return e
        if r == "optstr" and t == "none":
            return "None"
        if r == "optstr" and t == "str":
            return f"(Some {e})"
        raise fail(node, f"cannot return {t} as {r}")

    def var(self) -> str:
        self.fresh += 1
        return f"v{self.fresh}_"

    # ---------------------------------------------------------------- conditions with narrowing
    def narrowing(self, e: ast.expr, env: dict[str, str]) -> tuple[str, str, str] | None:
        """If the truth of `e` means 'X is not None' return (key of X, coq of X, narrowed tag)."""
        x = None
        if isinstance(e, ast.Compare) and len(e.ops) == 1 and isinstance(e.ops[0], ast.IsNot) \
                and isinstance(e.comparators[0], ast.Constant) and e.comparators[0].value is None:
            x = e.left
        elif isinstance(e, (ast.Attribute, ast.Name)):
            x = e
        if x is None:
            return None
        c, t = self.expr(x, env)
        if t in OPT and t != "optstr":
            return ast.unparse(x), c, OPT[t]
        return None

    def truth(self, e: ast.expr, env: dict[str, str]) -> str:
        c, t = self.expr(e, env)
        if t == "bool":
            return c
        if t in OPT:
            return f"(is_some {c})"
        if t in ("strlist", "strset", "codeset"):
            return f"(negb (list_empty {c}))"
        raise fail(e, f"truth value of {t}")

    def cond(self, tests: list[ast.expr], env: dict[str, str], then, orelse: str) -> str:
        """Gallina for: if all(tests) (short-circuit, left to right) then then() else orelse."""
        if not tests:
            return then()
        a, rest = tests[0], tests[1:]
        if isinstance(a, ast.BoolOp) and isinstance(a.op, ast.And):
            return self.cond(list(a.values) + rest, env, then, orelse)
        n = self.narrowing(a, env)
        if n is not None:
            key, c, tag = n
            v = self.var()
            old = self.narrow.get(key)
            self.narrow[key] = (v, tag)
            try:
                inner = self.cond(rest, env, then, orelse)
            finally:
                if old is None:
                    del self.narrow[key]
                else:
                    self.narrow[key] = old
            return f"(match {c} with Some {v} => {inner} | None => {orelse} end)"
        return f"(if {self.truth(a, env)} then {self.cond(rest, env, then, orelse)}\n else {orelse})"

    def block(self, stmts, env, k):
        if stmts and isinstance(stmts[0], ast.If):
            s, rest = stmts[0], stmts[1:]
            krest = self.block(rest, env, k) if (rest or k is not None) else None
            b = self.block(s.orelse, dict(env), krest)
            return self.cond([s.test], env, lambda: self.block(s.body, dict(env), krest), b)
        if stmts and isinstance(stmts[0], ast.Assign) and len(stmts[0].targets) == 1 \
                and isinstance(stmts[0].targets[0], ast.Tuple):
            s, rest = stmts[0], stmts[1:]
            names = []
            for el in s.targets[0].elts:
                if not isinstance(el, ast.Name):
                    raise fail(s, "tuple target")
                names.append(el.id)
            e, t = self.expr(s.value, env)
            if t != "Z3" or len(names) != 3:
                raise fail(s, f"tuple assignment from {t}")
            env2 = dict(env)
            for nme in names:
                env2[nme] = "Z"
            return f"(let '({', '.join(names)}) := {e} in\n {self.block(rest, env2, k)})"
        return super().block(stmts, env, k)

    # ---------------------------------------------------------------- expressions
    def expr(self, e: ast.expr, env: dict[str, str]) -> tuple[str, str]:
        if isinstance(e, (ast.Attribute, ast.Name)):
            key = ast.unparse(e)
            if key in self.narrow:
                return self.narrow[key]
        if isinstance(e, ast.Attribute):
            # self.options.<set>
            if isinstance(e.value, ast.Attribute) and isinstance(e.value.value, ast.Name) \
                    and env.get(e.value.value.id) == "self" and e.value.attr == "options" and e.attr in OPTION_SETS:
                return e.attr, "codeset"
            b, t = self.expr(e.value, env)
            table = {"info": INFO_ATTRS, "code": CODE_ATTRS}.get(t)
            if table and e.attr in table:
                f, rt = table[e.attr]
                return f"({f} {b})", rt
            if t == "pcode" and e.attr == "code":
                return b, "str"
            raise fail(e, f"attribute .{e.attr} of {t}")
        if isinstance(e, ast.BoolOp):
            if isinstance(e.op, ast.And):
                return self.cond(list(e.values), env, lambda: "true", "false"), "bool"
            return "(" + " || ".join(self.truth(x, env) for x in e.values) + ")", "bool"
        if isinstance(e, ast.UnaryOp) and isinstance(e.op, ast.Not):
            return f"(negb {self.truth(e.operand, env)})", "bool"
        if isinstance(e, ast.IfExp):
            c = self.truth(e.test, env)
            (a, ta), (b, tb) = self.expr(e.body, env), self.expr(e.orelse, env)
            if ta != tb:
                raise fail(e, "conditional expression of two types")
            return f"(if {c} then {a} else {b})", ta
        if isinstance(e, ast.Tuple) and len(e.elts) == 3:
            parts = [self.expr(x, env) for x in e.elts]
            if any(t != "Z" for _, t in parts):
                raise fail(e, "tuple of non-ints")
            return "(" + ", ".join(p for p, _ in parts) + ")", "Z3"
        if isinstance(e, ast.Subscript):
            # d[k]
            if not isinstance(e.slice, ast.Constant):
                b, t = self.expr(e.value, env)
                k, kt = self.expr(e.slice, env)
                if t == "dict" and kt == "Z":
                    return f"(dict_get {b} {k})", "strlist"
                raise fail(e, f"subscript of {t}")
            # s.split(":")[0]
            v = e.value
            if e.slice.value == 0 and isinstance(v, ast.Call) and isinstance(v.func, ast.Attribute) \
                    and v.func.attr == "split" and len(v.args) == 1 and not v.keywords \
                    and isinstance(v.args[0], ast.Constant) and isinstance(v.args[0].value, str) \
                    and len(v.args[0].value) == 1:
                b, t = self.expr(v.func.value, env)
                if t == "str":
                    return f"(str_split_head (sep_char {coq_string(v.args[0].value)}) {b})", "str"
            raise fail(e, "subscript")
        if isinstance(e, (ast.ListComp, ast.SetComp)):
            if len(e.generators) != 1:
                raise fail(e, "comprehension")
            g = e.generators[0]
            if g.is_async or not isinstance(g.target, ast.Name) or len(g.ifs) > 1:
                raise fail(e, "comprehension")
            src, st = self.expr(g.iter, env)
            if st not in ("strlist", "strset"):
                raise fail(e, f"comprehension over {st}")
            x = g.target.id
            env2 = dict(env)
            env2[x] = "str"
            body = src
            if g.ifs:
                body = f"(filter (fun {x} : string => {self.truth(g.ifs[0], env2)}) {body})"
            elt, et = self.expr(e.elt, env2)
            if et != "str":
                raise fail(e, f"comprehension element {et}")
            if not (isinstance(e.elt, ast.Name) and e.elt.id == x):
                body = f"(map (fun {x} : string => {elt}) {body})"
            if isinstance(e, ast.SetComp):
                return f"(str_nodup {body})", "strset"
            return body, "strlist"
        if isinstance(e, ast.Call):
            if e.keywords:
                raise fail(e, "keyword arguments")
            f = e.func
            if isinstance(f, ast.Name) and f.id == "len" and len(e.args) == 1:
                b, t = self.expr(e.args[0], env)
                if t in ("strlist", "strset"):
                    return f"(len {b})", "Z"
                raise fail(e, f"len of {t}")
            if isinstance(f, ast.Attribute) and f.attr == "find" and len(e.args) == 1:
                b, t = self.expr(f.value, env)
                a, at = self.expr(e.args[0], env)
                if t == at == "str":
                    return f"(str_find {a} {b})", "Z"
                raise fail(e, "find")
            # self.method(...) / module.function(...)
            if isinstance(f, ast.Attribute) and isinstance(f.value, ast.Name):
                table = self.methods if env.get(f.value.id) == "self" else \
                    (self.known_calls if f.value.id not in env else {})
                if f.attr in table:
                    coq, ptypes, rt = table[f.attr]
                    if len(e.args) != len(ptypes):
                        raise fail(e, "arity")
                    args = []
                    for a, pt in zip(e.args, ptypes):
                        x, t = self.expr(a, env)
                        if t != pt:
                            raise fail(e, f"argument type {t} != {pt}")
                        args.append(x)
                    return f"({coq} {' '.join(args)})", rt
            if isinstance(f, ast.Name):
                return super().expr(e, env)
            raise fail(e, "call")
        return super().expr(e, env)

    def compare(self, a, op, b, env, node) -> str:
        if isinstance(op, (ast.In, ast.NotIn)) and not isinstance(b, (ast.Tuple, ast.Set, ast.List)):
            x, xt = self.expr(a, env)
            y, yt = self.expr(b, env)
            if xt == "Z" and yt == "dict":
                r = f"(dict_has {y} {x})"
            elif xt == "str" and yt in ("strlist", "strset", "codeset"):
                r = f"(mem_str {x} {y})"
            elif xt == "code" and yt == "codeset":      # ErrorCode.__eq__/__hash__: by .code
                r = f"(mem_str (cname {x}) {y})"
            elif xt == "pcode" and yt == "codeset":
                r = f"(mem_str {x} {y})"
            elif xt == "str" and yt == "str":
                r = f"(str_contains {x} {y})"
            else:
                raise fail(node, f"`in` on {xt}, {yt}")
            return r if isinstance(op, ast.In) else f"(negb {r})"
        if isinstance(op, (ast.Is, ast.IsNot)) and isinstance(b, ast.Constant) and b.value is None:
            x, xt = self.expr(a, env)
            if xt not in OPT:
                raise fail(node, f"is None on {xt}")
            return f"(is_some {x})" if isinstance(op, ast.IsNot) else f"(negb (is_some {x}))"
        if isinstance(op, (ast.Eq, ast.NotEq)):
            x, xt = self.expr(a, env)
            y, yt = self.expr(b, env)
            if xt == "optstr" and yt == "str":
                r = f"(opt_str_eqb {x} {y})"
                return r if isinstance(op, ast.Eq) else f"(negb {r})"
        return super().compare(a, op, b, env, node)


# -------------------------------------------------------------------- the three sources

def gen_errors() -> str:
    tr = T13(vlib.read_repo("mypy/errors.py"), cls="Errors")
    out = []
    out.append(tr.function(Fn("is_error_code_enabled", {"self": "self", "error_code": "code"}, "bool")))
    tr.methods = {"is_error_code_enabled": ("is_error_code_enabled", ["code"], "bool")}
    out.append(tr.function(Fn("is_ignored_error", {"self": "self", "line": "Z", "info": "info", "ignores": "dict"}, "bool")))
    return ("Section ErrorsPredicates.\n(* self.options.disabled_error_codes / enabled_error_codes, as sets of code names *)\n"
            "Variable disabled_error_codes enabled_error_codes : list string.\n\n"
            + "\n\n".join(out) + "\n\nEnd ErrorsPredicates.")


def called_names(f: ast.FunctionDef) -> list[str]:
    return [n.func.id for n in ast.walk(f) if isinstance(n, ast.Call) and isinstance(n.func, ast.Name)]


def gen_util() -> tuple[str, list[str]]:
    tr = T13(vlib.read_repo("mypy/util.py"))
    if "count_stats" not in tr.funcs:
        raise Unsupported("count_stats not found")
    out = []
    helpers = []
    for name in called_names(tr.funcs["count_stats"]):
        if name in tr.funcs and name not in helpers and name != "count_stats":
            helpers.append(name)
    for h in helpers:
        f = tr.funcs[h]
        if [a.arg for a in f.args.args] != [f.args.args[0].arg] or called_names(f):
            raise fail(f, "helper of count_stats must be a one-argument leaf function")
        arg = f.args.args[0].arg
        last = None
        for ret in ("bool", "optstr", "Z"):
            try:
                out.append(tr.function(Fn(h, {arg: "str"}, ret)))
                tr.known_calls[h] = (h, ["str"], ret)
                break
            except Unsupported as ex:
                last = ex
        else:
            raise last  # type: ignore[misc]
    out.append(tr.function(Fn("count_stats", {"messages": "strlist"}, "Z3")))
    return "\n\n".join(out), helpers


def find_exit_block(main: ast.FunctionDef) -> list[ast.stmt]:
    body = main.body
    for i, s in enumerate(body):
        if isinstance(s, ast.Assign) and isinstance(s.targets[0], ast.Tuple) and isinstance(s.value, ast.Call) \
                and isinstance(s.value.func, ast.Attribute) and s.value.func.attr == "count_stats":
            if i == 0 or i + 1 >= len(body):
                break
            prev, nxt = body[i - 1], body[i + 1]
            if not (isinstance(prev, ast.Assign) and isinstance(prev.targets[0], ast.Name) and prev.targets[0].id == "code"):
                raise fail(prev, "expected `code = <const>` before count_stats")
            if not isinstance(nxt, ast.If):
                raise fail(nxt, "expected `if ...: code = ...` after count_stats")
            for n in ast.walk(nxt):
                if isinstance(n, ast.Assign) and not (isinstance(n.targets[0], ast.Name) and n.targets[0].id == "code"):
                    raise fail(n, "exit-status block assigns something else than `code`")
            # `code` must not be reassigned later except in the install_types branch (out of scope, noted)
            for later in body[i + 2:]:
                for n in ast.walk(later):
                    if isinstance(n, ast.Assign) and any(isinstance(t, ast.Name) and t.id == "code" for t in n.targets):
                        guard = ast.unparse(later.test) if isinstance(later, ast.If) else ""
                        if "install_types" not in guard:
                            raise fail(n, "`code` reassigned after the exit-status block")
            return [prev, s, nxt]
    raise Unsupported("exit-status block (count_stats call) not found in main()")


def gen_main() -> str:
    tr = T13(vlib.read_repo("mypy/main.py"))
    if "main" not in tr.funcs:
        raise Unsupported("main() not found")
    stmts = [copy.deepcopy(s) for s in find_exit_block(tr.funcs["main"])]
    f = ast.parse("def exit_code(messages, blockers):\n    pass\n").body[0]
    assert isinstance(f, ast.FunctionDef)
    f.body = stmts + [ast.Return(value=ast.Name(id="code", ctx=ast.Load()))]
    tr.funcs["exit_code"] = f
    tr.known_calls["count_stats"] = ("count_stats", ["strlist"], "Z3")
    return tr.function(Fn("exit_code", {"messages": "strlist", "blockers": "bool"}, "Z"))


ALT = os.path.join(vlib.COQ, "C13", "alt")


def exit_variant() -> str:
    """Which exit-status alternative applies to the count_stats of the working tree, decided on its syntax:
    `refuted` while a comprehension filters by a substring test (`": note:" in e`), otherwise `truth`.
    The harness then BUILDS the chosen file; if it does not build it tries the other one."""
    tree = ast.parse(vlib.read_repo("mypy/util.py"))
    fs = [n for n in tree.body if isinstance(n, ast.FunctionDef) and n.name == "count_stats"]
    if len(fs) != 1:
        raise Unsupported("count_stats not found")
    for n in ast.walk(fs[0]):
        if isinstance(n, ast.Compare) and len(n.ops) == 1 and isinstance(n.ops[0], ast.In) \
                and isinstance(n.left, ast.Constant) and isinstance(n.left.value, str):
            return "refuted"
    return "truth"


def place_exit(variant: str) -> dict[str, str]:
    """Copy coq/C13/alt/Exit<Variant>{,Proofs}.v.txt to coq/gen/ErrorsExit{,Proofs}.v (gen/ is regenerated)."""
    name = {"truth": "ExitTruth", "refuted": "ExitRefuted"}[variant]
    out = {}
    for suffix in ("Proofs", ""):
        with open(os.path.join(ALT, f"{name}{suffix}.v.txt"), encoding="utf-8") as f:
            text = f"(* COPIED from coq/C13/alt/{name}{suffix}.v.txt by tools/extractors/t13.py (variant: {variant}) *)\n" + f.read()
        vlib.write_if_changed(os.path.join(vlib.GEN, f"ErrorsExit{suffix}.v"), text)
        out[f"ErrorsExit{suffix}.v"] = text
    return out


def watcher_shape() -> bool:
    """True iff the note that note_for_info attaches to an info goes through _filter_error in _add_error_info
    (the ErrorWatcher stack is asked again for it).  Fail-closed on any other shape."""
    tree = ast.parse(vlib.read_repo("mypy/errors.py"))
    cls = [n for n in tree.body if isinstance(n, ast.ClassDef) and n.name == "Errors"]
    if len(cls) != 1:
        raise Unsupported("class Errors not found")
    fs = {n.name: n for n in cls[0].body if isinstance(n, ast.FunctionDef)}
    for need in ("_add_error_info", "note_for_info", "add_error_info", "report_simple_error", "_filter_error"):
        if need not in fs:
            raise Unsupported(f"Errors.{need} not found")
    f = fs["_add_error_info"]

    def is_filter_call(e: ast.expr) -> bool:
        return (isinstance(e, ast.Call) and isinstance(e.func, ast.Attribute) and e.func.attr == "_filter_error"
                and isinstance(e.func.value, ast.Name) and e.func.value.id == "self" and not e.keywords
                and [ast.unparse(a) for a in e.args] == ["file", "info"])
    guards = [n for n in ast.walk(f) if isinstance(n, ast.If) and any(is_filter_call(x) for x in ast.walk(n.test))]
    if len(guards) != 1 or not (len(guards[0].body) == 1 and isinstance(guards[0].body[0], ast.Return) and not guards[0].orelse):
        raise fail(f, "_add_error_info: expected exactly one `if ..._filter_error(file, info): return`")
    test = guards[0].test
    flag = None
    if is_filter_call(test):
        pass
    elif (isinstance(test, ast.BoolOp) and isinstance(test.op, ast.And) and len(test.values) == 2
          and isinstance(test.values[0], ast.UnaryOp) and isinstance(test.values[0].op, ast.Not)
          and isinstance(test.values[0].operand, ast.Name) and is_filter_call(test.values[1])):
        flag = test.values[0].operand.id
        kw = {a.arg: d for a, d in zip(f.args.kwonlyargs, f.args.kw_defaults)}
        if flag not in kw or not (isinstance(kw[flag], ast.Constant) and kw[flag].value is False):
            raise fail(f, "_add_error_info: the guard flag must be a keyword-only parameter defaulting to False")
    else:
        raise fail(test, "_add_error_info: unsupported watcher guard")

    def calls(fn: ast.FunctionDef) -> list[ast.Call]:
        return [n for n in ast.walk(fn) if isinstance(n, ast.Call) and isinstance(n.func, ast.Attribute)
                and n.func.attr == "_add_error_info"]
    for name in ("add_error_info", "report_simple_error"):
        for c in calls(fs[name]):
            if c.keywords:
                raise fail(c, f"{name}: _add_error_info called with keywords")
    cs = calls(fs["note_for_info"])
    if len(cs) != 1:
        raise fail(fs["note_for_info"], "note_for_info: expected one call of _add_error_info")
    kws = {k.arg: k.value for k in cs[0].keywords}
    if not kws:
        return True
    if flag is not None and list(kws) == [flag] and isinstance(kws[flag], ast.Constant) and kws[flag].value is True:
        return False
    raise fail(cs[0], "note_for_info: unsupported call of _add_error_info")


def watch_variant() -> str:
    return "reentry" if watcher_shape() else "bypass"


def place_watch(variant: str) -> dict[str, str]:
    name = {"reentry": "WatchReentry", "bypass": "WatchBypass"}[variant]
    with open(os.path.join(ALT, f"{name}.v.txt"), encoding="utf-8") as f:
        text = f"(* COPIED from coq/C13/alt/{name}.v.txt by tools/extractors/t13.py (variant: {variant}) *)\n" + f.read()
    vlib.write_if_changed(os.path.join(vlib.GEN, "ErrorsWatch.v"), text)
    return {"ErrorsWatch.v": text}


def code_table() -> list[tuple[str, str | None, bool]]:
    """(code, sub_code_of.code, default_enabled) of every module-level `X = ErrorCode(...)` of mypy/errorcodes.py, in
    source order (two objects may share a code string: CALL_ARG / CALL_ARG_MISC).  Fail-closed on any other call shape."""
    tree = ast.parse(vlib.read_repo("mypy/errorcodes.py"))
    byvar: dict[str, str] = {}
    out: list[tuple[str, str | None, bool]] = []
    for n in tree.body:
        tgt = val = None
        if isinstance(n, ast.AnnAssign) and isinstance(n.target, ast.Name):
            tgt, val = n.target.id, n.value
        elif isinstance(n, ast.Assign) and len(n.targets) == 1 and isinstance(n.targets[0], ast.Name):
            tgt, val = n.targets[0].id, n.value
        if not (tgt and isinstance(val, ast.Call) and isinstance(val.func, ast.Name) and val.func.id == "ErrorCode"):
            continue
        args = list(val.args)
        kws = {k.arg: k.value for k in val.keywords}
        if len(args) < 3 or len(args) > 5 or not all(isinstance(a, ast.Constant) and isinstance(a.value, str) for a in args[:3]):
            raise fail(val, "ErrorCode(...): unsupported arguments")
        dflt_e = args[3] if len(args) > 3 else kws.pop("default_enabled", None)
        sub_e = args[4] if len(args) > 4 else kws.pop("sub_code_of", None)
        if kws:
            raise fail(val, "ErrorCode(...): unsupported keywords")
        if dflt_e is None:
            dflt = True
        elif isinstance(dflt_e, ast.Constant) and isinstance(dflt_e.value, bool):
            dflt = dflt_e.value
        else:
            raise fail(val, "default_enabled is not a literal")
        sub = None
        if sub_e is not None and not (isinstance(sub_e, ast.Constant) and sub_e.value is None):
            if not (isinstance(sub_e, ast.Name) and sub_e.id in byvar):
                raise fail(val, "sub_code_of is not a previously defined ErrorCode variable")
            sub = byvar[sub_e.id]
        byvar[tgt] = args[0].value
        out.append((args[0].value, sub, dflt))
    if len(out) < 20:
        raise Unsupported("errorcodes.py: too few ErrorCode definitions found")
    return out


def gen_codes() -> str:
    rows = []
    for name, sub, dflt in code_table():
        rows.append(f"  mk_ecode {coq_string(name)} {'(Some ' + coq_string(sub) + ')' if sub else 'None'} {'true' if dflt else 'false'} None")
    return (HEADER.format(src="mypy/errorcodes.py") +
            "\n(* every module-level ErrorCode(...) of mypy/errorcodes.py: code, sub_code_of.code, default_enabled\n"
            "   (corig, the original_error_codes entry of mypy/errors.py, is not part of this table) *)\n"
            "Definition code_table : list ecode := [\n" + ";\n".join(rows) + "\n].\n")


def generate() -> dict[str, str]:
    util, helpers = gen_util()
    text = "\n\n".join([
        HEADER.format(src="mypy/errors.py, mypy/util.py, mypy/main.py"),
        gen_errors(),
        "(* mypy/util.py *)\n" + util,
        "(* mypy/main.py main(): exit status *)\n" + gen_main(),
        "(* mypy/errors.py: does the note attached by note_for_info go through _filter_error in _add_error_info? *)\n"
        f"Definition attached_notes_reenter_watchers : bool := {'true' if watcher_shape() else 'false'}.",
    ]) + "\n"
    vlib.write_if_changed(os.path.join(vlib.GEN, "ErrorsCore.v"), text)
    files = {"ErrorsCore.v": text}
    codes_text = gen_codes()
    vlib.write_if_changed(os.path.join(vlib.GEN, "ErrorCodes.v"), codes_text)
    files["ErrorCodes.v"] = codes_text
    files.update(place_exit(exit_variant()))
    files.update(place_watch(watch_variant()))
    return files


if __name__ == "__main__":
    for k, v in generate().items():
        print(f"(* ==== {k} ==== *)\n{v}")
