"""T15: regenerate coq/gen/C15ErrKinds.v from /repo (fail-closed; ast only, no import of mypyc).

Extracted: (a) the error ("magic") return values of the native types from mypyc/ir/rtypes.py (RPrimitive.__init__,
c_undefined), (b) for every primitive registered in mypyc/primitives/int_ops.py and float_ops.py whose return type is
a fixed-width int or float: its C function name, return type and declared error_kind."""
from __future__ import annotations
import ast, os, sys
sys.path.insert(0, os.path.dirname(os.path.dirname(os.path.abspath(__file__))))
import vlib

RT = {"int64_rprimitive": "RFw I64", "int32_rprimitive": "RFw I32", "int16_rprimitive": "RFw I16",
      "uint8_rprimitive": "RFw U8", "float_rprimitive": "RFloat"}
EK = {"ERR_NEVER": "ErrNever", "ERR_MAGIC": "ErrMagic", "ERR_FALSE": "ErrFalse", "ERR_ALWAYS": "ErrAlways",
      "ERR_MAGIC_OVERLAPPING": "ErrMagicOverlapping"}
REG = {"custom_op", "function_op", "binary_op", "method_op", "unary_op", "int_binary_op", "int_binary_primitive", "int_unary_op"}


class Unsupported(Exception):
    pass


def magic_values() -> dict[str, int]:
    """ctype -> error value, from the if/elif chain on `ctype` in RPrimitive.__init__."""
    tree = ast.parse(vlib.read_repo("mypyc/ir/rtypes.py"))
    out: dict[str, int] = {}
    for node in ast.walk(tree):
        if isinstance(node, ast.If) and isinstance(node.test, ast.Compare) and isinstance(node.test.left, ast.Name) and node.test.left.id == "ctype":
            names = [c.value for c in ast.walk(node.test) if isinstance(c, ast.Constant) and isinstance(c.value, str)]
            for st in node.body:
                if isinstance(st, ast.Assign) and isinstance(st.targets[0], ast.Attribute) and st.targets[0].attr == "c_undefined" \
                        and isinstance(st.value, ast.Constant) and isinstance(st.value.value, str):
                    for n in names:
                        try:
                            v = float(st.value.value)
                        except ValueError:
                            continue
                        if v != int(v):
                            raise Unsupported(f"non-integral error value {st.value.value} for {n}")
                        out[n] = int(v)
    for need in ("int64_t", "int32_t", "int16_t", "uint8_t", "double"):
        if need not in out:
            raise Unsupported(f"error value of {need} not found in rtypes.py")
    return out


def table() -> list[tuple[str, str, str, str]]:
    rows = []
    for rel in ("mypyc/primitives/int_ops.py", "mypyc/primitives/float_ops.py"):
        tree = ast.parse(vlib.read_repo(rel))
        for node in ast.walk(tree):
            if not (isinstance(node, ast.Call) and isinstance(node.func, ast.Name) and node.func.id in REG):
                continue
            kw = {k.arg: k.value for k in node.keywords}
            rt = kw.get("return_type")
            if not (isinstance(rt, ast.Name) and rt.id in RT):
                continue
            ek = kw.get("error_kind")
            cf = kw.get("c_function_name")
            if cf is None and node.func.id == "int_binary_op" and len(node.args) >= 2:
                cf = node.args[1]
            if not (isinstance(ek, ast.Name) and ek.id in EK):
                raise Unsupported(f"{rel}:{node.lineno}: error_kind of a native-returning primitive is not a literal ERR_* name")
            if not (isinstance(cf, ast.Constant) and isinstance(cf.value, str)):
                raise Unsupported(f"{rel}:{node.lineno}: c_function_name is not a string literal")
            rows.append((cf.value, RT[rt.id], EK[ek.id], f"{rel}:{node.lineno}"))
    names = {r[0] for r in rows}
    for need in ("CPyInt64_Divide", "CPyInt64_Remainder", "CPyInt32_Divide", "CPyInt32_Remainder", "CPyInt16_Divide",
                 "CPyInt16_Remainder", "CPyLong_AsInt64", "CPyLong_AsInt32", "CPyTagged_TrueDivide", "CPyFloat_FloorDivide"):
        if need not in names:
            raise Unsupported(f"primitive {need} not found")
    return sorted(set(rows))


def generate() -> None:
    mv = magic_values()
    rows = table()
    z = lambda n: f"({n})" if n < 0 else str(n)  # noqa
    out = ["(* GENERATED from mypyc/ir/rtypes.py, mypyc/primitives/int_ops.py, float_ops.py by tools/extractors/t15.py -- do not edit *)",
           "From Coq Require Import ZArith List String.", "From C15 Require Import Model.", "Import ListNotations.", "Open Scope Z_scope.", "",
           "Definition src_magic (t : fw) : Z :=",
           f"  match t with I64 => {z(mv['int64_t'])} | I32 => {z(mv['int32_t'])} | I16 => {z(mv['int16_t'])} | U8 => {z(mv['uint8_t'])} end.",
           f"Definition src_magic_float : Z := {z(mv['double'])}.", "",
           "(* C function, return kind, declared error_kind *)",
           "Definition err_table : list (string * rkind * errkind) := ["]
    out.append(";\n".join(f'  ("{n}"%string, {rt}, {ek})   (* {src} *)' for n, rt, ek, src in rows))
    out.append("].")
    vlib.write_if_changed(os.path.join(vlib.GEN, "C15ErrKinds.v"), "\n".join(out) + "\n")


if __name__ == "__main__":
    generate()
    print(magic_values(), len(table()))
