"""T8 (C08): which flags enter the subtype-cache key.  Reads mypy/subtypes.py with `ast` only (no import of mypy)
and regenerates coq/gen/SubtypeKind.v.  Fail-closed: any unexpected shape raises."""
from __future__ import annotations
import ast
import os
import sys
sys.path.insert(0, os.path.dirname(os.path.dirname(os.path.abspath(__file__))))
import vlib


class Unsupported(Exception):
    pass


def _cls(tree: ast.Module, name: str) -> ast.ClassDef:
    for n in tree.body:
        if isinstance(n, ast.ClassDef) and n.name == name:
            return n
    raise Unsupported(f"class {name} not found in mypy/subtypes.py")


def _fn(c: ast.ClassDef, name: str) -> ast.FunctionDef:
    for n in c.body:
        if isinstance(n, ast.FunctionDef) and n.name == name:
            return n
    raise Unsupported(f"{c.name}.{name} not found")


def extract() -> dict[str, list[str]]:
    tree = ast.parse(vlib.read_repo("mypy/subtypes.py"))
    # 1. the key: build_subtype_kind must be a single `return (<elements>)`
    f = _fn(_cls(tree, "SubtypeVisitor"), "build_subtype_kind")
    params = [a.arg for a in f.args.args]
    if params != ["subtype_context", "proper_subtype"]:
        raise Unsupported(f"build_subtype_kind parameters changed: {params}")
    body = [b for b in f.body if not (isinstance(b, ast.Expr) and isinstance(b.value, ast.Constant))]
    if len(body) != 1 or not isinstance(body[0], ast.Return) or not isinstance(body[0].value, ast.Tuple):
        raise Unsupported("build_subtype_kind is not a single `return (tuple)`")
    key: list[str] = []
    for e in body[0].value.elts:
        if isinstance(e, ast.Name) and e.id == "proper_subtype":
            key.append("proper_subtype")
        elif isinstance(e, ast.Attribute) and isinstance(e.value, ast.Name) and e.value.id == "subtype_context":
            key.append(e.attr)
        elif isinstance(e, ast.Attribute) and isinstance(e.value, ast.Name) and e.value.id == "state" \
                and e.attr == "strict_optional":
            key.append("strict_optional")
        else:
            raise Unsupported("unexpected element in the subtype kind tuple: " + ast.dump(e)[:80])
    # 2. the fields of SubtypeContext: keyword-only parameters of __init__, each stored as self.<name>
    init = _fn(_cls(tree, "SubtypeContext"), "__init__")
    if [a.arg for a in init.args.args] != ["self"] or init.args.vararg or init.args.kwarg:
        raise Unsupported("SubtypeContext.__init__ takes unexpected positional parameters")
    fields = [a.arg for a in init.args.kwonlyargs]
    stored = set()
    for st in init.body:
        if isinstance(st, ast.Assign) and len(st.targets) == 1 and isinstance(st.targets[0], ast.Attribute) \
                and isinstance(st.targets[0].value, ast.Name) and st.targets[0].value.id == "self" \
                and isinstance(st.value, ast.Name) and st.value.id == st.targets[0].attr:
            stored.add(st.targets[0].attr)
        else:
            raise Unsupported("SubtypeContext.__init__ does more than store its parameters")
    if stored != set(fields):
        raise Unsupported(f"SubtypeContext fields {sorted(stored)} differ from its parameters {fields}")
    # 3. every attribute of a subtype context that is read anywhere in the module must be one of the fields
    reads = set()
    for n in ast.walk(tree):
        if isinstance(n, ast.Attribute) and isinstance(n.ctx, ast.Load):
            v = n.value
            if (isinstance(v, ast.Name) and v.id == "subtype_context") or \
               (isinstance(v, ast.Attribute) and v.attr == "subtype_context"):
                reads.add(n.attr)
    reads -= {"check_context"}
    if not reads <= set(fields):
        raise Unsupported(f"subtype context attributes read but not declared: {sorted(reads - set(fields))}")
    return {"key": key, "fields": fields, "reads": sorted(reads)}


def coq_list(xs: list[str]) -> str:
    return "[" + "; ".join('"' + x + '"' for x in xs) + "]"


def gen() -> str:
    d = extract()
    return (
        "(* GENERATED from mypy/subtypes.py by tools/extractors/t08.py -- do not edit; regenerated on every run *)\n"
        "From Coq Require Import List String.\nImport ListNotations.\nOpen Scope string_scope.\n\n"
        "(* elements of the tuple returned by SubtypeVisitor.build_subtype_kind, in order *)\n"
        f"Definition kind_key_fields : list string := {coq_list(d['key'])}.\n\n"
        "(* keyword parameters (= attributes) of SubtypeContext *)\n"
        f"Definition context_fields : list string := {coq_list(d['fields'])}.\n\n"
        "(* attributes of a subtype context read somewhere in mypy/subtypes.py *)\n"
        f"Definition context_reads : list string := {coq_list(d['reads'])}.\n")


def generate() -> dict[str, str]:
    files = {"SubtypeKind.v": gen()}
    for k, v in files.items():
        vlib.write_if_changed(os.path.join(vlib.GEN, k), v)
    return files


if __name__ == "__main__":
    for k, v in generate().items():
        print(f"(* ==== {k} ==== *)\n{v}")
