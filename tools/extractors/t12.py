"""T1/T2: regenerate coq/gen/ConstFold.v and coq/gen/Reach.v from /repo (fail-closed)."""
from __future__ import annotations
import os, sys
sys.path.insert(0, os.path.dirname(os.path.dirname(os.path.abspath(__file__))))
import vlib
from py2gallina import Translator, Fn, Unsupported

HEADER = """(* GENERATED from {src} by tools/extractors/t12.py -- do not edit; regenerated on every run *)
From Coq Require Import ZArith List String Bool.
From C12 Require Import PyRules.
Import ListNotations.
Open Scope Z_scope.
"""


def gen_constfold() -> str:
    tr = Translator(vlib.read_repo("mypy/constant_fold.py"))
    out = [HEADER.format(src="mypy/constant_fold.py")]
    out.append(tr.function(Fn("constant_fold_binary_int_op", {"op": "str", "left": "Z", "right": "Z"}, "fres")))
    # unary op and the binary dispatcher, partially evaluated for int operands
    out.append(tr.function(Fn("constant_fold_unary_op", {"op": "str", "value": "Z"}, "fres",
                              coq_name="constant_fold_unary_op_int")))
    tr.known_calls = {"constant_fold_binary_int_op": ("constant_fold_binary_int_op", ["str", "Z", "Z"], "fres")}
    f = tr.funcs.get("constant_fold_binary_op")
    if f is None:
        raise Unsupported("constant_fold_binary_op not found")
    # only the leading int/int dispatch is translated: the first statement must be it
    import ast, copy
    g = copy.deepcopy(f)
    g.body = [s for s in g.body if not (isinstance(s, ast.Expr) and isinstance(s.value, ast.Constant))][:1]
    g.body.append(ast.Return(value=ast.Constant(value=None)))
    tr.funcs["constant_fold_binary_op"] = g
    out.append(tr.function(Fn("constant_fold_binary_op", {"op": "str", "left": "Z", "right": "Z"}, "fres",
                              coq_name="constant_fold_binary_op_int")))
    return "\n\n".join(out) + "\n"


def gen_reach() -> str:
    tr = Translator(vlib.read_repo("mypy/reachability.py"))
    out = [HEADER.format(src="mypy/reachability.py")]
    out.append(tr.const_defs(["ALWAYS_TRUE", "MYPY_TRUE", "ALWAYS_FALSE", "MYPY_FALSE", "TRUTH_VALUE_UNKNOWN"]))
    out.append("Section FixedComparison.\nVariable T : Type.\nVariable cmp : T -> T -> comparison.")
    out.append(tr.function(Fn("fixed_comparison", {"left": "ord:T", "op": "str", "right": "ord:T"}, "Z")))
    out.append("End FixedComparison.")
    return "\n\n".join(out) + "\n"


def generate() -> dict[str, str]:
    files = {"ConstFold.v": gen_constfold(), "Reach.v": gen_reach()}
    for k, v in files.items():
        vlib.write_if_changed(os.path.join(vlib.GEN, k), v)
    return files


if __name__ == "__main__":
    for k, v in generate().items():
        print(f"(* ==== {k} ==== *)\n{v}")
