"""T1/T2: regenerate coq/gen/ConstFold.v and coq/gen/Reach.v from /repo (fail-closed)."""
from __future__ import annotations
import os, sys
sys.path.insert(0, os.path.dirname(os.path.dirname(os.path.abspath(__file__))))
import vlib
import ast
import copy
from py2gallina import Translator, Fn, Unsupported, fail, coq_string, coq_Z, coq_ty, COQ_TY

HEADER = """(* GENERATED from {src} by tools/extractors/t12.py -- do not edit; regenerated on every run *)
From Coq Require Import ZArith List String Bool.
From C12 Require Import PyRules.
Import ListNotations.
Open Scope Z_scope.
"""


COQ_TY.update({"listZ": "(list Z)", "vidx": "vidx", "thing": "thing", "num": "num"})
PYCLASS = {"Z": {"int"}, "str": {"str"}, "bytes": {"bytes"}}


class Rename(ast.NodeTransformer):
    """Replace attribute / subscript chains (given as unparsed source text) by plain names."""

    def __init__(self, table: dict[str, str]):
        self.table = table

    def generic_visit(self, node: ast.AST) -> ast.AST:
        if isinstance(node, (ast.Attribute, ast.Subscript)):
            txt = ast.unparse(node)
            if txt in self.table:
                return ast.copy_location(ast.Name(id=self.table[txt], ctx=ast.Load()), node)
        return super().generic_visit(node)


class T12(Translator):
    """py2gallina + what the decision cores of mypy/reachability.py need (all fail-closed):
    isinstance dispatch on (index, thing) -> match on constructors; `lo, hi = index`; `if x is None: x = c`;
    tuple indexing (may raise IndexError: the function then returns `option Z`), slicing, len(); calls of
    fixed_comparison at Z / list Z / string; set literals with `in` and `<=`; str.startswith."""

    def __init__(self, src: str):
        super().__init__(src)
        self.sets: dict[str, list[tuple[str, str]]] = {}
        self.known_calls = {}
        self.preconditions: list[str] = []

    # ---- return mode 'raiseZ': Some v = returned int, None = an exception escaped
    def ret_type(self, cfg: Fn) -> str:
        if cfg.ret == "raiseZ":
            return "option Z"
        if cfg.ret == "optstr":
            return "option string"
        if cfg.ret == "optbytes":
            return "option (list N)"
        return super().ret_type(cfg)

    def fall_off(self, cfg: Fn):
        if cfg.ret == "raiseZ":
            return None
        if cfg.ret in ("optstr", "optbytes"):
            return "None"
        return super().fall_off(cfg)

    def wrap_return(self, e: str, t: str, node: ast.AST) -> str:
        if self.cfg.ret == "raiseZ":
            if t == "Z":
                return f"(Some {e})"
            if t == "raise:Z":
                return e
            raise fail(node, f"cannot return {t} as raiseZ")
        if self.cfg.ret in ("optstr", "optbytes"):
            want = "str" if self.cfg.ret == "optstr" else "bytes"
            if t == "none":
                return "None"
            if t == want:
                return f"(Some {e})"
            raise fail(node, f"cannot return {t} as {self.cfg.ret}")
        return super().wrap_return(e, t, node)

    # ---- partial evaluation of isinstance tests whose operand has a static type tag
    def static_truth(self, t: ast.expr, env):
        if isinstance(t, ast.Constant) and isinstance(t.value, bool):
            return t.value
        if (isinstance(t, ast.Call) and isinstance(t.func, ast.Name) and t.func.id == "isinstance" and len(t.args) == 2
                and isinstance(t.args[0], ast.Name) and env.get(t.args[0].id) in PYCLASS):
            cls = t.args[1]
            elts = cls.elts if isinstance(cls, ast.Tuple) else [cls]
            if not all(isinstance(c, ast.Name) for c in elts):
                return None
            return bool(PYCLASS[env[t.args[0].id]] & {c.id for c in elts})
        if isinstance(t, ast.UnaryOp) and isinstance(t.op, ast.Not):
            v = self.static_truth(t.operand, env)
            return None if v is None else not v
        if isinstance(t, ast.BoolOp):
            vs = [self.static_truth(v, env) for v in t.values]
            if isinstance(t.op, ast.And):
                return False if False in vs else (True if all(v is True for v in vs) else None)
            return True if True in vs else (False if all(v is False for v in vs) else None)
        return None

    # ---- statements
    def block(self, stmts, env, k):
        if stmts:
            s, rest = stmts[0], stmts[1:]
            if isinstance(s, ast.Assert) and ast.unparse(s.test) == "not (isinstance(left, int) and isinstance(right, int))" \
                    and env.get("left") == "num" and env.get("right") == "num":
                self.preconditions.append("not both operands are ints")
                return self.block(rest, env, k)
            if isinstance(s, ast.Try) and self.cfg.ret == "fres":
                # try: float(a), float(b)   except OverflowError: return None    (the body only converts, then falls through)
                h = s.handlers[0] if len(s.handlers) == 1 else None
                b = s.body[0] if len(s.body) == 1 else None
                if (h is not None and not s.orelse and not s.finalbody and isinstance(b, ast.Expr)
                        and isinstance(h.type, ast.Name) and h.type.id == "OverflowError" and h.name is None
                        and len(h.body) == 1 and isinstance(h.body[0], ast.Return)
                        and (h.body[0].value is None or (isinstance(h.body[0].value, ast.Constant) and h.body[0].value.value is None))):
                    elts = b.value.elts if isinstance(b.value, ast.Tuple) else [b.value]
                    names = []
                    for c in elts:
                        if not (isinstance(c, ast.Call) and isinstance(c.func, ast.Name) and c.func.id == "float" and len(c.args) == 1
                                and not c.keywords and isinstance(c.args[0], ast.Name) and env.get(c.args[0].id) == "num"):
                            raise fail(s, "try body is not a tuple of float(<number>) conversions")
                        names.append(c.args[0].id)
                    return f"(try_float_conversions fo [{'; '.join(names)}]\n {self.block(rest, env, k)})"
            if isinstance(s, ast.If):
                st = self.static_truth(s.test, env)
                if st is False:
                    return self.block(list(s.orelse) + rest, env, k)
                if st is True:
                    return self.block(list(s.body) + rest, env, k)
                d = self.isinstance_dispatch(s.test, env)
                if d is not None:
                    pat, env2 = d
                    krest = self.block(rest, env, k) if (rest or k is not None) else None
                    a = self.block(s.body, env2, krest)
                    b = self.block(s.orelse, dict(env), krest)
                    return f"(match index, thing with\n | {pat} => {a}\n | _, _ => {b}\n end)"
                # if x is None: x = <const>
                t = s.test
                if (isinstance(t, ast.Compare) and len(t.ops) == 1 and isinstance(t.ops[0], ast.Is)
                        and isinstance(t.left, ast.Name) and isinstance(t.comparators[0], ast.Constant)
                        and t.comparators[0].value is None and not s.orelse and len(s.body) == 1
                        and isinstance(s.body[0], ast.Assign) and len(s.body[0].targets) == 1
                        and isinstance(s.body[0].targets[0], ast.Name) and s.body[0].targets[0].id == t.left.id
                        and env.get(t.left.id) == "opt:Z"):
                    x = t.left.id
                    d_, dt = self.expr(s.body[0].value, env)
                    if dt != "Z":
                        raise fail(s, "default of another type")
                    env2 = dict(env)
                    env2[x] = "Z"
                    return f"(let {x} := (match {x} with Some v__ => v__ | None => {d_} end) in\n {self.block(rest, env2, k)})"
            if (isinstance(s, ast.Assign) and len(s.targets) == 1 and isinstance(s.targets[0], ast.Tuple)
                    and isinstance(s.value, ast.Name) and env.get(s.value.id) == "pair:optZ"):
                names = [e.id for e in s.targets[0].elts if isinstance(e, ast.Name)]
                if len(names) != 2 or len(s.targets[0].elts) != 2:
                    raise fail(s, "tuple unpacking")
                env2 = dict(env)
                env2[names[0]] = env2[names[1]] = "opt:Z"
                v = s.value.id
                return f"(let {names[0]} := {v}_0 in let {names[1]} := {v}_1 in\n {self.block(rest, env2, k)})"
            if (isinstance(s, ast.Assign) and len(s.targets) == 1 and isinstance(s.targets[0], ast.Name)
                    and isinstance(s.value, ast.Set)):
                self.sets[s.targets[0].id] = [self.expr(x, env) for x in s.value.elts]
                return self.block(rest, env, k)
        return super().block(stmts, env, k)

    def isinstance_dispatch(self, test: ast.expr, env):
        """isinstance(index, C) and isinstance(thing, C) with index : vidx, thing : thing"""
        if not (isinstance(test, ast.BoolOp) and isinstance(test.op, ast.And) and len(test.values) == 2):
            return None
        got = {}
        for v in test.values:
            if not (isinstance(v, ast.Call) and isinstance(v.func, ast.Name) and v.func.id == "isinstance" and len(v.args) == 2
                    and isinstance(v.args[0], ast.Name) and isinstance(v.args[1], ast.Name)):
                return None
            got[v.args[0].id] = v.args[1].id
        if set(got) != {"index", "thing"} or env.get("index") != "vidx" or env.get("thing") != "thing":
            return None
        env2 = dict(env)
        if got == {"index": "int", "thing": "int"}:
            env2["index"] = env2["thing"] = "Z"
            return "IdxInt index, ThInt thing", env2
        if got == {"index": "tuple", "thing": "tuple"}:
            env2["index"] = "pair:optZ"
            env2["thing"] = "listZ"
            return "IdxSlice index_0 index_1, ThTuple thing", env2
        raise fail(test, "isinstance dispatch on other classes")

    # ---- expressions
    def expr(self, e, env):
        if isinstance(e, ast.BinOp):
            l, lt = self.expr(e.left, env)
            r, rt = self.expr(e.right, env)
            sym = {ast.Add: "+", ast.Sub: "-", ast.Mult: "*", ast.Div: "/", ast.FloorDiv: "//", ast.Mod: "%", ast.Pow: "**"}.get(type(e.op))
            if lt == rt == "num" and sym:
                return f"(py_num_binop fo {coq_string(sym)} {l} {r})", "res:float"
            if lt == rt == "str" and sym == "+":
                return f"(String.append {l} {r})", "str"
            if (lt, rt) == ("str", "Z") and sym == "*":
                return f"(py_str_repeat {l} {r})", "str"
            if (lt, rt) == ("Z", "str") and sym == "*":
                return f"(py_str_repeat {r} {l})", "str"
            if lt == rt == "bytes" and sym == "+":
                return f"({l} ++ {r})", "bytes"
            if (lt, rt) == ("bytes", "Z") and sym == "*":
                return f"(py_bytes_repeat {l} {r})", "bytes"
            if (lt, rt) == ("Z", "bytes") and sym == "*":
                return f"(py_bytes_repeat {r} {l})", "bytes"
            if "num" in (lt, rt) or "str" in (lt, rt) or "bytes" in (lt, rt):
                raise fail(e, f"binary op on {lt},{rt}")
        if (isinstance(e, ast.Call) and isinstance(e.func, ast.Name) and e.func.id == "isinstance" and len(e.args) == 2
                and isinstance(e.args[0], ast.Name) and env.get(e.args[0].id) == "num" and isinstance(e.args[1], ast.Name)):
            if e.args[1].id == "int":
                return f"(num_is_int {e.args[0].id})", "bool"
            if e.args[1].id == "float":
                return f"(negb (num_is_int {e.args[0].id}))", "bool"
            raise fail(e, "isinstance on a number")
        if isinstance(e, ast.Call) and isinstance(e.func, ast.Name) and e.func.id == "isinstance":
            st = self.static_truth(e, env)
            if st is not None:
                return ("true" if st else "false"), "bool"
        if isinstance(e, ast.Subscript) and isinstance(e.value, ast.Name) and env.get(e.value.id) == "listZ":
            if isinstance(e.slice, ast.Slice):
                if e.slice.step is not None or e.slice.lower is None or e.slice.upper is None:
                    raise fail(e, "slice form")
                lo, lt = self.expr(e.slice.lower, env)
                hi, ht = self.expr(e.slice.upper, env)
                if lt != "Z" or ht != "Z":
                    raise fail(e, "slice bounds")
                return f"(py_slice {e.value.id} {lo} {hi})", "listZ"
            i, it = self.expr(e.slice, env)
            if it != "Z":
                raise fail(e, "index type")
            return f"(py_tuple_index {e.value.id} {i})", "raise:Z"
        if isinstance(e, ast.Call) and isinstance(e.func, ast.Name) and e.func.id == "len" and len(e.args) == 1 and not e.keywords:
            x, t = self.expr(e.args[0], env)
            if t != "listZ":
                raise fail(e, "len of non-list")
            return f"(Z.of_nat (List.length {x}))", "Z"
        if isinstance(e, ast.Call) and isinstance(e.func, ast.Name) and e.func.id == "fixed_comparison" and len(e.args) == 3 and not e.keywords:
            a, at = self.expr(e.args[0], env)
            o, ot = self.expr(e.args[1], env)
            b, bt = self.expr(e.args[2], env)
            if ot != "str":
                raise fail(e, "operator type")
            inst = {"Z": "Z Z.compare", "listZ": "(list Z) tuple_cmp", "str": "string String.compare"}
            if at == "raise:Z" and bt == "Z":
                return f"(match {a} with Some v__ => Some (fixed_comparison Z Z.compare v__ {o} {b}) | None => None end)", "raise:Z"
            if at != bt or at not in inst:
                raise fail(e, f"fixed_comparison at {at},{bt}")
            return f"(fixed_comparison {inst[at]} {a} {o} {b})", "Z"
        if (isinstance(e, ast.Call) and isinstance(e.func, ast.Attribute) and e.func.attr == "startswith"
                and len(e.args) == 1 and not e.keywords):
            x, xt = self.expr(e.func.value, env)
            y, yt = self.expr(e.args[0], env)
            if xt != "str" or yt != "str":
                raise fail(e, "startswith on non-str")
            return f"(String.prefix {y} {x})", "bool"
        return super().expr(e, env)

    def compare(self, a, op, b, env, node):
        # an int-or-float compared with the literal 0
        if isinstance(a, ast.Name) and env.get(a.id) == "num" and isinstance(b, ast.Constant) and b.value == 0 and type(b.value) is int:
            if isinstance(op, ast.NotEq):
                return f"(negb (num_is_zero fo {a.id}))"
            if isinstance(op, ast.Lt):
                return f"(num_lt0 fo {a.id})"
            if isinstance(op, ast.Gt):
                return f"(num_gt0 fo {a.id})"
            raise fail(node, "comparison of a number with 0")
        # membership in / inclusion of a remembered two-element set literal
        if isinstance(op, ast.In) and isinstance(b, ast.Name) and b.id in self.sets:
            x, xt = self.expr(a, env)
            if xt != "Z" or any(t != "Z" for _, t in self.sets[b.id]):
                raise fail(node, "set membership types")
            return "(" + " || ".join(f"({x} =? {m})%Z" for m, _ in self.sets[b.id]) + ")"
        if isinstance(op, ast.LtE) and isinstance(a, ast.Name) and a.id in self.sets and isinstance(b, ast.Set):
            items = [self.expr(i, env) for i in b.elts]
            if any(t != "Z" for _, t in items):
                raise fail(node, "set inclusion types")
            return "(" + " && ".join("(" + " || ".join(f"({m} =? {i})%Z" for i, _ in items) + ")" for m, _ in self.sets[a.id]) + ")"
        return super().compare(a, op, b, env, node)

    # ---- module-level dict literal -> function into option
    def dict_table(self, name: str, coq_name: str) -> str:
        for n in self.tree.body:
            tgt = val = None
            if isinstance(n, ast.AnnAssign) and isinstance(n.target, ast.Name):
                tgt, val = n.target.id, n.value
            elif isinstance(n, ast.Assign) and len(n.targets) == 1 and isinstance(n.targets[0], ast.Name):
                tgt, val = n.targets[0].id, n.value
            if tgt == name and isinstance(val, ast.Dict):
                pairs = [(self.expr(k, {}), self.expr(v, {})) for k, v in zip(val.keys, val.values)]
                kt = {t for (_, t), _ in pairs}
                vt = {t for _, (_, t) in pairs}
                if len(kt) != 1 or len(vt) != 1 or kt != vt or kt - {"str", "Z"}:
                    raise Unsupported(f"dict {name}: key/value types {kt} {vt}")
                t = kt.pop()
                eq = {"str": "String.eqb {} {}", "Z": "({} =? {})%Z"}[t]
                body = "None"
                for (k, _), (v, _) in reversed(pairs):   # a later duplicate key would win in Python: reject duplicates
                    body = f"(if {eq.format('k', k)} then Some {v}\n else {body})"
                if len({k for (k, _), _ in pairs}) != len(pairs):
                    raise Unsupported(f"dict {name}: duplicate keys")
                return f"Definition {coq_name} (k : {coq_ty(t)}) : option {coq_ty(t)} :=\n{body}."
        raise Unsupported(f"module-level dict {name} not found")

    def synthetic(self, name: str, stmts: list[ast.stmt], cfg: Fn, rename: dict[str, str]) -> str:
        f = ast.FunctionDef(name=name, args=ast.arguments(posonlyargs=[], args=[ast.arg(arg=a) for a in cfg.params], vararg=None,
                            kwonlyargs=[], kw_defaults=[], kwarg=None, defaults=[]), body=[Rename(rename).visit(copy.deepcopy(s)) for s in stmts],
                            decorator_list=[], returns=None, lineno=stmts[0].lineno)
        ast.fix_missing_locations(f)
        self.funcs[name] = f
        self.sets = {}
        return self.function(cfg)


def find_stmt(body: list[ast.stmt], pred, what: str) -> int:
    hits = [i for i, s in enumerate(body) if pred(s)]
    if len(hits) != 1:
        raise Unsupported(f"expected exactly one statement `{what}`, found {len(hits)}")
    return hits[0]


def src_is(s: ast.AST, txt: str) -> bool:
    return ast.unparse(s).strip() == txt


def gen_constfold() -> str:
    tr = Translator(vlib.read_repo("mypy/constant_fold.py"))
    out = [HEADER.format(src="mypy/constant_fold.py")]
    out.append(tr.function(Fn("constant_fold_binary_int_op", {"op": "str", "left": "Z", "right": "Z"}, "fres")))
    # unary op and the binary dispatcher, partially evaluated for int operands
    out.append(tr.function(Fn("constant_fold_unary_op", {"op": "str", "value": "Z"}, "fres",
                              coq_name="constant_fold_unary_op_int")))
    tr.known_calls = {"constant_fold_binary_int_op": ("constant_fold_binary_int_op", ["str", "Z", "Z"], "fres")}
    f = tr.funcs.get("constant_fold_binary_op")
    if f is None:
        raise Unsupported("constant_fold_binary_op not found")
    # only the leading int/int dispatch is translated: the first statement must be it
    import ast, copy
    g = copy.deepcopy(f)
    g.body = [s for s in g.body if not (isinstance(s, ast.Expr) and isinstance(s.value, ast.Constant))][:1]
    g.body.append(ast.Return(value=ast.Constant(value=None)))
    tr.funcs["constant_fold_binary_op"] = g
    out.append(tr.function(Fn("constant_fold_binary_op", {"op": "str", "left": "Z", "right": "Z"}, "fres",
                              coq_name="constant_fold_binary_op_int")))
    # float operations: guards translated, values symbolic (PyRules.py_num_binop)
    t2 = T12(vlib.read_repo("mypy/constant_fold.py"))
    out.append(t2.function(Fn("constant_fold_binary_float_op", {"op": "str", "left": "num", "right": "num"}, "fres",
                              coq_params="(fo : float_oracle) (op : string) (left : num) (right : num)")))
    if t2.preconditions != ["not both operands are ints"]:
        raise Unsupported("constant_fold_binary_float_op: leading assertion changed")
    # the WHOLE dispatcher constant_fold_binary_op, partially evaluated for str/str, str/int, int/str operands
    t2.known_calls = {"constant_fold_binary_int_op": ("constant_fold_binary_int_op", ["str", "Z", "Z"], "fres")}
    for lt, rt, nm in (("str", "str", "str_str"), ("str", "Z", "str_int"), ("Z", "str", "int_str")):
        out.append(t2.function(Fn("constant_fold_binary_op", {"op": "str", "left": lt, "right": rt}, "optstr",
                                  coq_name="constant_fold_binary_op_" + nm)))
    # mypyc's extension for bytes
    t3 = T12(vlib.read_repo("mypyc/irbuild/constant_fold.py"))
    for lt, rt, nm in (("bytes", "bytes", "bytes_bytes"), ("bytes", "Z", "bytes_int"), ("Z", "bytes", "int_bytes")):
        out.append(t3.function(Fn("constant_fold_binary_op_extended", {"op": "str", "left": lt, "right": rt}, "optbytes",
                                  coq_name="constant_fold_binary_op_extended_" + nm)))
    return "\n\n".join(out) + "\n"


def gen_reach() -> str:
    tr = T12(vlib.read_repo("mypy/reachability.py"))
    out = [HEADER.format(src="mypy/reachability.py")]
    out.append(tr.const_defs(["ALWAYS_TRUE", "MYPY_TRUE", "ALWAYS_FALSE", "MYPY_FALSE", "TRUTH_VALUE_UNKNOWN"]))
    out.append("Section FixedComparison.\nVariable T : Type.\nVariable cmp : T -> T -> comparison.")
    out.append(tr.function(Fn("fixed_comparison", {"left": "ord:T", "op": "str", "right": "ord:T"}, "Z")))
    out.append("End FixedComparison.")
    # tables
    out.append(tr.dict_table("reverse_op", "reverse_op"))
    out.append(tr.dict_table("inverted_truth_mapping", "inverted_truth_mapping"))
    # consider_sys_version_info: the operator guard + everything after index/thing have been computed
    f = tr.funcs.get("consider_sys_version_info")
    if f is None:
        raise Unsupported("consider_sys_version_info not found")
    body = [s for s in f.body if not (isinstance(s, ast.Expr) and isinstance(s.value, ast.Constant))]
    g = find_stmt(body, lambda s: isinstance(s, ast.If) and ast.unparse(s.test).startswith("op not in "), "if op not in (...)")
    sw = find_stmt(body, lambda s: isinstance(s, ast.If) and src_is(s.test, "index is None or thing is None"), "if index is None or thing is None")
    # the swap block must be exactly: recompute index/thing from the other operands and reverse the operator
    swap = [ast.unparse(x) for x in body[sw].body]
    if swap != ["index = contains_sys_version_info(expr.operands[1])", "thing = contains_int_or_tuple_of_ints(expr.operands[0])",
                "op = reverse_op[op]"] or body[sw].orelse:
        raise Unsupported(f"operand swap block changed: {swap}")
    pre = [ast.unparse(x) for x in body[g + 1:sw]]
    if pre != ["index = contains_sys_version_info(expr.operands[0])", "thing = contains_int_or_tuple_of_ints(expr.operands[1])"]:
        raise Unsupported(f"index/thing computation changed: {pre}")
    if not src_is(body[g - 1], "op = expr.operators[0]"):
        raise Unsupported("operator extraction changed")
    out.append(tr.synthetic("consider_core", [body[g]] + body[sw + 1:],
                            Fn("consider_core", {"pyversion": "listZ", "index": "vidx", "op": "str", "thing": "thing"}, "raiseZ"), {}))
    # consider_sys_platform: comparison core and startswith core
    f = tr.funcs.get("consider_sys_platform")
    if f is None:
        raise Unsupported("consider_sys_platform not found")
    body = [s for s in f.body if not (isinstance(s, ast.Expr) and isinstance(s.value, ast.Constant))]
    if len(body) != 1 or not isinstance(body[0], ast.If) or not src_is(body[0].test, "isinstance(expr, ComparisonExpr)"):
        raise Unsupported("consider_sys_platform: outer dispatch changed")
    cb = body[0].body
    g = find_stmt(cb, lambda s: isinstance(s, ast.If) and ast.unparse(s.test).startswith("op not in "), "if op not in (...)")
    guards = [ast.unparse(x.test) for x in cb[g + 1:-1] if isinstance(x, ast.If)]
    if guards != ["not is_sys_attr(expr.operands[0], 'platform')", "not isinstance(right, StrExpr)"] or not src_is(cb[g - 1], "op = expr.operators[0]"):
        raise Unsupported(f"consider_sys_platform: comparison guards changed: {guards}")
    out.append(tr.synthetic("platform_cmp_core", [cb[g], cb[-1]],
                            Fn("platform_cmp_core", {"platform": "str", "op": "str", "lit": "str"}, "Z"), {"right.value": "lit"}))
    call = body[0].orelse
    if len(call) != 1 or not isinstance(call[0], ast.If) or not src_is(call[0].test, "isinstance(expr, CallExpr)"):
        raise Unsupported("consider_sys_platform: call branch changed")
    kb = call[0].body
    if not src_is(kb[-2].test if isinstance(kb[-2], ast.If) else kb[-2], "expr.callee.name != 'startswith'"):
        raise Unsupported("consider_sys_platform: method name test changed")
    out.append(tr.synthetic("platform_startswith_core", [kb[-1]],
                            Fn("platform_startswith_core", {"platform": "str", "lit": "str"}, "Z"), {"expr.args[0].value": "lit"}))
    # infer_condition_value: the and/or block
    f = tr.funcs.get("infer_condition_value")
    if f is None:
        raise Unsupported("infer_condition_value not found")
    blk = None
    for s in ast.walk(f):
        if isinstance(s, ast.If) and src_is(s.test, "isinstance(expr, OpExpr)"):
            blk = s.body
    if blk is None:
        raise Unsupported("infer_condition_value: OpExpr branch not found")
    txt = [ast.unparse(x).split("\n")[0] for x in blk]
    if txt[:4] != ["if expr.op not in ('or', 'and'):", "left = infer_condition_value(expr.left, options)",
                   "right = infer_condition_value(expr.right, options)", "results = {left, right}"]:
        raise Unsupported(f"infer_condition_value: OpExpr prologue changed: {txt[:4]}")
    out.append(tr.synthetic("infer_op_table", [blk[0]] + blk[3:],
                            Fn("infer_op_table", {"op": "str", "left": "Z", "right": "Z"}, "Z"), {"expr.op": "op"}))
    nb = [s for s in f.body if not (isinstance(s, ast.Expr) and isinstance(s.value, ast.Constant))][0]
    if not (isinstance(nb, ast.If) and src_is(nb.test, "isinstance(expr, UnaryExpr) and expr.op == 'not'")
            and [ast.unparse(x) for x in nb.body] == ["positive = infer_condition_value(expr.expr, options)", "return inverted_truth_mapping[positive]"]):
        raise Unsupported("infer_condition_value: `not` branch changed")
    return "\n\n".join(out) + "\n"


def generate() -> dict[str, str]:
    files = {"ConstFold.v": gen_constfold(), "Reach.v": gen_reach()}
    for k, v in files.items():
        vlib.write_if_changed(os.path.join(vlib.GEN, k), v)
    return files


if __name__ == "__main__":
    for k, v in generate().items():
        print(f"(* ==== {k} ==== *)\n{v}")
