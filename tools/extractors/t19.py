"""T19: regenerate coq/gen/StubPreds.v from mypy/stubutil.py + mypy/stubgen.py (fail-closed, `ast` only).

Extracted: the constant tables IGNORED_DUNDERS / EXTRA_EXPORTED / TYPING_MODULE_NAMES, the predicates
BaseStubGenerator.is_private_name / is_not_in_all / is_recorded_name, and the three guard conditions that decide
whether a definition is emitted: the skip test of ASTStubGenerator.visit_func_def, the early return of
visit_decorator, and the two early returns of get_init (variable already emitted / filtered).

Object state is turned into parameters:
  self._include_private -> include_private c      self._all_ -> all_ c : option (list string)
  self.is_top_level()   -> top : bool              self._toplevel_names -> recorded : list string
  self._vars[-1]        -> vars : list string      o.is_overload -> is_overload : bool
Anything outside the small expression/statement subset raises Unsupported.
"""
from __future__ import annotations

import ast
import os
import sys

sys.path.insert(0, os.path.dirname(os.path.dirname(os.path.abspath(__file__))))
import vlib


class Unsupported(Exception):
    pass


def cs(s: str) -> str:
    if any(ord(c) < 32 or ord(c) > 126 for c in s) or '"' in s:
        raise Unsupported(f"string literal {s!r}")
    return '"' + s + '"'


NAME_ALIASES = {"name": "name", "lvalue": "name", "fullname": "fullname"}


class Tr:
    """expression -> Gallina bool"""

    def __init__(self, ctx: str):
        self.ctx = ctx

    def fail(self, n: ast.AST, why: str) -> Unsupported:
        return Unsupported(f"{self.ctx}: {why}: {ast.unparse(n)[:120]}")

    def strexpr(self, n: ast.AST) -> tuple[str, str]:
        """(gallina, 'str' | 'optstr')"""
        if isinstance(n, ast.Constant) and isinstance(n.value, str):
            return cs(n.value), "str"
        if isinstance(n, ast.Constant) and n.value is None:
            return "None", "optstr"
        if isinstance(n, ast.Name) and n.id in ("name", "lvalue"):
            return "name", "str"
        if isinstance(n, ast.Name) and n.id == "fullname":
            return "fullname", "optstr"
        src = ast.unparse(n)
        if src in ("o.name", "o.func.name", "item.func.name"):
            return "name", "str"
        if src in ("o.fullname", "o.func.fullname", "item.func.fullname"):
            return "fullname", "optstr"
        raise self.fail(n, "string expression")

    def call_pred(self, fn: str, args: list[ast.expr], n: ast.AST) -> str:
        if fn == "is_private_name":
            if len(args) == 1:
                a, t = self.strexpr(args[0])
                return f"is_private_name c {a} None"
            if len(args) == 2:
                a, _ = self.strexpr(args[0])
                b, tb = self.strexpr(args[1])
                return f"is_private_name c {a} {b if tb == 'optstr' else '(Some ' + b + ')'}"
        if fn == "is_not_in_all" and len(args) == 1:
            return f"is_not_in_all c top {self.strexpr(args[0])[0]}"
        if fn == "is_recorded_name" and len(args) == 1:
            return f"is_recorded_name top recorded {self.strexpr(args[0])[0]}"
        if fn == "is_top_level" and not args:
            return "top"
        raise self.fail(n, "call")

    def b(self, n: ast.AST) -> str:
        if isinstance(n, ast.Constant) and isinstance(n.value, bool):
            return "true" if n.value else "false"
        if isinstance(n, ast.BoolOp):
            op = " && " if isinstance(n.op, ast.And) else " || "
            return "(" + op.join(self.b(v) for v in n.values) + ")"
        if isinstance(n, ast.UnaryOp) and isinstance(n.op, ast.Not):
            return f"negb {self.b(n.operand)}"
        if isinstance(n, ast.Attribute) and isinstance(n.value, ast.Name) and n.value.id == "self":
            if n.attr == "_include_private":
                return "include_private c"
            if n.attr == "_all_":
                return "all_truthy c"
            raise self.fail(n, "attribute of self")
        if isinstance(n, ast.Attribute) and ast.unparse(n) == "o.is_overload":
            return "is_overload"
        if isinstance(n, ast.Call) and isinstance(n.func, ast.Attribute):
            f = n.func
            if isinstance(f.value, ast.Name) and f.value.id == "self":
                return "(" + self.call_pred(f.attr, list(n.args), n) + ")"
            if f.attr in ("startswith", "endswith") and len(n.args) == 1 and isinstance(n.args[0], ast.Constant):
                s, t = self.strexpr(f.value)
                if t != "str":
                    raise self.fail(n, "startswith on optional")
                return f"({'starts_with' if f.attr == 'startswith' else 'ends_with'} {cs(n.args[0].value)} {s})"
            raise self.fail(n, "method call")
        if isinstance(n, ast.Compare) and len(n.ops) == 1:
            l, r, op = n.left, n.comparators[0], n.ops[0]
            if isinstance(op, (ast.Eq, ast.NotEq)):
                a, ta = self.strexpr(l)
                bb, tb = self.strexpr(r)
                if ta != "str" or tb != "str":
                    raise self.fail(n, "== on optional")
                e = f"(String.eqb {a} {bb})"
                return e if isinstance(op, ast.Eq) else f"negb {e}"
            if isinstance(op, (ast.In, ast.NotIn)):
                rs = ast.unparse(r)
                if isinstance(l, ast.Constant) and isinstance(l.value, str):       # "lit" in name
                    s, t = self.strexpr(r)
                    if t != "str":
                        raise self.fail(n, "substring of optional")
                    e = f"(contains {cs(l.value)} {s})"
                else:
                    a, ta = self.strexpr(l)
                    table = {"self.IGNORED_DUNDERS": "IGNORED_DUNDERS", "self.EXTRA_EXPORTED": "EXTRA_EXPORTED",
                             "self._all_": "(all_list c)", "self._toplevel_names": "recorded", "self._vars[-1]": "vars"}.get(rs)
                    if table is None:
                        raise self.fail(n, "membership in")
                    e = f"(mem_str {a} {table})" if ta == "str" else f"(opt_mem {a} {table})"
                return e if isinstance(op, ast.In) else f"negb {e}"
        raise self.fail(n, "expression")


def tr_body(stmts: list[ast.stmt], tr: Tr) -> str:
    """`if c: return e` ... `return e`  ->  nested if-then-else"""
    stmts = [s for s in stmts if not (isinstance(s, ast.Expr) and isinstance(s.value, ast.Constant))]
    if not stmts:
        raise Unsupported(f"{tr.ctx}: falls off the end")
    s, rest = stmts[0], stmts[1:]
    if isinstance(s, ast.Return) and s.value is not None:
        if rest:
            raise Unsupported(f"{tr.ctx}: code after return")
        return tr.b(s.value)
    if isinstance(s, ast.If) and not s.orelse and len(s.body) == 1 and isinstance(s.body[0], ast.Return) and s.body[0].value is not None:
        return f"if {tr.b(s.test)} then {tr.b(s.body[0].value)}\n  else {tr_body(rest, tr)}"
    raise Unsupported(f"{tr.ctx}: statement: {ast.unparse(s)[:120]}")


def find_class(tree: ast.Module, name: str) -> ast.ClassDef:
    for n in tree.body:
        if isinstance(n, ast.ClassDef) and n.name == name:
            return n
    raise Unsupported(f"class {name} not found")


def find_method(cls: ast.ClassDef, name: str) -> ast.FunctionDef:
    for n in cls.body:
        if isinstance(n, ast.FunctionDef) and n.name == name:
            return n
    raise Unsupported(f"{cls.name}.{name} not found")


def const_table(cls: ast.ClassDef, name: str) -> list[str]:
    for n in cls.body:
        if isinstance(n, ast.AnnAssign) and isinstance(n.target, ast.Name) and n.target.id == name and n.value is not None:
            v = n.value
            if isinstance(v, (ast.Set, ast.Tuple, ast.List)) and all(isinstance(e, ast.Constant) and isinstance(e.value, str) for e in v.elts):
                return [e.value for e in v.elts]  # type: ignore[attr-defined]
    raise Unsupported(f"constant table {name} not found / not a literal collection of strings")


def params(f: ast.FunctionDef) -> list[str]:
    return [a.arg for a in f.args.args]


def first_return_guard(f: ast.FunctionDef, index: int, ctx: str) -> ast.expr:
    """test of the index-th top-level `if ...: ... return` (body ending in a bare/None return) of a method"""
    k = 0
    for s in f.body:
        if isinstance(s, ast.If) and not s.orelse and isinstance(s.body[-1], ast.Return) and \
                (s.body[-1].value is None or (isinstance(s.body[-1].value, ast.Constant) and s.body[-1].value.value is None)):
            if k == index:
                return s.test
            k += 1
    raise Unsupported(f"{ctx}: early-return guard #{index} not found")


HEADER = """(* GENERATED from mypy/stubutil.py and mypy/stubgen.py by tools/extractors/t19.py -- do not edit; regenerated on every run *)
From Coq Require Import List String Bool.
From C19 Require Import Strs.
Import ListNotations.
Open Scope string_scope.

Record cfg := mkCfg { include_private : bool; all_ : option (list string) }.
(* truthiness of `self._all_` (None and [] are falsy) *)
Definition all_truthy (c : cfg) : bool := match all_ c with Some (_ :: _) => true | _ => false end.
Definition all_list (c : cfg) : list string := match all_ c with Some l => l | None => [] end.
"""


def generate_text() -> str:
    su = ast.parse(vlib.read_repo("mypy/stubutil.py"))
    sg = ast.parse(vlib.read_repo("mypy/stubgen.py"))
    base = find_class(su, "BaseStubGenerator")
    gen = find_class(sg, "ASTStubGenerator")
    out = [HEADER]
    for t in ("IGNORED_DUNDERS", "EXTRA_EXPORTED", "TYPING_MODULE_NAMES"):
        out.append(f"Definition {t} : list string :=\n  [" + "; ".join(cs(x) for x in const_table(base, t)) + "].")
    f = find_method(base, "is_private_name")
    if params(f) != ["self", "name", "fullname"]:
        raise Unsupported("is_private_name signature changed: " + str(params(f)))
    out.append("Definition is_private_name (c : cfg) (name : string) (fullname : option string) : bool :=\n  "
               + tr_body(f.body, Tr("is_private_name")) + ".")
    f = find_method(base, "is_not_in_all")
    if params(f) != ["self", "name"]:
        raise Unsupported("is_not_in_all signature changed")
    out.append("Definition is_not_in_all (c : cfg) (top : bool) (name : string) : bool :=\n  " + tr_body(f.body, Tr("is_not_in_all")) + ".")
    f = find_method(base, "is_recorded_name")
    if params(f) != ["self", "name"]:
        raise Unsupported("is_recorded_name signature changed")
    out.append("Definition is_recorded_name (top : bool) (recorded : list string) (name : string) : bool :=\n  "
               + tr_body(f.body, Tr("is_recorded_name")) + ".")
    # visit_func_def: guard #0 is the dataclass-generated test (a local variable), #1 the skip test
    f = find_method(gen, "visit_func_def")
    g0 = first_return_guard(f, 0, "visit_func_def")
    if ast.unparse(g0) != "is_dataclass_generated":
        raise Unsupported("visit_func_def: first guard is no longer the dataclass test: " + ast.unparse(g0))
    out.append("Definition func_skipped (c : cfg) (top : bool) (recorded : list string) (name : string) (fullname : option string)\n"
               "    (is_overload : bool) : bool :=\n  " + Tr("visit_func_def").b(first_return_guard(f, 1, "visit_func_def")) + ".")
    f = find_method(gen, "visit_decorator")
    out.append("Definition decorator_skipped (c : cfg) (name : string) (fullname : option string) : bool :=\n  "
               + Tr("visit_decorator").b(first_return_guard(f, 0, "visit_decorator")) + ".")
    f = find_method(gen, "get_init")
    out.append("Definition var_already (vars : list string) (name : string) : bool :=\n  "
               + Tr("get_init").b(first_return_guard(f, 0, "get_init")) + ".")
    out.append("Definition var_filtered (c : cfg) (top : bool) (name : string) : bool :=\n  "
               + Tr("get_init").b(first_return_guard(f, 1, "get_init")) + ".")
    return "\n\n".join(out) + "\n"


def generate() -> dict[str, str]:
    files = {"StubPreds.v": generate_text()}
    for k, v in files.items():
        vlib.write_if_changed(os.path.join(vlib.GEN, k), v)
    return files


if __name__ == "__main__":
    for k, v in generate().items():
        print(f"(* ==== {k} ==== *)\n{v}")
