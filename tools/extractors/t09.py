"""T3 (C09): regenerate coq/gen/OptionsTable.v and coq/gen/OptionsClass.v (fail-closed).

Reads the TEXT of mypy/options.py, mypy/build.py, mypy/errors.py (and, for the read-site map, every
mypy/**/*.py) with `ast`; never imports mypy.  Any construct outside the expected shapes raises T09Error.

OptionsTable.v:
  attrs                      every public attribute assigned in Options.__init__ with the text of its default
  per_module_options         PER_MODULE_OPTIONS
  options_affecting_cache    OPTIONS_AFFECTING_CACHE (set expression evaluated)
  options_affecting_cache_no_platform   sorted, as iterated by select_options_affecting_cache
  snapshot_* / fcm_*         shape facts of select_options_affecting_cache / options_snapshot / find_cache_meta
  cache_dir_reads            option reads of _cache_dir_prefix;  store_reads: create_metastore, get_cache_names
  errors_method_reads        per method of class Errors: option attributes read (through self.options or an alias field)
  post_load_entry            methods of Errors called on cached error_lines in build.find_stale_sccs (fresh branch)
  post_load_reads / precache_reads      closures over the self-call graph
  read_sites                 attribute -> files under mypy/ where it is read from an options object
OptionsClass.v: the committed classification tools/harness/options_class.json as a Coq list.
"""
from __future__ import annotations

import ast
import json
import os
import sys

sys.path.insert(0, os.path.dirname(os.path.dirname(os.path.abspath(__file__))))
import vlib

CLASS_FILE = os.environ.get("VERIF_C09_CLASS") or os.path.join(vlib.VERIF, "tools", "harness", "options_class.json")


# files whose code runs while a module's cached result (tree, types, error tuples) is produced
ANALYSIS_FILES = ["mypy/semanal*.py", "mypy/check*.py", "mypy/typeanal.py", "mypy/subtypes.py", "mypy/messages.py", "mypy/types.py",
                  "mypy/typeops.py", "mypy/fastparse.py", "mypy/nativeparse.py", "mypy/parse.py", "mypy/reachability.py", "mypy/binder.py",
                  "mypy/partially_defined.py", "mypy/plugins/*.py", "mypy/plugin.py", "mypy/nodes.py", "mypy/meet.py", "mypy/join.py",
                  "mypy/constraints.py", "mypy/solve.py", "mypy/infer.py", "mypy/expandtype.py", "mypy/exprtotype.py", "mypy/renaming.py",
                  "mypy/treetransform.py", "mypy/typestate.py", "mypy/mro.py", "mypy/constant_fold.py", "mypy/applytype.py", "mypy/erasetype.py"]


class T09Error(Exception):
    pass


def need(c: bool, msg: str) -> None:
    if not c:
        raise T09Error(msg)


def find_func(tree: ast.AST, name: str, cls: str | None = None) -> ast.FunctionDef:
    body = tree.body  # type: ignore[attr-defined]
    if cls is not None:
        cs = [n for n in body if isinstance(n, ast.ClassDef) and n.name == cls]
        need(len(cs) == 1, f"class {cls} not found exactly once")
        body = cs[0].body
    fs = [n for n in body if isinstance(n, ast.FunctionDef) and n.name == name]
    need(len(fs) == 1, f"function {cls + '.' if cls else ''}{name} not found exactly once")
    return fs[0]


def module_assign(tree: ast.AST, name: str) -> ast.expr:
    for n in tree.body:  # type: ignore[attr-defined]
        if isinstance(n, ast.AnnAssign) and isinstance(n.target, ast.Name) and n.target.id == name and n.value is not None:
            return n.value
        if isinstance(n, ast.Assign) and len(n.targets) == 1 and isinstance(n.targets[0], ast.Name) and n.targets[0].id == name:
            return n.value
    raise T09Error(f"module-level assignment to {name} not found")


def eval_set(e: ast.expr, env: dict[str, set[str]]) -> set[str]:
    if isinstance(e, ast.Set):
        out = set()
        for x in e.elts:
            need(isinstance(x, ast.Constant) and isinstance(x.value, str), "non-literal set element")
            out.add(x.value)  # type: ignore[union-attr]
        need(len(out) == len(e.elts), "duplicate element in option set literal")
        return out
    if isinstance(e, ast.Name):
        need(e.id in env, f"unknown set name {e.id}")
        return set(env[e.id])
    if isinstance(e, ast.BinOp) and isinstance(e.op, ast.BitOr):
        return eval_set(e.left, env) | eval_set(e.right, env)
    if isinstance(e, ast.BinOp) and isinstance(e.op, ast.Sub):
        return eval_set(e.left, env) - eval_set(e.right, env)
    raise T09Error("unsupported set expression: " + ast.dump(e)[:200])


def init_attrs(tree: ast.AST) -> list[tuple[str, str]]:
    f = find_func(tree, "__init__", "Options")
    out: list[tuple[str, str]] = []
    seen: dict[str, str] = {}

    def visit(stmts: list[ast.stmt]) -> None:
        for s in stmts:
            if isinstance(s, ast.Expr) and isinstance(s.value, ast.Constant):
                continue
            if isinstance(s, ast.If):
                visit(s.body)
                visit(s.orelse)
                continue
            tgt = val = None
            if isinstance(s, ast.Assign) and len(s.targets) == 1:
                tgt, val = s.targets[0], s.value
            elif isinstance(s, ast.AnnAssign) and s.value is not None:
                tgt, val = s.target, s.value
            need(tgt is not None and isinstance(tgt, ast.Attribute) and isinstance(tgt.value, ast.Name) and tgt.value.id == "self",
                 "Options.__init__: unsupported statement " + ast.unparse(s)[:80])
            name = tgt.attr  # type: ignore[union-attr]
            d = ast.unparse(val)  # type: ignore[arg-type]
            if name in seen:
                # assigned on two branches (platform): default is environment dependent
                if seen[name] != d:
                    for i, (n, _) in enumerate(out):
                        if n == name:
                            out[i] = (n, "<env>")
                continue
            seen[name] = d
            if not name.startswith("_"):
                out.append((name, d))

    visit(f.body)
    need(len(out) > 50, "suspiciously few Options attributes")
    return out


def option_reads(node: ast.AST, names: set[str], recv: tuple[str, ...] = ("options",), aliases: dict[str, str] | None = None) -> set[str]:
    """Attributes X read as <...>.options.X / options.X (any receiver whose last component is in recv),
    plus self.<alias> fields."""
    out: set[str] = set()
    for n in ast.walk(node):
        if isinstance(n, ast.Attribute):
            v = n.value
            last = v.attr if isinstance(v, ast.Attribute) else v.id if isinstance(v, ast.Name) else None
            if last in recv and n.attr in names:
                out.add(n.attr)
            if aliases and isinstance(v, ast.Name) and v.id == "self" and n.attr in aliases and isinstance(n.ctx, ast.Load):
                out.add(aliases[n.attr])
        elif isinstance(n, ast.Call) and isinstance(n.func, ast.Name) and n.func.id == "getattr" and len(n.args) >= 2:
            a0, a1 = n.args[0], n.args[1]
            last = a0.attr if isinstance(a0, ast.Attribute) else a0.id if isinstance(a0, ast.Name) else None
            if last in recv and isinstance(a1, ast.Constant) and a1.value in names:
                out.add(a1.value)
    return out


def self_calls(f: ast.FunctionDef) -> set[str]:
    out = set()
    for n in ast.walk(f):
        if isinstance(n, ast.Call) and isinstance(n.func, ast.Attribute) and isinstance(n.func.value, ast.Name) and n.func.value.id == "self":
            out.add(n.func.attr)
    return out


def closure(start: set[str], graph: dict[str, set[str]]) -> set[str]:
    seen = set()
    todo = list(start)
    while todo:
        x = todo.pop()
        if x in seen or x not in graph:
            continue
        seen.add(x)
        todo += list(graph[x])
    return seen


def extract() -> dict:
    ot = ast.parse(vlib.read_repo("mypy/options.py"))
    bt = ast.parse(vlib.read_repo("mypy/build.py"))
    et = ast.parse(vlib.read_repo("mypy/errors.py"))
    r: dict = {}
    attrs = init_attrs(ot)
    names = {n for n, _ in attrs}
    r["attrs"] = attrs
    env: dict[str, set[str]] = {}
    env["PER_MODULE_OPTIONS"] = eval_set(module_assign(ot, "PER_MODULE_OPTIONS"), env)
    env["OPTIONS_AFFECTING_CACHE"] = eval_set(module_assign(ot, "OPTIONS_AFFECTING_CACHE"), env)
    r["per_module"] = sorted(env["PER_MODULE_OPTIONS"])
    r["affecting"] = sorted(env["OPTIONS_AFFECTING_CACHE"])
    for s in ("PER_MODULE_OPTIONS", "OPTIONS_AFFECTING_CACHE"):
        bad = env[s] - names
        need(not bad, f"{s} names unknown attributes {sorted(bad)}")
    # OPTIONS_AFFECTING_CACHE_NO_PLATFORM = tuple(sorted(OPTIONS_AFFECTING_CACHE - {"platform"}))
    e = module_assign(ot, "OPTIONS_AFFECTING_CACHE_NO_PLATFORM")
    need(isinstance(e, ast.Call) and isinstance(e.func, ast.Name) and e.func.id == "tuple" and len(e.args) == 1
         and isinstance(e.args[0], ast.Call) and isinstance(e.args[0].func, ast.Name) and e.args[0].func.id == "sorted"
         and len(e.args[0].args) == 1 and not e.args[0].keywords,
         "OPTIONS_AFFECTING_CACHE_NO_PLATFORM is not tuple(sorted(<set expr>))")
    r["no_platform"] = sorted(eval_set(e.args[0].args[0], env))  # type: ignore[attr-defined]

    # --- select_options_affecting_cache
    f = find_func(ot, "select_options_affecting_cache", "Options")
    body = [s for s in f.body if not (isinstance(s, ast.Expr) and isinstance(s.value, ast.Constant))]
    need(len(body) == 3, "select_options_affecting_cache: expected `result = []; for ...; return ...`")
    loop, ret = body[1], body[2]
    need(isinstance(loop, ast.For) and isinstance(loop.iter, ast.Name) and isinstance(loop.target, ast.Name), "select_options_affecting_cache: loop shape")
    r["snapshot_iter"] = loop.iter.id  # type: ignore[union-attr]
    need(r["snapshot_iter"] == "OPTIONS_AFFECTING_CACHE_NO_PLATFORM", "snapshot iterates over " + r["snapshot_iter"])
    lb = loop.body  # type: ignore[union-attr]
    need(isinstance(lb[0], ast.Assign) and ast.unparse(lb[0]) == f"val = getattr(self, {loop.target.id})", "loop must start with val = getattr(self, opt)")  # type: ignore[union-attr]
    need(ast.unparse(lb[-1]) == "result.append(val)", "loop must end with result.append(val)")
    norm: list[str] = []
    for s in lb[1:-1]:
        need(isinstance(s, ast.If) and not s.orelse and isinstance(s.test, ast.Compare) and len(s.test.ops) == 1 and isinstance(s.test.ops[0], ast.In)
             and isinstance(s.test.comparators[0], ast.Tuple), "unexpected statement in snapshot loop: " + ast.unparse(s)[:80])
        norm += [c.value for c in s.test.comparators[0].elts]  # type: ignore[union-attr,attr-defined]
        need(len(s.body) == 1 and ast.unparse(s.body[0]) == "val = sorted([code.code for code in val])", "unknown normalisation in snapshot loop")
    r["snapshot_normalised"] = sorted(norm)
    need(isinstance(ret, ast.Return) and isinstance(ret.value, ast.Tuple) and len(ret.value.elts) == 2, "select_options_affecting_cache: return shape")
    r["snapshot_platform"] = ast.unparse(ret.value.elts[0]) == "self.platform" and ast.unparse(ret.value.elts[1]) == "result"  # type: ignore[union-attr]
    need(ast.unparse(ret.value.elts[1]) == "result", "select_options_affecting_cache must return result")  # type: ignore[union-attr]

    # --- build.options_snapshot
    f = find_func(bt, "options_snapshot")
    body = [s for s in f.body if not (isinstance(s, ast.Expr) and isinstance(s.value, ast.Constant))]
    need(ast.unparse(body[0]) == "cloned = manager.options.clone_for_module(module)", "options_snapshot must start by cloning per-module options")
    src = ast.unparse(f)
    need(src.count("cloned.select_options_affecting_cache()") == 2, "options_snapshot: select_options_affecting_cache calls")
    last = body[-1]
    need(isinstance(last, ast.Return) and isinstance(last.value, ast.Dict), "options_snapshot: final return must be a dict")
    keys = [k.value for k in last.value.keys]  # type: ignore[union-attr]
    r["snapshot_dict_keys"] = keys
    need(keys[-1:] == ["other_options"], "options_snapshot: dict keys " + repr(keys))
    r["snapshot_dict_has_platform"] = "platform" in keys
    need("hash_digest(buf.getvalue())" in src and "write_json_value(buf, cast(JsonValue, values))" in src, "options_snapshot: hash of all values")

    # --- find_cache_meta: the comparison
    f = find_func(bt, "find_cache_meta")
    stmts = f.body
    idx = [i for i, s in enumerate(stmts) if ast.unparse(s) == "cached_options = m.options"]
    r["fcm_compares"] = False
    r["fcm_lax"] = []
    if len(idx) == 1:
        i = idx[0] + 1
        need(ast.unparse(stmts[i]) == "current_options = options_snapshot(id, manager)", "find_cache_meta: current_options")
        i += 1
        while i < len(stmts):
            s = stmts[i]
            u = ast.unparse(s)
            if isinstance(s, ast.If) and ast.unparse(s.test) == "cached_options != current_options":
                need(isinstance(s.body[-1], ast.Return) and ast.unparse(s.body[-1]) == "return None" and not s.orelse, "find_cache_meta: comparison must return None")
                r["fcm_compares"] = True
                break
            if isinstance(s, ast.If) and ast.unparse(s.test).startswith("manager.options.") and len(s.body) == 1 and \
                    ast.unparse(s.body[0]) == "cached_options['platform'] = current_options['platform']":
                r["fcm_lax"].append(ast.unparse(s.test)[len("manager.options."):])
            elif u == "if 'debug_cache' in cached_options:\n    del cached_options['debug_cache']":
                pass
            else:
                raise T09Error("find_cache_meta: unexpected statement before the options comparison: " + u[:100])
            i += 1
    else:
        need(len(idx) == 0, "find_cache_meta: cached_options assigned more than once")
    # --- import options of suppressed dependencies (State.suppressed_deps_opts, State.is_fresh, Options.dep_import_options)
    pri = {}
    for nm in ("PRI_HIGH", "PRI_MED", "PRI_LOW", "PRI_MYPY", "PRI_INDIRECT", "PRI_ALL"):
        e = module_assign(bt, nm)
        need(isinstance(e, ast.Constant) and isinstance(e.value, int) and 0 <= e.value < 1000, f"{nm} is not a small int literal")
        pri[nm] = e.value
    r["priorities"] = pri
    f = find_func(bt, "suppressed_deps_opts", "State")
    loops = [n for n in f.body if isinstance(n, ast.For)]
    need(len(loops) == 1 and ast.unparse(loops[0].iter) == "sorted(self.suppressed)" and isinstance(loops[0].target, ast.Name),
         "suppressed_deps_opts: expected one loop over sorted(self.suppressed)")
    dv = loops[0].target.id
    ifs = [n for n in loops[0].body if isinstance(n, ast.If)]
    need(len(ifs) == 1 and not ifs[0].orelse, "suppressed_deps_opts: expected exactly one (priority) condition in the loop")
    t = ifs[0].test
    need(isinstance(t, ast.Compare) and len(t.ops) == 1 and isinstance(t.comparators[0], ast.Name) and t.comparators[0].id in pri,
         "suppressed_deps_opts: condition is not `<priority> <op> PRI_x`: " + ast.unparse(t))
    lhs = ast.unparse(t.left)
    need(lhs in (f"self.priorities.get({dv})", f"self.priorities.get({dv}, PRI_HIGH)"), "suppressed_deps_opts: unexpected priority expression " + lhs)
    r["sdo_default"] = "PRI_HIGH" if "PRI_HIGH" in lhs else "None"
    ops = {ast.NotEq: "!=", ast.Lt: "<", ast.LtE: "<=", ast.Eq: "==", ast.Gt: ">", ast.GtE: ">="}
    need(type(t.ops[0]) in ops, "suppressed_deps_opts: unsupported comparison operator")
    r["sdo_op"] = ops[type(t.ops[0])]
    r["sdo_bound"] = t.comparators[0].id
    body = [ast.unparse(x) for x in ifs[0].body]
    need(body == [f"write_str_bare(buf, {dv})", f"write_bytes_bare(buf, import_options[{dv}])", "write_int_bare(buf, reason)"],
         "suppressed_deps_opts: recorded fields changed: " + repr(body))
    f = find_func(bt, "is_fresh", "State")
    src_ = ast.unparse(f)
    need("self.dependencies == self.meta.dependencies" in src_, "is_fresh: dependencies comparison")
    need("self.meta.suppressed_deps_opts == self.suppressed_deps_opts()" in src_, "is_fresh no longer compares suppressed_deps_opts")
    r["is_fresh_escape"] = sorted(option_reads(f, names))
    f = find_func(ot, "dep_import_options", "Options")
    wr = []
    for n in ast.walk(f):
        if isinstance(n, ast.Call) and isinstance(n.func, ast.Name) and n.func.id.startswith("write_") and len(n.args) == 2:
            a1 = n.args[1]
            need(isinstance(a1, ast.Attribute) and ast.unparse(a1.value) == "self" and a1.attr in names, "dep_import_options: unexpected written value")
            wr.append(a1.attr)
    need(len(wr) >= 1, "dep_import_options writes nothing")
    r["import_option_names"] = wr
    # the comparison must precede every `return` of a found meta
    # --- cache location
    r["cache_dir_reads"] = sorted(option_reads(find_func(bt, "_cache_dir_prefix"), names))
    r["store_reads"] = sorted(option_reads(find_func(bt, "create_metastore"), names) | option_reads(find_func(bt, "get_cache_names"), names))
    src = ast.unparse(find_func(bt, "_cache_dir_prefix"))
    need("'%d.%d' % pyversion" in src and "pyversion = options.python_version" in src, "_cache_dir_prefix: python version component")

    # --- errors.py
    cs = [n for n in et.body if isinstance(n, ast.ClassDef) and n.name == "Errors"]
    need(len(cs) == 1, "class Errors")
    methods = {m.name: m for m in cs[0].body if isinstance(m, ast.FunctionDef)}
    aliases: dict[str, str] = {}
    for s in ast.walk(methods["__init__"]):
        if isinstance(s, ast.Assign) and len(s.targets) == 1 and isinstance(s.targets[0], ast.Attribute) and ast.unparse(s.targets[0].value) == "self":
            rd = option_reads(s.value, names)
            if rd and s.targets[0].attr != "options":
                need(len(rd) == 1, "alias field reading several options")
                aliases[s.targets[0].attr] = next(iter(rd))
    r["errors_aliases"] = sorted(aliases.items())
    mreads = {n: sorted(option_reads(m, names, aliases=aliases if n != "__init__" else None)) for n, m in methods.items()}
    r["errors_method_reads"] = sorted((n, v) for n, v in mreads.items() if v)
    graph = {n: self_calls(m) & set(methods) for n, m in methods.items()}
    # post-load entry points: calls manager.errors.X(...) in the `if fresh:` branch of find_stale_sccs
    f = find_func(bt, "find_stale_sccs")
    fresh_ifs = [n for n in ast.walk(f) if isinstance(n, ast.If) and ast.unparse(n.test) == "fresh"
                 and "error_lines" in ast.unparse(n.body)]
    need(len(fresh_ifs) == 1, "find_stale_sccs: `if fresh:` branch replaying error_lines")
    entry = set()
    for n in fresh_ifs[0].body:
        for c in ast.walk(n):
            if isinstance(c, ast.Call) and isinstance(c.func, ast.Attribute) and ast.unparse(c.func.value) == "manager.errors":
                entry.add(c.func.attr)
    need("format_messages" in entry, "find_stale_sccs: cached error_lines are no longer formatted by Errors.format_messages")
    r["post_load_entry"] = sorted(entry)
    post = closure(entry, graph)
    r["post_load_methods"] = sorted(post)
    r["post_load_reads"] = sorted({a for m in post for a in mreads.get(m, [])})
    # what produces the cached tuples: file_messages and everything reachable from the non-post-load methods
    need("file_messages" in methods and "render_messages" in graph["file_messages"], "Errors.file_messages no longer renders")
    pre_roots = set(methods) - set(entry) - {"__init__"}
    pre_roots -= {m for m in post if m not in closure({"file_messages", "report", "add_error_info"}, graph) and m in ("format_messages", "format_messages_default", "find_shadow_file_mapping")}
    pre = closure(pre_roots - {"new_messages", "raise_error"}, graph) - {"format_messages", "format_messages_default", "find_shadow_file_mapping"}
    r["precache_methods"] = sorted(pre)
    r["precache_reads"] = sorted({a for m in pre for a in mreads.get(m, [])})

    # --- read sites over the whole package (syntactic; receivers named options/opts/...)
    sites: dict[str, set[str]] = {n: set() for n in names}
    base = os.path.join(vlib.REPO, "mypy")
    for dp, dn, fn in os.walk(base):
        dn[:] = [d for d in dn if d not in ("typeshed", "test", "__pycache__", "xml")]
        for fname in fn:
            if not fname.endswith(".py"):
                continue
            p = os.path.join(dp, fname)
            rel = os.path.relpath(p, vlib.REPO)
            try:
                t = ast.parse(open(p, encoding="utf-8").read())
            except SyntaxError as ex:
                raise T09Error(f"cannot parse {rel}: {ex}")
            skip = None
            if rel == "mypy/options.py":
                continue
            for a in option_reads(t, names, recv=("options", "opts", "global_options", "new_options", "cloned", "_options")):
                sites[a].add(rel)
    r["read_sites"] = sorted((a, sorted(v)) for a, v in sites.items())
    # reads inside the analysis modules (parsing, semantic analysis, type checking, message text, plugins)
    import fnmatch
    r["analysis_reads"] = [(a, fs2) for a, fs in r["read_sites"]
                           for fs2 in [[f for f in fs if any(fnmatch.fnmatch(f, p) for p in ANALYSIS_FILES)]] if fs2]
    need(len(r["analysis_reads"]) >= 40, "suspiciously few option reads in the analysis modules")
    return r


def load_by_design() -> list[str]:
    d = json.load(open(CLASS_FILE))
    out = []
    for name, v in d["attributes"].items():
        if v.get("by_design"):
            need(v["class"] == "finding", f"{name}: by_design only applies to class finding")
            out.append(name)
    return out


def load_class() -> list[tuple[str, str, str]]:
    d = json.load(open(CLASS_FILE))
    out = []
    for name, v in d["attributes"].items():
        cls = v["class"]
        need(cls in ("key", "dir", "post_load", "inert", "finding"), f"{name}: unknown class {cls}")
        if cls in ("inert", "finding"):
            need(bool(v.get("reason")), f"{name}: class {cls} needs a reason")
        out.append((name, cls, v.get("reason", "")))
    return out


def q(s: str) -> str:
    return '"' + s.replace('"', '""') + '"'


def slist(xs) -> str:
    return "[" + "; ".join(q(x) for x in xs) + "]"


def generate() -> dict[str, str]:
    r = extract()
    L = ["(* GENERATED from mypy/options.py, mypy/build.py, mypy/errors.py by tools/extractors/t09.py -- do not edit; regenerated on every run *)",
         "From Coq Require Import List String Bool Arith.", "Import ListNotations.", "Open Scope string_scope.", ""]
    L.append("Definition attrs : list (string * string) :=\n  [" + ";\n   ".join(f"({q(n)}, {q(d)})" for n, d in r["attrs"]) + "].\n")
    L.append(f"Definition per_module_options : list string :=\n  {slist(r['per_module'])}.\n")
    L.append(f"Definition options_affecting_cache : list string :=\n  {slist(r['affecting'])}.\n")
    L.append(f"Definition options_affecting_cache_no_platform : list string :=\n  {slist(r['no_platform'])}.\n")
    L.append(f"Definition snapshot_iter : string := {q(r['snapshot_iter'])}.")
    L.append(f"Definition snapshot_platform : bool := {str(r['snapshot_platform']).lower()}.")
    L.append(f"Definition snapshot_dict_has_platform : bool := {str(r['snapshot_dict_has_platform']).lower()}.")
    L.append(f"Definition snapshot_normalised : list string := {slist(r['snapshot_normalised'])}.")
    L.append(f"Definition fcm_compares : bool := {str(r['fcm_compares']).lower()}.")
    L.append(f"Definition fcm_lax : list string := {slist(r['fcm_lax'])}.")
    L.append("(* import priorities (mypy/build.py) and the priorities whose suppressed dependencies are recorded by State.suppressed_deps_opts *)")
    for nm, v in r["priorities"].items():
        L.append(f"Definition {nm.lower()} : nat := {v}.")
    cmp_ = {"!=": "negb (Nat.eqb p {b})", "==": "Nat.eqb p {b}", "<": "Nat.ltb p {b}", "<=": "Nat.leb p {b}", ">": "Nat.ltb {b} p", ">=": "Nat.leb {b} p"}[r["sdo_op"]]
    L.append(f"Definition sdo_covered (p : nat) : bool := {cmp_.format(b=r['sdo_bound'].lower())}.   (* source: <priority> {r['sdo_op']} {r['sdo_bound']} *)")
    L.append(f"Definition import_option_names : list string := {slist(r['import_option_names'])}.")
    L.append(f"Definition is_fresh_escape : list string := {slist(r['is_fresh_escape'])}.")
    L.append(f"Definition cache_dir_reads : list string := {slist(r['cache_dir_reads'])}.")
    L.append(f"Definition store_reads : list string := {slist(r['store_reads'])}.")
    L.append("Definition errors_method_reads : list (string * list string) :=\n  [" + ";\n   ".join(f"({q(n)}, {slist(v)})" for n, v in r["errors_method_reads"]) + "].")
    L.append(f"Definition post_load_entry : list string := {slist(r['post_load_entry'])}.")
    L.append(f"Definition post_load_methods : list string := {slist(r['post_load_methods'])}.")
    L.append(f"Definition post_load_reads : list string := {slist(r['post_load_reads'])}.")
    L.append(f"Definition precache_methods : list string := {slist(r['precache_methods'])}.")
    L.append(f"Definition precache_reads : list string := {slist(r['precache_reads'])}.")
    L.append("Definition read_sites : list (string * list string) :=\n  [" + ";\n   ".join(f"({q(n)}, {slist(v)})" for n, v in r["read_sites"]) + "].")
    L.append("(* option reads inside the analysis modules: " + " ".join(ANALYSIS_FILES) + " *)")
    L.append("Definition analysis_reads : list (string * list string) :=\n  [" + ";\n   ".join(f"({q(n)}, {slist(v)})" for n, v in r["analysis_reads"]) + "].")
    table = "\n".join(L) + "\n"
    cl = load_class()
    C = ["(* GENERATED from tools/harness/options_class.json by tools/extractors/t09.py -- do not edit *)",
         "From Coq Require Import List String.", "Import ListNotations.", "Open Scope string_scope.", "",
         "Inductive oclass := Key | Dir | PostLoad | Inert | Finding.", "",
         "Definition classification : list (string * oclass) :=\n  [" +
         ";\n   ".join(f"({q(n)}, {dict(key='Key', dir='Dir', post_load='PostLoad', inert='Inert', finding='Finding')[c]})" for n, c, _ in cl) + "].",
         "",
         "(* findings that are deliberate behaviour of mypy (\"by_design\": true), each recorded as a known finding *)",
         f"Definition by_design : list string := {slist(load_by_design())}.",
         "",
         "(* reviewed reads of inert attributes inside analysis modules (attribute, files) *)",
         "Definition reviewed_reads : list (string * list string) :=\n  [" + ";\n   ".join(
             f"({q(n)}, {slist(v['analysis_reads_reviewed'])})" for n, v in json.load(open(CLASS_FILE))["attributes"].items()
             if v.get("analysis_reads_reviewed")) + "]."]
    files = {"OptionsTable.v": table, "OptionsClass.v": "\n".join(C) + "\n"}
    for k, v in files.items():
        vlib.write_if_changed(os.path.join(vlib.GEN, k), v)
    return files


if __name__ == "__main__":
    if "--json" in sys.argv:
        print(json.dumps(extract(), indent=1))
    else:
        for k, v in generate().items():
            print(f"(* ==== {k} ==== *)\n{v}")
