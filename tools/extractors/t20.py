"""T20: regenerate coq/gen/Bounds.v from /repo text (ast only, fail-closed).

Extracts the numeric bounds of the three fix-point drivers and checks, on the AST, the syntactic
shape the C20 model relies on:

  mypy/semanal_main.py   MAX_ITERATIONS, CORE_WARMUP;  process_top_levels breaks on
                         `iteration > MAX_ITERATIONS`, process_top_level_function on `iteration == MAX_ITERATIONS`;
                         both assert `not deferred` under `if final_iteration`
  mypy/checker.py        DEFAULT_LAST_PASS; every call `self.defer_node(...)` is lexically inside an
                         `if self.pass_num < self.last_pass` (the deferral contract of the model);
                         check_second_pass increments pass_num exactly once
  mypy/server/update.py  MAX_ITER; the `num_iter > MAX_ITER` test raises; `checker.last_pass = <n>` of the
                         fine-grained reprocess step
"""
from __future__ import annotations

import ast
import os
import sys

sys.path.insert(0, os.path.dirname(os.path.dirname(os.path.abspath(__file__))))
import vlib


class Unsupported(Exception):
    pass


def _const(tree: ast.Module, name: str) -> int:
    for n in tree.body:
        tgt = None
        if isinstance(n, ast.AnnAssign) and isinstance(n.target, ast.Name):
            tgt, val = n.target.id, n.value
        elif isinstance(n, ast.Assign) and len(n.targets) == 1 and isinstance(n.targets[0], ast.Name):
            tgt, val = n.targets[0].id, n.value
        if tgt == name:
            if isinstance(val, ast.Constant) and type(val.value) is int and 0 <= val.value <= 5000:
                return val.value
            raise Unsupported(f"{name} is not a small non-negative int literal")
    raise Unsupported(f"module constant {name} not found")


def _func(tree: ast.AST, name: str) -> ast.FunctionDef:
    for n in ast.walk(tree):
        if isinstance(n, ast.FunctionDef) and n.name == name:
            return n
    raise Unsupported(f"function {name} not found")


def _cmp(test: ast.expr) -> tuple[str, str, str] | None:
    if isinstance(test, ast.Compare) and len(test.ops) == 1:
        return ast.unparse(test.left), type(test.ops[0]).__name__, ast.unparse(test.comparators[0])
    return None


def _find_if(fn: ast.FunctionDef, shape: tuple[str, str, str]) -> ast.If:
    for n in ast.walk(fn):
        if isinstance(n, ast.If) and _cmp(n.test) == shape:
            return n
    raise Unsupported(f"{fn.name}: no `if {shape[0]} {shape[1]} {shape[2]}`")


def _ends_with(body: list[ast.stmt], kind: type) -> bool:
    return bool(body) and isinstance(body[-1], kind)


def _final_assert(fn: ast.FunctionDef, var: str) -> None:
    for n in ast.walk(fn):
        if isinstance(n, ast.If) and ast.unparse(n.test) == "final_iteration" and len(n.body) == 1 \
                and isinstance(n.body[0], ast.Assert) and ast.unparse(n.body[0].test) == f"not {var}":
            return
    raise Unsupported(f"{fn.name}: `if final_iteration: assert not {var}` not found")


def extract() -> dict[str, int]:
    sm = ast.parse(vlib.read_repo("mypy/semanal_main.py"))
    ck = ast.parse(vlib.read_repo("mypy/checker.py"))
    up = ast.parse(vlib.read_repo("mypy/server/update.py"))
    out = {"MAX_ITERATIONS": _const(sm, "MAX_ITERATIONS"), "CORE_WARMUP": _const(sm, "CORE_WARMUP"),
           "DEFAULT_LAST_PASS": _const(ck, "DEFAULT_LAST_PASS"), "MAX_ITER": _const(up, "MAX_ITER")}
    # --- semanal_main: shape of the two loops
    ptl = _func(sm, "process_top_levels")
    i1 = _find_if(ptl, ("iteration", "Gt", "MAX_ITERATIONS"))
    if not _ends_with(i1.body, ast.Break):
        raise Unsupported("process_top_levels: the MAX_ITERATIONS branch does not end in break")
    _final_assert(ptl, "all_deferred")
    ptf = _func(sm, "process_top_level_function")
    i2 = _find_if(ptf, ("iteration", "Eq", "MAX_ITERATIONS"))
    if not _ends_with(i2.body, ast.Break):
        raise Unsupported("process_top_level_function: the MAX_ITERATIONS branch does not end in break")
    _final_assert(ptf, "deferred")
    for fn in (ptl, ptf):
        incs = [n for n in ast.walk(fn) if isinstance(n, ast.AugAssign) and ast.unparse(n.target) == "iteration"]
        if len(incs) != 1 or not isinstance(incs[0].op, ast.Add) or ast.unparse(incs[0].value) != "1":
            raise Unsupported(f"{fn.name}: `iteration += 1` must occur exactly once")
    # --- checker: every defer_node call guarded by pass_num < last_pass; pass_num += 1 once in check_second_pass
    guarded = 0

    def walk(node: ast.AST, under_guard: bool) -> None:
        nonlocal guarded
        if isinstance(node, ast.Call) and ast.unparse(node.func) == "self.defer_node":
            if not under_guard:
                raise Unsupported(f"checker.py:{node.lineno}: self.defer_node(...) not under `if self.pass_num < self.last_pass`")
            guarded += 1
        if isinstance(node, ast.If):
            g = under_guard
            t = node.test
            conj = t.values if isinstance(t, ast.BoolOp) and isinstance(t.op, ast.And) else [t]
            if any(_cmp(c) == ("self.pass_num", "Lt", "self.last_pass") for c in conj):
                g = True
            walk(node.test, under_guard)
            for s in node.body:
                walk(s, g)
            for s in node.orelse:
                walk(s, under_guard)
            return
        if isinstance(node, ast.FunctionDef) and node.name == "defer_node":
            return
        for ch in ast.iter_child_nodes(node):
            walk(ch, under_guard)
    walk(ck, False)
    if guarded == 0:
        raise Unsupported("checker.py: no guarded defer_node call found")
    out["DEFER_SITES"] = guarded
    for other in ("mypy/checkexpr.py", "mypy/checkmember.py", "mypy/checkpattern.py", "mypy/checkstrformat.py"):
        try:
            if "defer_node(" in vlib.read_repo(other) or ".deferred_nodes" in vlib.read_repo(other):
                raise Unsupported(f"{other} defers nodes outside checker.py (contract not established syntactically)")
        except FileNotFoundError:
            pass
    csp = _func(ck, "check_second_pass")
    incs = [n for n in ast.walk(csp) if isinstance(n, ast.AugAssign) and ast.unparse(n.target) == "self.pass_num"]
    if len(incs) != 1 or ast.unparse(incs[0].value) != "1" or not isinstance(incs[0].op, ast.Add):
        raise Unsupported("check_second_pass: `self.pass_num += 1` must occur exactly once")
    # --- update.py
    prop = _func(up, "propagate_changes_using_dependencies")
    i3 = _find_if(prop, ("num_iter", "Gt", "MAX_ITER"))
    if not _ends_with(i3.body, ast.Raise):
        raise Unsupported("propagate_changes_using_dependencies: the MAX_ITER branch does not raise")
    rn = _func(up, "reprocess_nodes")
    lp = [n for n in ast.walk(rn) if isinstance(n, ast.Assign) and ast.unparse(n.targets[0]) == "checker.last_pass"]
    if len(lp) != 1 or not (isinstance(lp[0].value, ast.Constant) and type(lp[0].value.value) is int):
        raise Unsupported("reprocess_nodes: `checker.last_pass = <int>` not found exactly once")
    out["FINE_GRAINED_LAST_PASS"] = lp[0].value.value
    # --- checker.accept_loop: `iter = 1`, single `iter += 1`, `if iter == <cap>: raise RuntimeError`, and the exact break condition
    import re
    al = _func(ck, "accept_loop")
    inits = [n for n in ast.walk(al) if isinstance(n, ast.Assign) and ast.unparse(n.targets[0]) == "iter"]
    if len(inits) != 1 or ast.unparse(inits[0].value) != "1":
        raise Unsupported("accept_loop: `iter = 1` must occur exactly once")
    incs = [n for n in ast.walk(al) if isinstance(n, ast.AugAssign) and ast.unparse(n.target) == "iter"]
    if len(incs) != 1 or not isinstance(incs[0].op, ast.Add) or ast.unparse(incs[0].value) != "1":
        raise Unsupported("accept_loop: `iter += 1` must occur exactly once")
    caps = [n for n in ast.walk(al) if isinstance(n, ast.If) and (c := _cmp(n.test)) and c[0] == "iter" and c[1] == "Eq"]
    if len(caps) != 1 or not _ends_with(caps[0].body, ast.Raise) or not caps[0].test.comparators[0].__class__ is ast.Constant:
        raise Unsupported("accept_loop: `if iter == <cap>: raise ...` not found exactly once")
    out["ACCEPT_LOOP_CAP"] = int(caps[0].test.comparators[0].value)  # type: ignore[attr-defined]
    brk = [n for n in ast.walk(al) if isinstance(n, ast.If) and _ends_with(n.body, ast.Break)]
    if len(brk) != 1:
        raise Unsupported("accept_loop: exactly one `if ...: break` expected")
    m = re.fullmatch(r"partials_new == partials_old and \(not self\.binder\.last_pop_changed or iter > (\d+)\) and "
                     r"\(widened_new == widened_old or iter > (\d+)\)", ast.unparse(brk[0].test))
    if not m:
        raise Unsupported("accept_loop: break condition changed shape: " + ast.unparse(brk[0].test))
    out["ACCEPT_LOOP_FRAME_ITERS"], out["ACCEPT_LOOP_WIDEN_ITERS"] = int(m.group(1)), int(m.group(2))
    whiles = [n for n in ast.walk(al) if isinstance(n, ast.While)]
    if len(whiles) != 1 or ast.unparse(whiles[0].test) != "True":
        raise Unsupported("accept_loop: a single `while True:` expected")
    order = [type(x).__name__ for x in whiles[0].body[-5:]]
    if order != ["If", "Assign", "Assign", "AugAssign", "If"]:
        raise Unsupported(f"accept_loop: tail of the loop body changed: {order}")
    # --- update.sort_messages_preserving_file_order: shape of the two index loops (no numeric bound; the model is hand-written)
    sp = _func(up, "sort_messages_preserving_file_order")
    wl = [n for n in ast.walk(sp) if isinstance(n, ast.While)]
    tests = sorted(ast.unparse(w.test) for w in wl)
    want = sorted(["i < len(messages)",
                   "i + 1 < len(messages) and extract_possible_fnam_from_message(messages[i + 1]) not in order and "
                   "(extract_fnam_from_message(messages[i + 1]) is None) and (not messages[i + 1].startswith('mypy: '))"])
    if tests != want:
        raise Unsupported(f"sort_messages_preserving_file_order: loop conditions changed: {tests}")
    subs = sorted(ast.unparse(n) for n in ast.walk(sp) if isinstance(n, ast.Subscript) and ast.unparse(n.value) == "messages")
    if subs != ["messages[i + 1]"] * 3 + ["messages[i]"] * 2:
        raise Unsupported(f"sort_messages_preserving_file_order: subscriptions of `messages` changed: {subs}")
    incs = [n for n in ast.walk(sp) if isinstance(n, ast.AugAssign) and ast.unparse(n.target) == "i"]
    if len(incs) != 2 or any(ast.unparse(n.value) != "1" or not isinstance(n.op, ast.Add) for n in incs):
        raise Unsupported("sort_messages_preserving_file_order: `i += 1` must occur exactly twice")
    if "groups.append((order.get(maybe_fnam, n), group))" not in ast.unparse(sp) or "sorted(groups, key=lambda g: g[0])" not in ast.unparse(sp):
        raise Unsupported("sort_messages_preserving_file_order: group key / sort changed")
    for k in ("ACCEPT_LOOP_CAP", "ACCEPT_LOOP_FRAME_ITERS", "ACCEPT_LOOP_WIDEN_ITERS"):
        if not 0 <= out[k] <= 5000:
            raise Unsupported(f"{k} out of range")
    return out


def render(vals: dict[str, int]) -> str:
    lines = ["(* GENERATED from mypy/semanal_main.py, mypy/checker.py, mypy/server/update.py by tools/extractors/t20.py",
             "   -- do not edit; regenerated on every run *)",
             "Definition MAX_ITERATIONS : nat := %d." % vals["MAX_ITERATIONS"],
             "Definition CORE_WARMUP : nat := %d." % vals["CORE_WARMUP"],
             "Definition DEFAULT_LAST_PASS : nat := %d." % vals["DEFAULT_LAST_PASS"],
             "Definition FINE_GRAINED_LAST_PASS : nat := %d." % vals["FINE_GRAINED_LAST_PASS"],
             "Definition MAX_ITER : nat := %d." % vals["MAX_ITER"],
             "(* number of `self.defer_node` call sites in checker.py, all under `if self.pass_num < self.last_pass` *)",
             "Definition DEFER_SITES_GUARDED : nat := %d." % vals["DEFER_SITES"],
             "(* checker.accept_loop: `if iter == CAP: raise`; break condition `... iter > FRAME_ITERS ... iter > WIDEN_ITERS` *)",
             "Definition ACCEPT_LOOP_CAP : nat := %d." % vals["ACCEPT_LOOP_CAP"],
             "Definition ACCEPT_LOOP_FRAME_ITERS : nat := %d." % vals["ACCEPT_LOOP_FRAME_ITERS"],
             "Definition ACCEPT_LOOP_WIDEN_ITERS : nat := %d." % vals["ACCEPT_LOOP_WIDEN_ITERS"]]
    return "\n".join(lines) + "\n"


def generate() -> dict[str, str]:
    txt = render(extract())
    vlib.write_if_changed(os.path.join(vlib.GEN, "Bounds.v"), txt)
    return {"Bounds.v": txt}


if __name__ == "__main__":
    for k, v in generate().items():
        print(f"(* ==== {k} ==== *)\n{v}")
