"""T6: regenerate coq/gen/Schemas.v from /repo text (mypy/cache.py, nodes.py, types.py).

For every class with a `write`/`read` pair and every module-level `write_X`/`read_X` helper pair the
ordered field-op sequence of the writer and of the reader are extracted *independently* (Python `ast`
only, mypy is never imported) into the op language of coq/C11/Schema.v.  Fail-closed per class: a
construct outside the recognised straight-line subset makes that class "searched only" (listed, never
dropped silently).  Tag dispatch sites (`assert read_tag(data) == T; C.read(data)`, the `read_type`-like
dispatch functions) are checked against the first tag written by `C.write`.
"""
from __future__ import annotations

import ast
import os
import sys
from typing import Any

sys.path.insert(0, os.path.dirname(os.path.dirname(os.path.abspath(__file__))))
import vlib

FILES = ["mypy/cache.py", "mypy/nodes.py", "mypy/types.py"]

PRIM_W = {"write_int_bare": "IntBare", "write_str_bare": "StrBare", "write_bytes_bare": "BytesBare",
          "write_float_bare": "FloatBare", "write_bool": "Bool"}
PRIM_R = {"read_int_bare": "IntBare", "read_str_bare": "StrBare", "read_bytes_bare": "BytesBare",
          "read_float_bare": "FloatBare", "read_bool": "Bool"}
EXT = {"json": 1, "json_value": 2, "literal": 3}
# hand-modelled in Schema.v (bit packing) -- not inlined
NO_INLINE = {"flags", "json", "json_value", "literal"}


# reader-side spellings that denote the same field as the writer-side attribute (constructor parameter names,
# fix-up references).  Everything not listed must agree literally (modulo leading underscores).
ALIASES = {
    "typ": "type",
    "mro_refs": "mro",
}
# per class: constructor parameter / fix-up attribute -> attribute the writer serializes
CLASS_ALIASES = {
    ("TupleType", "fallback"): "partial_fallback",     # TupleType.__init__: self.partial_fallback = fallback
    ("TypeAliasType", "type_ref"): "alias.fullname",   # resolved to .alias by fixup
}


def norm_name(n: str) -> str:
    if n == "?" or n.startswith("local:"):
        return n
    n = ".".join(p.lstrip("_") for p in n.split("."))
    return ALIASES.get(n, n)


class Unsupported(Exception):
    pass


def src(n: ast.AST) -> str:
    return ast.unparse(n)


def uses_data(n: ast.AST) -> bool:
    return any(isinstance(x, ast.Name) and x.id == "data" for x in ast.walk(n))


def call_name(c: ast.AST) -> str | None:
    """write_int / mypy.types.write_type_opt -> bare function name; X.write -> None"""
    if not isinstance(c, ast.Call):
        return None
    f = c.func
    if isinstance(f, ast.Name):
        return f.id
    if isinstance(f, ast.Attribute) and src(f.value) in ("mypy.types", "mypy.nodes", "mypy.cache"):
        return f.attr
    return None


def is_data_arg0(c: ast.Call) -> bool:
    return bool(c.args) and isinstance(c.args[0], ast.Name) and c.args[0].id == "data"


class Extractor:
    def __init__(self) -> None:
        self.tags: dict[str, int] = {}
        self.funcs: dict[str, ast.FunctionDef] = {}
        self.classes: dict[str, ast.ClassDef] = {}
        self.cls_file: dict[str, str] = {}
        self.methods: dict[tuple[str, str], ast.FunctionDef] = {}
        for rel in FILES:
            tree = ast.parse(vlib.read_repo(rel))
            for n in tree.body:
                if isinstance(n, ast.AnnAssign) and isinstance(n.target, ast.Name) and isinstance(n.value, ast.Constant) \
                        and isinstance(n.value.value, int) and "Tag" in src(n.annotation):
                    if n.target.id in self.tags and self.tags[n.target.id] != n.value.value:
                        raise Unsupported(f"tag {n.target.id} defined twice with different values")
                    self.tags[n.target.id] = n.value.value
                elif isinstance(n, ast.FunctionDef):
                    self.funcs[n.name] = n
                elif isinstance(n, ast.ClassDef):
                    self.classes[n.name] = n
                    self.cls_file[n.name] = rel
                    for m in n.body:
                        if isinstance(m, ast.FunctionDef):
                            self.methods[(n.name, m.name)] = m
        dup = {}
        for k, v in self.tags.items():
            dup.setdefault(v, []).append(k)
        self.dup_tags = {v: ks for v, ks in dup.items() if len(ks) > 1}
        self.helper_w: dict[str, Any] = {}
        self.helper_r: dict[str, Any] = {}
        self.tables: dict[str, list[tuple[str, str]]] = {}
        self.sites: dict[str, set[str]] = {}       # class -> tag names used at its read sites
        self._uid = 0
        self.names: dict[str, tuple[list[str], list[str]]] = {}
        self.rn: dict[int, str] = {}               # reader value op -> field name
        self.rflags: dict[int, list[str]] = {}     # reader Flags op -> names of the assigned attributes

    # ------------------------------------------------------------ tags
    def tag(self, n: ast.AST) -> str:
        nm = n.attr if isinstance(n, ast.Attribute) else n.id if isinstance(n, ast.Name) else None
        if nm is None or nm not in self.tags:
            raise Unsupported(f"unknown tag expression {src(n)}")
        return nm

    def first_written_tag(self, cls: str) -> str | None:
        m = self.methods.get((cls, "write"))
        if m is None:
            return None
        calls = [c for c in ast.walk(m) if isinstance(c, ast.Call) and call_name(c) == "write_tag"]
        calls.sort(key=lambda c: (c.lineno, c.col_offset))
        return self.tag(calls[0].args[1]) if calls else None

    def self_read_tag(self, cls: str) -> str | None:
        m = self.methods.get((cls, "read"))
        if m is None:
            return None
        body = [s for s in m.body if not (isinstance(s, ast.Expr) and isinstance(s.value, ast.Constant))]
        if body and isinstance(body[0], ast.Assert):
            t = self.assert_read_tag(body[0])
            ft = self.first_written_tag(cls)
            if t is not None and ft is not None and self.tags[t] == self.tags[ft]:
                return t
        return None

    def assert_read_tag(self, s: ast.Assert) -> str | None:
        t = s.test
        if isinstance(t, ast.Compare) and len(t.ops) == 1 and isinstance(t.ops[0], ast.Eq) \
                and call_name(t.left) == "read_tag":
            return self.tag(t.comparators[0])
        return None

    # ------------------------------------------------------------ writer side
    def helper_writer(self, name: str) -> Any:
        """ops of module-level write_<name>(data, value)"""
        if name in self.helper_w:
            r = self.helper_w[name]
            if isinstance(r, Unsupported):
                raise r
            return r
        f = self.funcs.get("write_" + name)
        if f is None:
            raise Unsupported(f"no function write_{name}")
        try:
            r = self.wstmts(f.body)
        except Unsupported as e:
            self.helper_w[name] = e
            raise
        self.helper_w[name] = r
        return r

    def wstmts(self, stmts: list[ast.stmt]) -> list[Any]:
        out: list[Any] = []
        i = 0
        stmts = [s for s in stmts if not (isinstance(s, ast.Expr) and isinstance(s.value, ast.Constant))]
        while i < len(stmts):
            s = stmts[i]
            i += 1
            if isinstance(s, ast.Expr) and isinstance(s.value, ast.Call):
                c = s.value
                nm = call_name(c)
                if nm == "write_tag" and is_data_arg0(c):
                    out.append(("Tag", self.tag(c.args[1])))
                elif nm == "write_int_bare" and is_data_arg0(c) and isinstance(c.args[1], ast.Call) \
                        and src(c.args[1].func) == "len":
                    coll = src(c.args[1].args[0])
                    if i < len(stmts) and isinstance(stmts[i], ast.For):
                        loop = stmts[i]
                        i += 1
                        it = src(loop.iter)
                        if it not in (coll, coll + ".items()", f"sorted({coll})"):
                            raise Unsupported(f"loop over {it} after count len({coll})")
                        if loop.orelse:
                            raise Unsupported("for/else")
                        out.append(("Rep", self.wstmts(loop.body), coll))
                    else:
                        raise Unsupported(f"count len({coll}) not followed by a loop")
                elif nm in PRIM_W and is_data_arg0(c):
                    out.append((PRIM_W[nm], src(c.args[1])))
                elif nm == "write_flags" and is_data_arg0(c) and isinstance(c.args[1], ast.List):
                    out.append(("Flags", len(c.args[1].elts), [src(e) for e in c.args[1].elts]))
                elif nm is not None and nm.startswith("write_") and nm[6:] in EXT and is_data_arg0(c):
                    out.append(("Ext", EXT[nm[6:]], src(c.args[1])))
                elif nm is not None and nm.startswith("write_") and is_data_arg0(c) and "write_" + nm[6:] in self.funcs:
                    out += [("Inl", nm[6:], src(c.args[1]))] + self.helper_writer(nm[6:])
                elif isinstance(c.func, ast.Attribute) and c.func.attr == "write" and is_data_arg0(c):
                    out.append(("Dyn", src(c.func.value)))
                elif not uses_data(c):
                    raise Unsupported(f"call with possible side effect: {src(c)[:60]}")
                else:
                    raise Unsupported(f"unrecognised writer call {src(c)[:60]}")
            elif isinstance(s, ast.If):
                t = s.test
                if isinstance(t, ast.Compare) and len(t.ops) == 1 and isinstance(t.comparators[0], ast.Constant) \
                        and t.comparators[0].value is None and isinstance(t.ops[0], (ast.Is, ast.IsNot)):
                    none_branch, some_branch = (s.body, s.orelse) if isinstance(t.ops[0], ast.Is) else (s.orelse, s.body)
                    nb = self.wstmts(none_branch)
                    if nb != [("Tag", "LITERAL_NONE")]:
                        raise Unsupported("None-branch of optional does not write exactly LITERAL_NONE")
                    out.append(("Opt", self.wstmts(some_branch), src(t.left)))
                else:
                    raise Unsupported(f"conditional on {src(t)[:60]}")
            elif isinstance(s, ast.Assert):
                if uses_data(s):
                    raise Unsupported("assert touching the buffer")
            elif isinstance(s, ast.Assign) and not uses_data(s) and not any(isinstance(x, ast.Call) and call_name(x) and (call_name(x) or "").startswith("write") for x in ast.walk(s)):
                pass
            elif isinstance(s, ast.Return) and s.value is None and i == len(stmts):
                pass
            else:
                raise Unsupported(f"writer statement {type(s).__name__}: {src(s)[:60]}")
        return out

    # ------------------------------------------------------------ reader side
    def helper_reader(self, name: str) -> Any:
        if name in self.helper_r:
            r = self.helper_r[name]
            if isinstance(r, Unsupported):
                raise r
            return r
        f = self.funcs.get("read_" + name)
        if f is None:
            raise Unsupported(f"no function read_{name}")
        try:
            r = self.merge(self.rstmts(f.body, {}))
        except Unsupported as e:
            self.helper_r[name] = e
            raise
        self.helper_r[name] = r
        return r

    def dispatch_table(self, name: str) -> list[tuple[str, str]]:
        """read_type / read_symbol / read_overload_part / read_function_like: if tag == T: return C.read(data)"""
        if name in self.tables:
            return self.tables[name]
        f = self.funcs.get(name)
        if f is None:
            raise Unsupported(f"no dispatcher {name}")
        body = [s for s in f.body if not (isinstance(s, ast.Expr) and isinstance(s.value, ast.Constant))]
        if body and isinstance(body[0], ast.If) and src(body[0].test) == "tag is None":
            if [src(x) for x in body[0].body] != ["tag = read_tag(data)"] or body[0].orelse:
                raise Unsupported(f"{name}: unexpected tag prologue")
            body = body[1:]
        tbl: list[tuple[str, str]] = []
        for s in body:
            if isinstance(s, ast.If) and not s.orelse and len(s.body) == 1 and isinstance(s.body[0], ast.Return):
                t = self.tag_eq(s.test)
                c = self.cls_read(s.body[0].value)
                if t is None or c is None:
                    raise Unsupported(f"{name}: branch {src(s)[:50]}")
                tbl.append((t, c))
            elif isinstance(s, ast.Assert) and src(s.test) == "False":
                pass
            else:
                raise Unsupported(f"{name}: statement {src(s)[:50]}")
        self.tables[name] = tbl
        for t, c in tbl:
            self.sites.setdefault(c, set()).add(t)
        return tbl

    def tag_eq(self, t: ast.AST) -> str | None:
        if isinstance(t, ast.Compare) and len(t.ops) == 1 and isinstance(t.ops[0], ast.Eq) and src(t.left) == "tag":
            return self.tag(t.comparators[0])
        return None

    def cls_read(self, e: ast.AST | None) -> str | None:
        """C.read(data) / mypy.types.C.read(data) -> C"""
        if isinstance(e, ast.Call) and isinstance(e.func, ast.Attribute) and e.func.attr == "read" \
                and len(e.args) == 1 and src(e.args[0]) == "data":
            v = e.func.value
            nm = v.attr if isinstance(v, ast.Attribute) else v.id if isinstance(v, ast.Name) else None
            if nm in self.classes:
                return nm
        return None

    def is_dispatcher(self, nm: str | None) -> bool:
        if nm is None or nm not in self.funcs:
            return False
        a = self.funcs[nm].args.args
        if nm.startswith("read_") and nm[5:] in NO_INLINE:
            return False
        return len(a) == 2 and a[1].arg == "tag"

    def rexpr(self, e: ast.AST | None, env: dict[str, Any]) -> list[Any]:
        """ops performed by evaluating e, in evaluation order"""
        if e is None or not uses_data(e):
            return self.pending_uses(e, env)
        if isinstance(e, ast.Call):
            nm = call_name(e)
            c = self.cls_read(e)
            if c is not None:
                return [self.V("ObjRead", c)]
            if nm in PRIM_R and len(e.args) == 1 and is_data_arg0(e):
                return [self.V(PRIM_R[nm], "")]
            if nm == "read_flags" and is_data_arg0(e):
                kw = {k.arg: k.value for k in e.keywords}
                n = kw.get("num_flags") or (e.args[1] if len(e.args) > 1 else None)
                if not (isinstance(n, ast.Constant) and isinstance(n.value, int)):
                    raise Unsupported("read_flags without literal num_flags")
                return [self.V("Flags", n.value, [])]
            if nm == "read_literal" and [src(a) for a in e.args] == ["data", "tag"] and env.get("tag") == "literal":
                env["tag"] = None
                return [self.V("Ext", EXT["literal"], "")]
            if nm is not None and nm.startswith("read_") and nm[5:] in EXT and nm != "read_literal" and len(e.args) == 1 and is_data_arg0(e):
                return [self.V("Ext", EXT[nm[5:]], "")]
            if self.is_dispatcher(nm):
                tbl = self.dispatch_table(nm)  # type: ignore[arg-type]
                if [src(a) for a in e.args] == ["data"]:
                    return [self.V("Nested", tbl)]
                if [src(a) for a in e.args] == ["data", "tag"] and env.get("tag") == "some":
                    env["tag"] = None
                    return [self.V("Nested", tbl)]
                raise Unsupported(f"dispatcher call {src(e)}")
            if nm == "read_tag":
                raise Unsupported("read_tag outside a recognised pattern")
            if nm is not None and nm.startswith("read_") and nm in self.funcs and len(e.args) == 1 and is_data_arg0(e):
                return [("Inl", nm[5:], "")] + [self.fresh(o) for o in self.helper_reader(nm[5:])]
            if nm == "range" or (isinstance(e.func, ast.Name) and e.func.id in ("set", "tuple", "list", "cast", "complex", "zip", "sorted")) \
                    or isinstance(e.func, (ast.Name, ast.Attribute)):
                # ordinary call: arguments are evaluated left to right, then keywords
                if uses_data(e.func):
                    raise Unsupported(f"call on buffer-dependent callee {src(e)[:50]}")
                if any(src(a) == "data" for a in e.args) or any(src(k.value) == "data" for k in e.keywords):
                    raise Unsupported(f"buffer passed to unknown function {src(e)[:60]}")
                out: list[Any] = []
                ps = self.callee_params(e.func)
                for i, a in enumerate(e.args):
                    out += self.named_arg(a, env, ps[i] if ps is not None and i < len(ps) else None)
                for k in e.keywords:
                    out += self.named_arg(k.value, env, k.arg if ps is not None else None)
                return out
            raise Unsupported(f"call {src(e)[:60]}")
        if isinstance(e, (ast.ListComp, ast.SetComp, ast.GeneratorExp, ast.DictComp)):
            if len(e.generators) != 1 or e.generators[0].ifs:
                raise Unsupported("comprehension shape")
            g = e.generators[0]
            if uses_data(g.iter) and not (isinstance(g.iter, ast.Call) and src(g.iter.func) == "range"):
                # [f(x) for x in read_int_list(data)]: only the iterable touches the buffer
                parts = [e.key, e.value] if isinstance(e, ast.DictComp) else [e.elt]
                if any(uses_data(p) for p in parts):
                    raise Unsupported("comprehension over a read with reads in the element")
                return self.rexpr(g.iter, env)
            cnt = self.range_count(g.iter, env)
            if isinstance(e, ast.DictComp):
                body = self.rexpr(e.key, env) + self.rexpr(e.value, env)
            else:
                body = self.rexpr(e.elt, env)
            return cnt + [self.wrap("Rep", self.merge(body))]
        if isinstance(e, (ast.Tuple, ast.List, ast.Set)):
            out = []
            for x in e.elts:
                out += self.rexpr(x, env)
            return out
        if isinstance(e, ast.Dict):
            out = []
            for k, v in zip(e.keys, e.values):
                out += self.rexpr(k, env) + self.rexpr(v, env)
            return out
        if isinstance(e, ast.Subscript):
            return self.rexpr(e.value, env) + self.rexpr(e.slice, env)
        if isinstance(e, ast.Starred):
            return self.rexpr(e.value, env)
        if isinstance(e, ast.NamedExpr):
            return self.rexpr(e.value, env)
        if isinstance(e, ast.Compare):
            out = self.rexpr(e.left, env)
            for x in e.comparators:
                out += self.rexpr(x, env)
            return out
        raise Unsupported(f"expression {type(e).__name__}: {src(e)[:60]}")

    def pending_uses(self, e: ast.AST | None, env: dict[str, Any]) -> list[Any]:
        return []

    def named_arg(self, a: ast.AST, env: dict[str, Any], pname: str | None) -> list[Any]:
        """ops of one call argument; its value is named after the parameter it is passed as"""
        before = set(self.rn)
        sub = self.rexpr(a, env)
        if pname is not None:
            if isinstance(a, ast.Call) and self.callee_params(a.func) is not None:
                for o in self.values(sub):       # TypeVarId(read_int(data), namespace=read_str(data)) -> id.raw_id, id.namespace
                    u = self.uid(o)
                    if u in self.rn and u not in before:
                        self.rn[u] = pname + "." + self.rn[u]
            self.name_ops(sub, pname)
        return sub

    def range_count(self, it: ast.AST, env: dict[str, Any]) -> list[Any]:
        """`range(read_int_bare(data))` or `range(size)` with size = read_int_bare(data) pending"""
        if isinstance(it, ast.Call) and src(it.func) == "range" and len(it.args) == 1:
            a = it.args[0]
            if call_name(a) == "read_int_bare":
                return []
            if isinstance(a, ast.Name) and env.get("count") == a.id:
                env["count"] = None
                return []
        raise Unsupported(f"iteration over {src(it)[:50]}")

    def rstmts(self, stmts: list[ast.stmt], env: dict[str, Any]) -> list[Any]:
        out: list[Any] = []
        stmts = [s for s in stmts if not (isinstance(s, ast.Expr) and isinstance(s.value, ast.Constant))]
        i = 0
        while i < len(stmts):
            s = stmts[i]
            i += 1
            if env.get("count") and not (uses_data(s) or any(isinstance(x, ast.Name) and x.id == env["count"] for x in ast.walk(s))):
                pass
            # ---- tag = read_tag(data)  /  if (tag := read_tag(data)) != LITERAL_NONE
            tagread = isinstance(s, ast.Assign) and src(s) == "tag = read_tag(data)"
            if tagread:
                if i >= len(stmts):
                    raise Unsupported("tag read at end of block")
                nxt = stmts[i]
                i += 1
                out += self.after_tag(nxt, stmts[i:], env)
                if isinstance(nxt, ast.If) and src(nxt.test) == "tag == LITERAL_NONE":
                    return out   # after_tag consumed the rest of the block
                continue
            if isinstance(s, ast.If) and src(s.test).replace(" ", "") in ("(tag:=read_tag(data))!=LITERAL_NONE",):
                t2 = ast.parse("tag != LITERAL_NONE", mode="eval").body
                s2 = ast.If(test=t2, body=s.body, orelse=s.orelse)
                out += self.after_tag(s2, [], env)
                continue
            if isinstance(s, ast.Assert):
                t = self.assert_read_tag(s)
                if t is not None:
                    out.append(("Tag", t))
                    continue
                te = self.tag_eq(s.test)
                if te is not None and env.get("tag") == "some":
                    env["tag"] = "asserted"
                    out.append(("Tag", te))
                    continue
                if uses_data(s):
                    raise Unsupported(f"assert {src(s)[:60]}")
                continue
            if isinstance(s, ast.Assign) and len(s.targets) == 1 and isinstance(s.targets[0], ast.Name) \
                    and call_name(s.value) == "read_int_bare":
                if env.get("count"):
                    raise Unsupported("two pending counts")
                env["count"] = s.targets[0].id
                continue
            if isinstance(s, (ast.Assign, ast.AnnAssign, ast.Return, ast.Expr)):
                v = s.value
                if isinstance(s, ast.Assign) and any(uses_data(t) for t in s.targets):
                    raise Unsupported("buffer in assignment target")
                # x.append(C.read(data)) etc.
                ops = self.rexpr(v, env) if v is not None else []
                tgt = s.targets[0] if isinstance(s, ast.Assign) and len(s.targets) == 1 else s.target if isinstance(s, ast.AnnAssign) else None
                if isinstance(tgt, ast.Attribute):
                    self.name_ops(ops, tgt.attr)
                elif isinstance(tgt, ast.Name):
                    self.name_ops(ops, "local:" + tgt.id)
                elif isinstance(tgt, ast.Tuple):
                    fl = [o for o in self.values(ops) if o[0] == "Flags"]
                    if len(fl) == 1 and len(self.values(ops)) == 1:
                        if len(tgt.elts) != fl[0][1]:
                            raise Unsupported(f"read_flags(num_flags={fl[0][1]}) unpacked into {len(tgt.elts)} targets")
                        self.rflags[self.uid(fl[0])] = [t.attr if isinstance(t, ast.Attribute) else "local:" + src(t) for t in tgt.elts]  # type: ignore[index]
                elif isinstance(s, ast.Expr) and isinstance(v, ast.Call) and isinstance(v.func, ast.Attribute) and v.func.attr in ("append", "add") \
                        and isinstance(v.func.value, (ast.Attribute, ast.Name)):
                    self.name_ops(ops, v.func.value.attr if isinstance(v.func.value, ast.Attribute) else "local:" + v.func.value.id)
                out += ops
                if isinstance(s, ast.Return) and i != len(stmts):
                    raise Unsupported("early return")
                continue
            if isinstance(s, ast.For):
                if s.orelse:
                    raise Unsupported("for/else")
                cnt = self.range_count(s.iter, env)
                out += cnt + [self.wrap("Rep", self.merge(self.rstmts(s.body, env)))]
                continue
            if isinstance(s, ast.If) and not uses_data(s):
                continue
            if isinstance(s, ast.If) and not any(uses_data(x) for x in s.body + s.orelse):
                out += self.rexpr(s.test, env)   # only the condition reads
                continue
            if isinstance(s, ast.Delete) and not uses_data(s):
                continue
            if isinstance(s, ast.Try) and len(s.handlers) == 1 and not s.orelse and not s.finalbody \
                    and all(isinstance(h, ast.Return) and src(h) == "return None" for h in s.handlers[0].body):
                out += self.rstmts(s.body, env)
                continue
            if isinstance(s, (ast.ImportFrom, ast.Import)):
                continue
            raise Unsupported(f"reader statement {type(s).__name__}: {src(s)[:60]}")
        if env.get("count"):
            raise Unsupported("count read but never iterated")
        return out

    def after_tag(self, nxt: ast.stmt, rest: list[ast.stmt], env: dict[str, Any]) -> list[Any]:
        """the statement following `tag = read_tag(data)`"""
        if isinstance(nxt, ast.If):
            t = src(nxt.test)
            if t == "tag != LITERAL_NONE":
                if nxt.orelse and any(uses_data(x) for x in nxt.orelse):
                    raise Unsupported("else branch of optional touches the buffer")
                env2 = dict(env)
                env2["tag"] = "some"
                body = self.merge(self.rstmts(nxt.body, env2))
                if env2.get("tag") == "some":
                    raise Unsupported("optional body never checks the tag it read")
                return [self.wrap("Opt", body)]
            if t == "tag == LITERAL_NONE":
                if [src(x) for x in nxt.body] != ["return None"] or nxt.orelse:
                    raise Unsupported("None branch shape")
                env2 = dict(env)
                env2["tag"] = "some"
                body = self.merge(self.rstmts(rest, env2))
                if env2.get("tag") == "some":
                    raise Unsupported("optional body never checks the tag it read")
                return [self.wrap("Opt", body)]
            if t == "tag == LITERAL_COMPLEX" and len(nxt.orelse) == 1 and isinstance(nxt.orelse[0], ast.If) \
                    and src(nxt.orelse[0].test) == "tag != LITERAL_NONE" and not nxt.orelse[0].orelse:
                # Var.final_value: the full inverse of write_literal (None, complex and read_literal)
                c_ops = self.rstmts(nxt.body, dict(env))
                env2 = dict(env)
                env2["tag"] = "literal"
                l_ops = self.rstmts(nxt.orelse[0].body, env2)
                if [o[0] for o in c_ops] != ["FloatBare", "FloatBare"] or [o[:2] for o in l_ops] != [("Ext", EXT["literal"])]:
                    raise Unsupported("literal-with-complex pattern")
                ext = self.V("Ext", EXT["literal"], "")
                tg = [a.targets[0].attr for a in ast.walk(nxt) if isinstance(a, ast.Assign) and isinstance(a.targets[0], ast.Attribute)]
                if tg and all(x == tg[0] for x in tg):
                    self.rn[self.uid(ext)] = tg[0]   # type: ignore[index]
                return [ext]
            if t == "tag == LITERAL_TRUE" and len(nxt.orelse) == 1 and isinstance(nxt.orelse[0], ast.If) \
                    and src(nxt.orelse[0].test) == "tag == LITERAL_FALSE" \
                    and [src(x) for x in nxt.orelse[0].orelse] == ["assert tag == LITERAL_NONE"] \
                    and not any(uses_data(x) for x in nxt.body + nxt.orelse[0].body):
                # optional bool stored as one of the tags LITERAL_TRUE / LITERAL_FALSE / LITERAL_NONE
                return [self.V("Opt", [("Bool", "")], "")]
            # if/elif chain on the tag: inline dispatch table
            tbl: list[tuple[str, str]] = []
            cur: ast.stmt | None = nxt
            while isinstance(cur, ast.If):
                te = self.tag_eq(cur.test)
                reads = [self.cls_read(x) for x in ast.walk(cur.body[0]) if self.cls_read(x)] if len(cur.body) == 1 else []
                if te is None or len(reads) != 1:
                    raise Unsupported(f"conditional on tag: {t[:50]}")
                tbl.append((te, reads[0]))  # type: ignore[arg-type]
                if len(cur.orelse) == 1:
                    cur = cur.orelse[0]
                else:
                    raise Unsupported("tag chain without final assert False")
            if not (isinstance(cur, ast.Assert) and src(cur.test) == "False"):
                raise Unsupported("tag chain without final assert False")
            for tg, c in tbl:
                self.sites.setdefault(c, set()).add(tg)
            return [self.V("Nested", tbl)]
        if isinstance(nxt, ast.Assign):
            env2 = dict(env)
            env2["tag"] = "literal"
            ops = self.rexpr(nxt.value, env2)
            if [o[:2] for o in ops] == [("Ext", EXT["literal"])]:
                if len(nxt.targets) == 1 and isinstance(nxt.targets[0], (ast.Name, ast.Attribute)):
                    t0 = nxt.targets[0]
                    self.name_ops(ops, t0.attr if isinstance(t0, ast.Attribute) else "local:" + t0.id)
                return ops
        raise Unsupported(f"statement after tag read: {src(nxt)[:60]}")

    def merge(self, ops: list[Any]) -> list[Any]:
        """(Tag T, ObjRead C) -> Nested [(T, C)]; a bare ObjRead is allowed for self-tag-reading classes"""
        out: list[Any] = []
        for o in ops:
            if o[0] == "ObjRead":
                c = o[1]
                if out and out[-1][0] == "Tag":
                    t = out.pop()[1]
                    self.sites.setdefault(c, set()).add(t)
                    out.append(("Nested", [(t, c)], o[-1]))
                else:
                    t = self.self_read_tag(c)
                    if t is None:
                        raise Unsupported(f"{c}.read(data) without a preceding tag check")
                    out.append(("Nested", [(t, c)], o[-1]))
            else:
                out.append(o)
        return out

    def scan_sites(self) -> None:
        """every `C.read(data)` in the three files, with the tag check that guards it"""
        def block(stmts: list[ast.stmt], ctx: str | None) -> None:
            prev: ast.stmt | None = None
            for s in stmts:
                if isinstance(s, ast.If):
                    te = None
                    try:
                        te = self.tag_eq(s.test)
                    except Unsupported:
                        pass
                    block(s.body, te or ctx if te else None)
                    block(s.orelse, None)
                elif isinstance(s, (ast.For, ast.While, ast.With, ast.Try)):
                    for fld in ("body", "orelse", "finalbody"):
                        block(getattr(s, fld, []) or [], None)
                else:
                    reads = [self.cls_read(x) for x in ast.walk(s) if self.cls_read(x)]
                    if len(reads) == 1:
                        t = ctx
                        if isinstance(prev, ast.Assert):
                            try:
                                t = self.assert_read_tag(prev) or self.tag_eq(prev.test) or ctx
                            except Unsupported:
                                pass
                        if t is not None:
                            self.sites.setdefault(reads[0], set()).add(t)  # type: ignore[arg-type]
                prev = s
        for f in list(self.funcs.values()) + list(self.methods.values()):
            block(f.body, None)

    # ------------------------------------------------------------ field names (reader side)
    def V(self, *t: Any) -> tuple:
        """a value-producing reader op with a fresh identity (so that the context can name it)"""
        self._uid += 1
        return t + (("#", self._uid),)

    @staticmethod
    def uid(o: Any) -> int | None:
        x = o[-1]
        return x[1] if isinstance(x, tuple) and len(x) == 2 and x[0] == "#" else None

    def fresh(self, o: Any) -> Any:
        return self.V(*o[:-1]) if self.uid(o) is not None else o

    def values(self, ops: list[Any]) -> list[Any]:
        return [o for o in ops if o[0] not in ("Tag", "Inl") and self.uid(o) is not None]

    def wrap(self, kind: str, body: list[Any]) -> Any:
        """Opt / Rep around a body: inherits the name of the body's only value"""
        w = self.V(kind, body, "")
        vals = self.values(body)
        if len(vals) == 1 and self.uid(vals[0]) in self.rn:
            self.rn[self.uid(w)] = self.rn[self.uid(vals[0])]   # type: ignore[index]
        return w

    def name_ops(self, ops: list[Any], name: str) -> None:
        vals = [o for o in self.values(ops) if self.uid(o) not in self.rn]
        if len(vals) == 1:
            self.rn[self.uid(vals[0])] = name   # type: ignore[index]

    def callee_params(self, f: ast.AST) -> list[str] | None:
        """parameter names of C(...) (its __init__) or C.method(...) for classes of the three files"""
        cls = meth = None
        if isinstance(f, ast.Name) and f.id in self.classes:
            cls, meth = f.id, "__init__"
        elif isinstance(f, ast.Attribute):
            if f.attr in self.classes and src(f.value) in ("mypy.types", "mypy.nodes", "mypy.cache"):
                cls, meth = f.attr, "__init__"
            else:
                v = f.value
                nm = v.attr if isinstance(v, ast.Attribute) else v.id if isinstance(v, ast.Name) else None
                if nm in self.classes and f.attr != "read":
                    cls, meth = nm, f.attr
        if cls is None:
            return None
        c: str | None = cls
        while c is not None:
            m = self.methods.get((c, meth))   # type: ignore[arg-type]
            if m is not None:
                a = m.args
                static = any(src(d) == "staticmethod" for d in m.decorator_list)
                return [x.arg for x in a.posonlyargs + a.args][0 if static else 1:] + [x.arg for x in a.kwonlyargs]
            bases = [b.id for b in self.classes[c].bases if isinstance(b, ast.Name) and b.id in self.classes]
            c = bases[0] if bases else None
        return None

    def resolve_locals(self, fn: ast.FunctionDef) -> None:
        """a value read into a local is named after the constructor parameter / attribute the local flows into"""
        uses: dict[str, tuple[tuple[int, int], str]] = {}

        def note(var: str, pos: tuple[int, int], name: str) -> None:
            if var not in uses or pos < uses[var][0]:
                uses[var] = (pos, name)
        for n in ast.walk(fn):
            if isinstance(n, ast.Call):
                ps = self.callee_params(n.func)
                if ps is not None:
                    for i, a in enumerate(n.args):
                        if isinstance(a, ast.Name) and i < len(ps):
                            note(a.id, (n.lineno, n.col_offset), ps[i])
                    for k in n.keywords:
                        if isinstance(k.value, ast.Name) and k.arg:
                            note(k.value.id, (n.lineno, n.col_offset), k.arg)
            if isinstance(n, ast.Assign) and len(n.targets) == 1 and isinstance(n.targets[0], ast.Attribute):
                for x in ast.walk(n.value):
                    if isinstance(x, ast.Name) and not any(isinstance(c, ast.Call) and self.callee_params(c.func) for c in ast.walk(n.value)):
                        note(x.id, (n.lineno + 10000, n.col_offset), n.targets[0].attr)
        for u, nm in list(self.rn.items()):
            if nm.startswith("local:"):
                self.rn[u] = uses[nm[6:]][1] if nm[6:] in uses else "?"
        for u, fl in list(self.rflags.items()):
            self.rflags[u] = [(uses[x[6:]][1] if x[6:] in uses else "?") if x.startswith("local:") else x for x in fl]

    def reader_names(self, ops: list[Any]) -> list[str]:
        out = []
        for o in self.values(ops):
            u = self.uid(o)
            if o[0] == "Flags" and u in self.rflags:
                out.append("flags:" + ",".join(norm_name(x) for x in self.rflags[u]))
            else:
                out.append(norm_name(self.rn.get(u, "?")))   # type: ignore[arg-type]
        return out

    # ------------------------------------------------------------ field names (writer side)
    def wname(self, e: ast.AST | str) -> str:
        if isinstance(e, str):
            try:
                e = ast.parse(e, mode="eval").body
            except SyntaxError:
                return "?"
        best: tuple[tuple[int, int], str] | None = None
        called = {id(c.func) for c in ast.walk(e) if isinstance(c, ast.Call)}
        inner = {id(a.value) for a in ast.walk(e) if isinstance(a, ast.Attribute)}
        for a in ast.walk(e):
            if isinstance(a, ast.Attribute) and id(a) not in inner:
                parts = []
                x: ast.AST = a
                while isinstance(x, ast.Attribute):
                    parts.append(x.attr)
                    x = x.value
                if isinstance(x, ast.Name) and x.id == "self":
                    parts.reverse()
                    if id(a) in called:
                        parts = parts[:-1]
                    pos = (a.lineno, a.col_offset)
                    if parts and (best is None or pos < best[0]):
                        best = (pos, ".".join(parts))
        return norm_name(best[1]) if best else "?"

    def writer_names(self, ops: list[Any]) -> list[str]:
        """one name per top-level value op of a class writer"""
        out: list[str] = []
        pending: str | None = None
        for o in ops:
            k = o[0]
            if k == "Inl":
                pending = self.wname(o[2])
            elif k == "Tag":
                continue
            else:
                if pending is not None:
                    out.append(pending)
                    pending = None
                elif k == "Flags":
                    out.append("flags:" + ",".join(self.wname(x) for x in o[2]))
                elif k in ("Opt", "Rep"):
                    out.append(self.wname(o[2]))
                elif k == "Dyn":
                    out.append(self.wname(o[1]))
                elif k == "Ext":
                    out.append(self.wname(o[2]))
                else:
                    out.append(self.wname(o[1]))
        return out

    # ------------------------------------------------------------ classes
    def class_schema(self, cls: str) -> tuple[list[Any], list[Any]]:
        w = self.wstmts(self.methods[(cls, "write")].body)
        rm = self.methods[(cls, "read")]
        r = self.merge(self.rstmts(rm.body, {}))
        self.resolve_locals(rm)
        rn = [CLASS_ALIASES.get((cls, x), x) for x in self.reader_names(r)]
        self.names[cls] = (self.writer_names(w), rn)
        return w, r


# ---------------------------------------------------------------- rendering

def strip(ops: list[Any]) -> list[Any]:
    """drop documentation-only parts (field names, inline markers)"""
    out = []
    for o in ops:
        k = o[0]
        if k == "Inl":
            continue
        if k in ("Opt", "Rep"):
            out.append((k, strip(o[1])))
        elif k == "Flags":
            out.append((k, o[1]))
        elif k == "Ext":
            out.append((k, o[1]))
        elif k == "Nested":
            out.append((k, tuple(t for t, _ in o[1])))
        elif k == "Tag":
            out.append((k, o[1]))
        else:
            out.append((k,))
    return out


def coq_ops(ops: list[Any]) -> str:
    parts = []
    for o in ops:
        k = o[0]
        if k == "Tag":
            parts.append(f"Tag {o[1]}")
        elif k in ("Opt", "Rep"):
            parts.append(f"{k} ({coq_ops(o[1])})")
        elif k == "Flags":
            parts.append(f"Flags {o[1]}%nat")
        elif k == "Ext":
            parts.append(f"Ext {o[1]}")
        elif k == "Nested":
            parts.append("Nested [" + "; ".join(o[1]) + "]")
        else:
            parts.append(k)
    return "seq_of [" + "; ".join(parts) + "]"


def extract() -> dict[str, Any]:
    ex = Extractor()
    res: dict[str, Any] = {"tags": ex.tags, "schemas": {}, "searched_only": {}, "checks": []}
    # helper pairs
    names = sorted(n[6:] for n in ex.funcs if n.startswith("write_") and "read_" + n[6:] in ex.funcs)
    for nm in names:
        if nm in NO_INLINE:
            res["searched_only"]["helper " + nm] = "hand-modelled / external codec (bit packing, recursive JSON, literal union)"
            continue
        try:
            w = ex.helper_writer(nm)
            r = ex.helper_reader(nm)
            res["schemas"]["helper_" + nm] = (w, r)
        except Unsupported as e:
            res["searched_only"]["helper " + nm] = str(e)
    # classes
    for cls in sorted(ex.classes):
        if (cls, "write") not in ex.methods or (cls, "read") not in ex.methods:
            continue
        wsrc = src(ex.methods[(cls, "write")])
        if "NotImplementedError" in wsrc:
            continue
        try:
            w, r = ex.class_schema(cls)
        except Unsupported as e:
            res["searched_only"][cls] = str(e)
            continue
        res["schemas"][cls] = (w, r)
    # make sure every dispatcher is analysed so that tag sites are complete
    for nm in sorted(ex.funcs):
        if ex.is_dispatcher(nm):
            try:
                ex.dispatch_table(nm)
            except Unsupported as e:
                res["checks"].append(f"dispatcher {nm}: {e}")
    ex.scan_sites()
    # tag-site consistency: every site that reads class C after tag T must agree with the tag C.write emits first
    for cls, tags in sorted(ex.sites.items()):
        ft = ex.first_written_tag(cls)
        for t in sorted(tags):
            if ft is None or ex.tags[t] != ex.tags[ft]:
                res["checks"].append(f"class {cls} is read after tag {t} but its writer starts with {ft}")
    # a class reader that does not read its own tag gets the tag its read sites check
    final: dict[str, Any] = {}
    for name, (w, r) in res["schemas"].items():
        if name in ex.classes:
            st = ex.self_read_tag(name)
            ft = ex.first_written_tag(name)
            if st is None:
                if ft is not None and w and w[0] == ("Tag", ft):
                    if name not in ex.sites:
                        res["checks"].append(f"class {name}: no read site found that checks its tag {ft}")
                    r = [("Tag", ft)] + r
        final[name] = (w, r)
    res["schemas"] = final
    res["dup_tags"] = ex.dup_tags
    res["tables"] = ex.tables
    # class tags must be pairwise distinct (they identify the class on the wire) and differ from LITERAL_NONE
    seen: dict[int, str] = {}
    for cls in sorted(ex.classes):
        if (cls, "write") in ex.methods and "NotImplementedError" not in src(ex.methods[(cls, "write")]):
            ft = ex.first_written_tag(cls)
            if ft is None:
                continue
            v = ex.tags[ft]
            if v in seen:
                res["checks"].append(f"classes {seen[v]} and {cls} share tag value {v}")
            seen[v] = cls
            if v == ex.tags["LITERAL_NONE"]:
                res["checks"].append(f"class {cls} uses LITERAL_NONE as its tag")
    res["class_tags"] = {c: t for t, c in seen.items()}
    res["json_keys"] = json_keys(ex)
    res["names"] = {c: nm for c, nm in ex.names.items() if c in res["schemas"]}
    res["format_fields"] = format_fields(ex, res["names"])
    res["set_fields"] = set_fields(ex)
    res["fixup_assigns"] = fixup_assigns()
    res["ref_slots"] = fixup_ref_slots(ex, res)
    res["json_field_map"] = json_field_map(ex, res["names"])
    res["json_schemas"] = {c: js for c in sorted(res["names"]) if (js := derived_json_schema(res, c)) is not None}
    res["json_op_shapes"] = json_op_shapes(ex, res)
    res["class_names"] = sorted(ex.classes)
    return res


def json_keys(ex: Extractor) -> dict[str, Any]:
    """serialize()/deserialize() key sets per class (JSON format)"""
    out: dict[str, Any] = {}
    for cls in sorted(ex.classes):
        s = ex.methods.get((cls, "serialize"))
        d = ex.methods.get((cls, "deserialize"))
        if s is None or d is None or "NotImplementedError" in src(s):
            continue
        wk: set[str] = set()
        for n in ast.walk(s):
            if isinstance(n, ast.Dict):
                for k in n.keys:
                    if isinstance(k, ast.Constant) and isinstance(k.value, str):
                        wk.add(k.value)
            if isinstance(n, ast.Subscript) and isinstance(n.ctx, ast.Store) and isinstance(n.slice, ast.Constant) \
                    and isinstance(n.slice.value, str) and isinstance(n.value, ast.Name):
                wk.add(n.slice.value)
        rk: set[str] = set()
        for n in ast.walk(d):
            if isinstance(n, ast.Subscript) and isinstance(n.ctx, ast.Load) and isinstance(n.slice, ast.Constant) \
                    and isinstance(n.slice.value, str):
                rk.add(n.slice.value)
            if isinstance(n, ast.Call) and isinstance(n.func, ast.Attribute) and n.func.attr == "get" and n.args \
                    and isinstance(n.args[0], ast.Constant) and isinstance(n.args[0].value, str):
                rk.add(n.args[0].value)
            if isinstance(n, ast.Compare) and isinstance(n.left, ast.Constant) and isinstance(n.left.value, str) \
                    and any(isinstance(o, (ast.In, ast.NotIn)) for o in n.ops):
                rk.add(n.left.value)
        out[cls] = {"written": sorted(wk), "read": sorted(rk),
                    "written_not_read": sorted(wk - rk - {".class"}), "read_not_written": sorted(rk - wk)}
    return out


# attributes one format stores and the other does not, accepted with a reason (everything else must agree)
FORMAT_EXCEPTIONS = {
    # VAR_FLAGS (JSON) lists is_self / is_cls, the binary flag list of Var.write does not: both are only ever set on
    # the Var of a function's first argument, which lives in the function's local scope and is never serialized
    "Var": ["is_cls", "is_self"],
}


def flag_consts() -> dict[str, list[str]]:
    consts: dict[str, list[str]] = {}

    def ev(n: ast.AST) -> list[str]:
        if isinstance(n, ast.List):
            return [e.value for e in n.elts]   # type: ignore[attr-defined]
        if isinstance(n, ast.BinOp) and isinstance(n.op, ast.Add):
            return ev(n.left) + ev(n.right)
        if isinstance(n, ast.Name):
            return consts[n.id]
        raise Unsupported("flag list expression")
    for rel in FILES:
        for n in ast.walk(ast.parse(vlib.read_repo(rel))):
            if isinstance(n, (ast.Assign, ast.AnnAssign)):
                t = n.targets[0] if isinstance(n, ast.Assign) else n.target
                if isinstance(t, ast.Name) and t.id.endswith("FLAGS") and n.value is not None:
                    try:
                        consts[t.id] = ev(n.value)
                    except (Unsupported, KeyError, AttributeError):
                        pass
    return consts


def self_chains(fn: ast.AST) -> set[str]:
    out: set[str] = set()
    inner = {id(a.value) for a in ast.walk(fn) if isinstance(a, ast.Attribute)}
    called = {id(c.func) for c in ast.walk(fn) if isinstance(c, ast.Call)}
    for a in ast.walk(fn):
        if isinstance(a, ast.Attribute) and id(a) not in inner:
            parts = []
            x: ast.AST = a
            while isinstance(x, ast.Attribute):
                parts.append(x.attr)
                x = x.value
            if isinstance(x, ast.Name) and x.id == "self":
                parts.reverse()
                if id(a) in called:
                    parts = parts[:-1]
                if parts:
                    out.add(norm_name(".".join(parts)))
    # `assert not self.id.is_meta_var()` mentions self.id although only self.id.raw_id / .namespace are stored
    return {c for c in out if not any(o.startswith(c + ".") for o in out)}


def format_fields(ex: Extractor, names: dict[str, Any]) -> dict[str, tuple[list[str], list[str]]]:
    """per class: attributes stored by serialize() (JSON) and by write() (binary)"""
    consts = flag_consts()
    out: dict[str, tuple[list[str], list[str]]] = {}
    for cls, (wn, _) in sorted(names.items()):
        sfn = ex.methods.get((cls, "serialize"))
        if sfn is None:
            continue
        js = self_chains(sfn)
        for c in ast.walk(sfn):
            if isinstance(c, ast.Call) and src(c.func) == "get_flags" and len(c.args) == 2:
                a = c.args[1]
                nm = a.attr if isinstance(a, ast.Attribute) else a.id if isinstance(a, ast.Name) else None
                if nm not in consts:
                    raise Unsupported(f"{cls}.serialize: unknown flag list {src(a)}")
                js |= set(consts[nm])
        bn: set[str] = set()
        for x in wn:
            bn |= set(x[6:].split(",")) if x.startswith("flags:") else {x}
        bn.discard("")
        out[cls] = (sorted(js), sorted(bn))
    return out


def json_field_map(ex: Extractor, names: dict[str, Any]) -> dict[str, list[tuple[str, str, str]]]:
    """per class: (JSON key, attribute serialize() takes it from, attribute/parameter deserialize() stores it into)"""
    out: dict[str, list[tuple[str, str, str]]] = {}
    for cls in sorted(names):
        sfn, dfn = ex.methods.get((cls, "serialize")), ex.methods.get((cls, "deserialize"))
        if sfn is None or dfn is None:
            continue
        wmap: dict[str, str] = {}
        for n in ast.walk(sfn):
            if isinstance(n, ast.Dict):
                for k, v in zip(n.keys, n.values):
                    if isinstance(k, ast.Constant) and isinstance(k.value, str) and k.value != ".class":
                        if isinstance(v, ast.Call) and src(v.func) == "get_flags":
                            wmap[k.value] = "flags"
                        else:
                            wmap[k.value] = ex.wname(v)
            if isinstance(n, ast.Assign) and isinstance(n.targets[0], ast.Subscript) and isinstance(n.targets[0].slice, ast.Constant) \
                    and isinstance(n.targets[0].slice.value, str) and isinstance(n.targets[0].value, ast.Name):
                wmap[n.targets[0].slice.value] = ex.wname(n.value)
        parent: dict[int, ast.AST] = {}
        for x in ast.walk(dfn):
            for c in ast.iter_child_nodes(x):
                parent[id(c)] = x
        rmap: dict[str, str] = {}
        for n in ast.walk(dfn):
            if isinstance(n, ast.Subscript) and isinstance(n.ctx, ast.Load) and isinstance(n.slice, ast.Constant) \
                    and isinstance(n.slice.value, str) and isinstance(n.value, ast.Name) and n.slice.value != ".class":
                key, cur, name = n.slice.value, n, "?"
                while id(cur) in parent:
                    p_ = parent[id(cur)]
                    if isinstance(p_, ast.keyword) and p_.arg:
                        gp = parent.get(id(p_))
                        if isinstance(gp, ast.Call) and ex.callee_params(gp.func) is not None:
                            name = p_.arg
                            break
                    if isinstance(p_, ast.Call):
                        if src(p_.func) == "set_flags":
                            name = "flags"
                            break
                        ps = ex.callee_params(p_.func)
                        if ps is not None and cur in p_.args and p_.args.index(cur) < len(ps):
                            name = ps[p_.args.index(cur)]
                            break
                    if isinstance(p_, (ast.Assign, ast.AnnAssign)):
                        t = p_.targets[0] if isinstance(p_, ast.Assign) else p_.target
                        if isinstance(t, ast.Attribute):
                            name = t.attr
                        elif isinstance(t, ast.Name):
                            name = "local:" + t.id
                        break
                    if isinstance(p_, ast.stmt):
                        break
                    cur = p_
                if key not in rmap or rmap[key] == "?":
                    rmap[key] = name
        # locals flow into constructor parameters / attributes
        uses: dict[str, str] = {}
        for n in ast.walk(dfn):
            if isinstance(n, ast.Call):
                ps = ex.callee_params(n.func)
                if ps is not None:
                    for i, a in enumerate(n.args):
                        if isinstance(a, ast.Name) and i < len(ps):
                            uses.setdefault(a.id, ps[i])
                    for kw in n.keywords:
                        if isinstance(kw.value, ast.Name) and kw.arg:
                            uses.setdefault(kw.value.id, kw.arg)
            if isinstance(n, ast.Assign) and isinstance(n.targets[0], ast.Attribute) and isinstance(n.value, ast.Name):
                uses.setdefault(n.value.id, n.targets[0].attr)
        rows = []
        for key in sorted(set(wmap) | set(rmap)):
            r_ = rmap.get(key, "<never read>")
            if r_.startswith("local:"):
                r_ = uses.get(r_[6:], "?")
            r_ = CLASS_ALIASES.get((cls, norm_name(r_)), norm_name(r_))
            rows.append((key, wmap.get(key, "<never written>"), r_))
        out[cls] = rows
    return out


def derived_json_schema(res: dict[str, Any], cls: str) -> list[tuple[str, str]] | None:
    """JSON schema (key, jop) of a class in the field order of the binary schema: the op of each field is the JSON
    image of the field's binary op; the key is the one serialize() stores that attribute under"""
    if cls not in res["json_field_map"] or cls not in res["names"]:
        return None
    w, _ = res["schemas"][cls]
    wn, _ = res["names"][cls]
    key_of = {}
    for key, wf, _rf in res["json_field_map"][cls]:
        key_of.setdefault(wf, key)
    groups: list[list[Any]] = []
    cur: list[Any] = []
    sw = strip(w)
    if sw and sw[0][0] == "Tag" and len(sw) > 1 and sw[-1] == ("Tag", "END_TAG"):
        sw = sw[1:]     # the class tag
    for o in sw:
        cur.append(o)
        if o[0] != "Tag":
            groups.append(cur)
            cur = []
    if len(groups) != len(wn):
        return None

    def jop(g: list[Any]) -> str:
        kinds = [(o[0], o[1] if len(o) > 1 else None) for o in g]
        last = g[-1]
        tags = [o[1] for o in g[:-1]]
        if last[0] == "IntBare" and tags == ["LITERAL_INT"]:
            return "JI"
        if last[0] == "StrBare" and tags == ["LITERAL_STR"]:
            return "JS"
        if last[0] == "Bool" and not tags:
            return "JB"
        if last[0] == "Flags":
            return "FLAGS"
        if last[0] == "Opt" and not tags:
            inner = jop(list(last[1]))
            return f"JOpt ({inner})" if inner != "FLAGS" else "JNested"
        if last[0] == "Rep":
            body = list(last[1])
            if len(body) == 1 and body[0][0] in ("StrBare", "IntBare") and tags in (["LIST_STR"], ["LIST_INT"]):
                return "JList " + ("JS" if body[0][0] == "StrBare" else "JI")
            if len(body) == 1 and body[0][0] == "Dyn" and tags == ["LIST_GEN"]:
                return "JList JNested"
            if [b[0] for b in body] == ["StrBare", "Dyn"] and tags == ["DICT_STR_GEN"]:
                return "JPairs JNested"
        return "JNested"
    out = []
    for g, name in zip(groups, wn):
        if name.startswith("flags:"):
            out.append(("flags", "JFlagsNames [" + "; ".join(zs(x) for x in name[6:].split(",")) + "]"))
            continue
        if name not in key_of:
            return None
        j = jop(g)
        out.append((key_of[name], j if j != "FLAGS" else "JNested"))
    if len({k for k, _ in out}) != len(out):
        return None     # two binary fields share one JSON key (TypeInfo.abstract_attributes): not a keyed schema
    return out


def json_value_shape(v: ast.AST) -> str:
    """shape of the expression serialize() stores under a key (fail closed: anything unrecognised is 'unknown')"""
    def is_ser(c: ast.AST) -> bool:
        return isinstance(c, ast.Call) and isinstance(c.func, ast.Attribute) and c.func.attr == "serialize" and not c.args
    if isinstance(v, ast.Call) and src(v.func) == "get_flags":
        return "flags"
    if is_ser(v):
        return "nested"
    if isinstance(v, ast.IfExp):
        a, b = v.body, v.orelse
        none_a = isinstance(a, ast.Constant) and a.value is None
        none_b = isinstance(b, ast.Constant) and b.value is None
        if (none_a and is_ser(b)) or (none_b and is_ser(a)):
            return "opt-nested"
        return "unknown"
    if isinstance(v, ast.ListComp) and len(v.generators) == 1 and not v.generators[0].ifs:
        e = v.elt
        if is_ser(e):
            return "list-nested"
        if isinstance(e, ast.List) and len(e.elts) == 2 and isinstance(e.elts[0], ast.Name) and is_ser(e.elts[1]):
            return "pairs-nested"
        if isinstance(e, ast.Call) and src(e.func) == "int":
            return "list-plain"
        if isinstance(e, ast.Name):
            return "list-plain"
        return "unknown"
    if isinstance(v, ast.DictComp) and is_ser(v.value):
        return "object-nested"
    if isinstance(v, ast.Call) and src(v.func) in ("sorted", "list") and len(v.args) == 1 and not any(isinstance(x, ast.Call) for x in ast.walk(v.args[0])):
        return "list-plain"
    if isinstance(v, (ast.Attribute, ast.Name)) or (isinstance(v, ast.Call) and src(v.func) == "int"):
        return "plain"
    return "unknown"


def json_op_shapes(ex: Extractor, res: dict[str, Any]) -> dict[str, list[tuple[str, str, str]]]:
    """per class with a derived JSON schema: (key, kind of the derived op, shape extracted from serialize())"""
    out: dict[str, list[tuple[str, str, str]]] = {}
    for cls, js in sorted(res["json_schemas"].items()):
        sfn = ex.methods.get((cls, "serialize"))
        shapes: dict[str, str] = {}
        if sfn is not None:
            for n in ast.walk(sfn):
                if isinstance(n, ast.Dict):
                    for k, v in zip(n.keys, n.values):
                        if isinstance(k, ast.Constant) and isinstance(k.value, str):
                            shapes[k.value] = json_value_shape(v)
                if isinstance(n, ast.Assign) and isinstance(n.targets[0], ast.Subscript) and isinstance(n.targets[0].slice, ast.Constant) \
                        and isinstance(n.targets[0].slice.value, str):
                    shapes[n.targets[0].slice.value] = json_value_shape(n.value)
        rows = []
        for key, op_ in js:
            kind = op_.split(" [")[0].replace("(", "").replace(")", "")
            rows.append((key, kind, shapes.get(key, "unknown")))
        out[cls] = rows
    return out


SHAPE_OK = {
    "JI": {"plain"}, "JS": {"plain"}, "JB": {"plain"}, "JOpt JS": {"plain"}, "JOpt JI": {"plain"},
    "JList JS": {"plain", "list-plain"}, "JList JI": {"plain", "list-plain"},
    "JNested": {"nested"}, "JOpt JNested": {"opt-nested"}, "JList JNested": {"list-nested"},
    "JPairs JNested": {"pairs-nested"}, "JFlagsNames": {"flags"},
}


def zs(x: str) -> str:
    return "[" + "; ".join(str(ord(c)) for c in x) + "]"


# what the attribute-wise walk of the structural round trip (tools/harness/C11.py, walk_flags/type_detail) compares for
# every attribute or rebuilding call of mypy/fixup.py; a fixup responsibility that is not listed here breaks
# the table theorem fixup_assigns_covered
WALK_COVERAGE = {
    "alias_tvars": "special_alias / TypeAlias record: alias_tvars",
    "tvar_tuple_index": "special_alias / TypeAlias record: tvar_tuple_index",
    "mro": "TypeInfo record: mro (fullnames)",
    "_mro_refs": "TypeInfo record: mro_refs_pending (must be None)",
    "append:_promote": "TypeInfo record: promote",
    "call:update_tuple_type": "TypeInfo record: tuple_type (+partial_fallback, type_detail) and special_alias",
    "call:update_typeddict_type": "TypeInfo record: typeddict_type (+fallback, type_detail) and special_alias",
    "cross_ref": "symbol record: cross_ref after node access, class and fullname of the resolved node",
    "unfixed": "symbol record: bool attributes of SymbolTableNode",
    "_node": "symbol record: class / fullname of sym.node",
    "stored_info": "node record: info (fullname of the enclosing TypeInfo of lazily read nodes)",
    "definition": "node record: definition / links (fullname of CallableType.definition)",
    "type_ref": "tstr / type_detail: UNRESOLVED marker when a type_ref is still pending",
    "type": "str(type) prints Instance.type.fullname; bases, mro",
    "alias": "type_detail: alias->fullname of TypeAliasType.alias",
    "special_alias": "TypeInfo record: special_alias (lookup_fully_qualified_alias builds it on demand)",
    "bases": "TypeInfo record: bases (missing_info placeholder: daemon / allow_missing only)",
    "fullname": "node record: _fullname (missing_info placeholder)",
}
MUTATORS = {"append", "extend", "insert", "add", "update", "pop", "remove", "clear", "setdefault", "discard", "sort", "reverse"}


def fixup_assigns() -> list[str]:
    """every attribute mypy/fixup.py assigns (or rebuilds through a mutating call) on nodes and types; fail-closed"""
    tree = ast.parse(vlib.read_repo("mypy/fixup.py"))
    out: set[str] = set()
    for n in ast.walk(tree):
        targets: list[ast.AST] = []
        if isinstance(n, ast.Assign):
            targets = list(n.targets)
        elif isinstance(n, (ast.AugAssign, ast.AnnAssign)):
            targets = [n.target]
        elif isinstance(n, ast.Delete):
            raise Unsupported(f"fixup.py: del statement {src(n)[:60]}")
        for t in targets:
            for x in (t.elts if isinstance(t, ast.Tuple) else [t]):
                if isinstance(x, ast.Attribute):
                    if not (isinstance(x.value, ast.Name) and x.value.id == "self"):
                        out.add(x.attr)
                elif isinstance(x, ast.Subscript):
                    raise Unsupported(f"fixup.py: item assignment {src(x)[:60]}")
        if isinstance(n, ast.Call):
            f = n.func
            if isinstance(f, ast.Name) and f.id in ("setattr", "delattr"):
                raise Unsupported(f"fixup.py: {src(n)[:60]}")
            if isinstance(f, ast.Attribute):
                if f.attr in MUTATORS and isinstance(f.value, ast.Attribute):
                    out.add(f"{f.attr}:{f.value.attr}")
                elif f.attr in MUTATORS and isinstance(f.value, ast.Name) and f.value.id not in ("self",):
                    raise Unsupported(f"fixup.py: mutation of a local container {src(n)[:60]}")
                elif f.attr.startswith(("update_", "set_", "reset_", "add_")):
                    out.add("call:" + f.attr)
    return sorted(out)


# reference-carrying slots that the fixup visitor of the class legitimately does not touch, with the reason
REF_SLOT_EXCEPTIONS = {
    ("AnyType", "source_any"): "an AnyType contains no TypeInfo/alias reference (TypeFixer.visit_any: nothing to descend into)",
    ("ExtraAttrs", "attrs"): "ExtraAttrs has no accept(); TypeFixer.visit_instance descends into inst.extra_attrs.attrs itself (checked: Instance row)",
    ("FuncDef", "dataclass_transform_spec"): "DataclassTransformSpec holds only bools and strings",
    ("TypeInfo", "dataclass_transform_spec"): "DataclassTransformSpec holds only bools and strings",
    ("MypyFile", "names"): "build.State.fix_cross_refs calls node_fixer.visit_symbol_table(self.tree.names) (checked in build.py)",
}
# classes whose schema is hand-modelled (Types.v): their reference slots, by reading write()/read()
HAND_REF_SLOTS = {
    "Instance": ["args", "last_known_value", "extra_attrs", "type"],
    "SymbolTableNode": ["node", "cross_ref"],
    # references stored BY NAME (strings in the schema): the fixer must resolve them
    "TypeAliasType": ["alias"],
    "TypeInfo": ["mro"],
}


def has_dyn(o: Any) -> bool:
    if o[0] in ("Dyn", "Nested"):
        return True
    return o[0] in ("Opt", "Rep") and any(has_dyn(x) for x in o[1])


def fixup_ref_slots(ex: Extractor, res: dict[str, Any]) -> list[tuple[str, list[str], list[str], list[str]]]:
    """(class, reference-carrying slots from the schema, attributes its fixup visitor method touches, exceptions)"""
    # class -> visitor method, from `def accept(self, visitor): return visitor.visit_x(self)`
    accept: dict[str, str] = {}
    for cls in ex.classes:
        m = ex.methods.get((cls, "accept"))
        if m is not None:
            for c in ast.walk(m):
                if isinstance(c, ast.Call) and isinstance(c.func, ast.Attribute) and c.func.attr.startswith("visit_") \
                        and isinstance(c.func.value, ast.Name) and c.func.value.id == "visitor":
                    accept[cls] = c.func.attr
    accept.setdefault("TypeInfo", "visit_type_info")          # NodeFixer.visit_type_info is called directly
    accept["SymbolTableNode"] = "visit_symbol_table"
    visited: dict[str, set[str]] = {}
    ftree = ast.parse(vlib.read_repo("mypy/fixup.py"))
    for c in ftree.body:
        if isinstance(c, ast.ClassDef) and c.name in ("NodeFixer", "TypeFixer"):
            for m in c.body:
                if isinstance(m, ast.FunctionDef) and m.name.startswith("visit_") and len(m.args.args) >= 2:
                    roots = {m.args.args[1].arg}
                    if m.name == "visit_symbol_table":
                        roots = {"value"}
                    got = visited.setdefault(m.name, set())
                    for a in ast.walk(m):
                        if isinstance(a, ast.Attribute) and isinstance(a.value, ast.Name) and a.value.id in roots:
                            got.add(norm_name(a.attr))
    if "node_fixer.visit_symbol_table(self.tree.names)" not in vlib.read_repo("mypy/build.py"):
        raise Unsupported("build.py no longer calls node_fixer.visit_symbol_table(self.tree.names)")
    rows = []
    slots_of: dict[str, list[str]] = {k: list(v) for k, v in HAND_REF_SLOTS.items()}
    for cls, (wn, _) in sorted(res["names"].items()):
        w, _r = res["schemas"][cls]
        vals = [o for o in strip(w) if o[0] != "Tag"]
        if len(vals) != len(wn):
            raise Unsupported(f"{cls}: cannot align field names with schema ops")
        slots_of[cls] = slots_of.get(cls, []) + [n for n, o in zip(wn, vals) if has_dyn(o) and not n.startswith("flags:")]
    for cls in sorted(slots_of):
        slots = sorted(set(slots_of[cls]))
        if not slots:
            continue
        vis = sorted(visited.get(accept.get(cls, ""), set()))
        exc = sorted(s_ for (c_, s_) in REF_SLOT_EXCEPTIONS if c_ == cls)
        rows.append((cls, slots, vis, exc))
    return rows


def set_fields(ex: Extractor) -> list[tuple[str, str, bool, bool]]:
    """(class, field, sorted in write(), sorted in serialize()) for every attribute declared as a set that the
    class serializes: hash-order independence requires every such use to go through sorted(...)"""
    out = []
    for cls, cd in sorted(ex.classes.items()):
        w, sfn = ex.methods.get((cls, "write")), ex.methods.get((cls, "serialize"))
        if w is None and sfn is None:
            continue
        names: set[str] = set()
        for n in ast.walk(cd):
            if isinstance(n, ast.AnnAssign) and "set[" in src(n.annotation):
                t = n.target
                if isinstance(t, ast.Name):
                    names.add(t.id)
                elif isinstance(t, ast.Attribute) and src(t.value) == "self":
                    names.add(t.attr)
        init = ex.methods.get((cls, "__init__"))
        if init is not None:
            for a in init.args.args + init.args.kwonlyargs:
                if a.annotation is not None and "set[" in src(a.annotation):
                    names.add(a.arg)

        def uses(fn: ast.FunctionDef | None, name: str) -> str:
            if fn is None:
                return "absent"
            parent: dict[int, ast.AST] = {}
            for x in ast.walk(fn):
                for c in ast.iter_child_nodes(x):
                    parent[id(c)] = x
            st = "absent"
            for x in ast.walk(fn):
                if isinstance(x, ast.Attribute) and x.attr == name and src(x.value) == "self" and isinstance(x.ctx, ast.Load):
                    p_ = parent.get(id(x))
                    if isinstance(p_, ast.Compare) and all(isinstance(c, ast.Constant) and c.value is None for c in p_.comparators):
                        continue
                    if isinstance(p_, ast.Call) and src(p_.func) == "sorted" and p_.args and p_.args[0] is x:
                        st = "sorted" if st != "unsorted" else st
                    else:
                        st = "unsorted"
            return st
        for nm in sorted(names):
            a, b = uses(w, nm), uses(sfn, nm)
            if a == "absent" and b == "absent":
                continue
            out.append((cls, nm, a != "unsorted", b != "unsorted"))
    return out


HEADER = """(* GENERATED from mypy/cache.py, mypy/nodes.py, mypy/types.py by tools/extractors/t11.py
   -- do not edit; regenerated on every run *)
From Coq Require Import ZArith List String Bool.
From C11 Require Import Prim Schema JsonText JsonSchema.
Import ListNotations.
Open Scope Z_scope.
"""


def render(res: dict[str, Any]) -> str:
    out = [HEADER]
    for k, v in sorted(res["tags"].items(), key=lambda kv: (kv[1], kv[0])):
        out.append(f"Definition {k} := {v}.")
    out.append("")
    for tn, tbl in sorted(res["tables"].items()):
        out.append(f"Definition tbl_{tn} : list Z := [" + "; ".join(t for t, _ in tbl) + "].")
    out.append("")
    names = []
    objs = []
    for name, (w, r) in sorted(res["schemas"].items()):
        out.append(f"(* {name} *)")
        sw, sr = strip(w), strip(r)
        if sw and sr and sw[0][0] == "Tag" and sr[0] == sw[0] and name in res.get("class_names", []):
            # an object class: tag, then body (the body is what C.read consumes after tag dispatch)
            out.append(f"Definition wb_{name} : op := {coq_ops(sw[1:])}.")
            out.append(f"Definition rb_{name} : op := {coq_ops(sr[1:])}.")
            out.append(f"Definition w_{name} : op := Seq (Tag {sw[0][1]}) wb_{name}.")
            out.append(f"Definition r_{name} : op := Seq (Tag {sw[0][1]}) rb_{name}.")
            objs.append((sw[0][1], name))
        else:
            out.append(f"Definition w_{name} : op := {coq_ops(sw)}.")
            out.append(f"Definition r_{name} : op := {coq_ops(sr)}.")
        names.append(name)
    out.append("")
    out.append("Definition schemas : list (string * (op * op)) := [")
    out.append(";\n".join(f'  ("{n}"%string, (w_{n}, r_{n}))' for n in names))
    out.append("].")
    out.append("")
    out.append("(* object classes by tag: (tag, (writer body, reader body)) *)")
    out.append("Definition obj_schemas : list (Z * (op * op)) := [")
    out.append(";\n".join(f"  ({t}, (wb_{n}, rb_{n}))" for t, n in objs))
    out.append("].")
    out.append("")
    def sl(xs: list[str]) -> str:
        return "[" + "; ".join(f'"{x}"' for x in xs) + "]%string"
    out.append("(* field names in writer order and in reader order (attribute / constructor parameter each value is")
    out.append("   taken from / stored into) *)")
    out.append("Definition names : list (string * (list string * list string)) := [")
    out.append(";\n".join(f'  ("{c}"%string, ({sl(wn)}, {sl(rn)}))' for c, (wn, rn) in sorted(res["names"].items())))
    out.append("].")
    out.append("")
    out.append("(* attributes stored by serialize() (JSON) and by write() (binary), and the accepted differences *)")
    out.append("Definition format_fields : list (string * (list string * list string * list string)) := [")
    out.append(";\n".join(f'  ("{c}"%string, ({sl(js)}, {sl(bn)}, {sl(FORMAT_EXCEPTIONS.get(c, []))}))'
                          for c, (js, bn) in sorted(res["format_fields"].items())))
    out.append("].")
    out.append("")
    out.append("(* every attribute mypy/fixup.py assigns or rebuilds, and what the structural walk covers *)")
    out.append("Definition fixup_assigns : list string := " + sl(res["fixup_assigns"]) + ".")
    out.append("Definition walk_coverage : list string := " + sl(sorted(WALK_COVERAGE)) + ".")
    out.append("")
    out.append("(* per class: slots that hold nested types / nodes (may contain TypeInfo or alias references), the attributes the")
    out.append("   class's NodeFixer / TypeFixer visitor method touches, and the accepted exceptions *)")
    out.append("Definition ref_slots : list (string * (list string * list string * list string)) := [")
    out.append(";\n".join(f'  ("{c}"%string, ({sl(a)}, {sl(b)}, {sl(e)}))' for c, a, b, e in res["ref_slots"]))
    out.append("].")
    out.append("")
    out.append("(* attributes declared as sets that are serialized: (class, field, sorted in write(), sorted in serialize()) *)")
    out.append("Definition set_fields : list (string * string * (bool * bool)) := [")
    out.append(";\n".join(f'  ("{c}"%string, "{f}"%string, ({str(a).lower()}, {str(b).lower()}))' for c, f, a, b in res["set_fields"]))
    out.append("].")
    out.append("")
    out.append("(* JSON schema per class, in the field order of the binary schema: (key serialize() stores the field under, JSON op) *)")
    for c, js in sorted(res["json_schemas"].items()):
        out.append(f"Definition js_{c} : list (list Z * jop) := [" + "; ".join(f"({zs(k)}, {o})" for k, o in js) + "].")
    out.append("Definition json_schemas : list (string * (op * op * list (list Z * jop))) := [")
    out.append(";\n".join(f'  ("{c}"%string, (w_{c}, r_{c}, js_{c}))' for c in sorted(res["json_schemas"])))
    out.append("].")
    out.append("")
    tagged = [(c, strip(res["schemas"][c][0])[0][1]) for c in sorted(res["json_schemas"])
              if strip(res["schemas"][c][0]) and strip(res["schemas"][c][0])[0][0] == "Tag" and c in res.get("class_names", [])
              and strip(res["schemas"][c][0])[-1] == ("Tag", "END_TAG")]
    out.append("(* per class and key: kind of the JSON op derived from the binary op, and the shape extracted from the expression")
    out.append("   serialize() stores under that key *)")
    out.append("Definition json_op_shapes : list (string * list (string * (string * string))) := [")
    out.append(";\n".join(f'  ("{c}"%string, [' + "; ".join(f'("{k}"%string, ("{d}"%string, "{e}"%string))' for k, d, e in rows) + "])"
                          for c, rows in sorted(res["json_op_shapes"].items())))
    out.append("].")
    conf = [c for c, rows in sorted(res["json_op_shapes"].items()) if all(e in SHAPE_OK.get(d, set()) for _, d, e in rows)]
    out.append("Definition json_ops_confirmed : list string := " + sl(conf) + ".")
    out.append("Definition json_ops_derived_only : list string := " + sl([c for c in sorted(res["json_op_shapes"]) if c not in conf]) + ".")
    out.append("")
    out.append("(* object classes with a keyed JSON schema: (binary class tag, (value of the \".class\" key, schema)) *)")
    out.append("Definition json_classes : list (Z * (list Z * list (list Z * jop))) := [")
    out.append(";\n".join(f"  ({t}, ({zs(c)}, js_{c}))" for c, t in tagged))
    out.append("].")
    out.append("")
    out.append("(* JSON keys written by serialize() and read by deserialize() *)")
    out.append("Definition json_keys : list (string * (list string * list string)) := [")
    out.append(";\n".join(f'  ("{c}"%string, ({sl([x for x in k["written"] if x != ".class"])}, {sl([x for x in k["read"] if x != ".class"])}))'
                          for c, k in sorted(res["json_keys"].items())))
    out.append("].")
    out.append("")
    out.append("(* classes/helpers whose write/read pair is outside the translated subset: searched only *)")
    for k, v in sorted(res["searched_only"].items()):
        out.append(f"(* searched only: {k}: {v.replace('*)', '* )')} *)")
    return "\n".join(out) + "\n"


def generate() -> dict[str, str]:
    res = extract()
    txt = render(res)
    vlib.write_if_changed(os.path.join(vlib.GEN, "Schemas.v"), txt)
    return {"Schemas.v": txt}


if __name__ == "__main__":
    r = extract()
    for c, (wn, rn) in sorted(r["names"].items()):
        bad = [(i, a, b) for i, (a, b) in enumerate(zip(wn, rn)) if a != b and "?" not in (a, b)]
        print("NAMES", c, "len", len(wn), len(rn), "unresolved w/r", wn.count("?"), rn.count("?"), "MISMATCH" if bad or len(wn) != len(rn) else "", bad, file=sys.stderr)
    print(render(r))
    print("CHECKS", r["checks"])
    print("DUP", r["dup_tags"])
    for c, k in r["json_keys"].items():
        if k["written_not_read"] or k["read_not_written"]:
            print("JSON", c, k["written_not_read"], k["read_not_written"])
