"""T07: which commit protocol do the per-module loops of the parallel worker follow?  (fail-closed)

Reads /repo/mypy/build.py (process_stale_scc_interface, process_stale_scc_implementation) and
/repo/mypy/build_worker/worker.py (serve) with `ast` only and regenerates coq/gen/C07Protocol.v:

  pm_iface : every `for` loop of process_stale_scc_interface that writes to the store (write_cache /
             write_cache_meta / write_cache_meta_ex call in its body) also calls manager.commit_module(...) in its
             body after the last write
  pm_impl  : same for process_stale_scc_implementation, AND worker.serve calls it once per module
             (inside a `for`, with a one-element list `[id]`)
Structural facts the model assumes are checked and make T FAIL when they no longer hold: every store write of the two
functions is inside such a loop; serve calls manager.commit() inside the per-SCC interface loop after
process_stale_scc_interface, and after the implementation loop, each before the corresponding reply (timed_send).
"""
from __future__ import annotations
import ast
import os
import sys
sys.path.insert(0, os.path.dirname(os.path.dirname(os.path.abspath(__file__))))
import vlib

WRITES = {"write_cache", "write_cache_meta", "write_cache_meta_ex"}


class T07Error(Exception):
    pass


def call_name(n: ast.AST) -> str | None:
    if isinstance(n, ast.Call):
        f = n.func
        if isinstance(f, ast.Name):
            return f.id
        if isinstance(f, ast.Attribute):
            return f.attr
    return None


def calls_in(nodes: list[ast.stmt]) -> list[tuple[int, str, ast.Call]]:
    out = []
    for st in nodes:
        for n in ast.walk(st):
            nm = call_name(n)
            if nm:
                out.append((n.lineno, nm, n))  # type: ignore[arg-type]
    return sorted(out, key=lambda x: x[0])


def func(mod: ast.Module, name: str) -> ast.FunctionDef:
    for n in mod.body:
        if isinstance(n, ast.FunctionDef) and n.name == name:
            return n
    raise T07Error(f"function {name} not found")


def loop_protocol(fn: ast.FunctionDef) -> bool:
    """True iff every store-writing `for` loop commits the module at the end of its body."""
    loops = [n for n in ast.walk(fn) if isinstance(n, ast.For)]
    write_lines_in_loops: set[int] = set()
    verdicts = []
    for lp in loops:
        cs = calls_in(lp.body)
        ws = [ln for ln, nm, _ in cs if nm in WRITES]
        if not ws:
            continue
        write_lines_in_loops.update(ws)
        commits = [ln for ln, nm, c in cs if nm == "commit_module"
                   and isinstance(c.func, ast.Attribute) and isinstance(c.func.value, ast.Name) and c.func.value.id == "manager"]
        # every write of the body must be followed (lexically, inside the same loop body) by a commit_module
        verdicts.append(bool(commits) and max(commits) > max(ws))
    all_writes = [ln for ln, nm, _ in calls_in(fn.body) if nm in WRITES]
    if not all_writes:
        raise T07Error(f"{fn.name}: no store write found (write_cache / write_cache_meta / write_cache_meta_ex)")
    if set(all_writes) - write_lines_in_loops:
        raise T07Error(f"{fn.name}: store write outside a per-module loop (lines {sorted(set(all_writes) - write_lines_in_loops)})")
    return all(verdicts)


def serve_shape(serve: ast.FunctionDef) -> bool:
    """Checks the batch-level structure; returns whether the implementation phase runs module by module."""
    cs = calls_in(serve.body)
    names = [nm for _, nm, _ in cs]
    for need in ("process_stale_scc_interface", "process_stale_scc_implementation", "commit", "timed_send"):
        if need not in names:
            raise T07Error(f"worker.serve: call of {need} not found")
    # interface: for scc in sccs: process_stale_scc_interface(...); manager.commit()
    ok_iface = False
    per_module_impl = False
    ok_impl_commit = False
    for lp in [n for n in ast.walk(serve) if isinstance(n, ast.For)]:
        body = calls_in(lp.body)
        bn = [nm for _, nm, _ in body]
        if "process_stale_scc_interface" in bn:
            i = bn.index("process_stale_scc_interface")
            ok_iface = "commit" in bn[i + 1:]
        if "process_stale_scc_implementation" in bn:
            c = next(c for _, nm, c in body if nm == "process_stale_scc_implementation")
            per_module_impl = len(c.args) >= 2 and isinstance(c.args[1], ast.List) and len(c.args[1].elts) == 1
    if not ok_iface:
        raise T07Error("worker.serve: manager.commit() no longer follows process_stale_scc_interface inside the per-SCC loop")
    # implementation: commit after the loop and before the last timed_send
    impl_line = max(ln for ln, nm, _ in cs if nm == "process_stale_scc_implementation")
    commits_after = [ln for ln, nm, c in cs if nm == "commit" and ln > impl_line]
    sends_after = [ln for ln, nm, _ in cs if nm == "timed_send" and ln > impl_line]
    ok_impl_commit = bool(commits_after) and bool(sends_after) and min(commits_after) < max(sends_after)
    if not ok_impl_commit:
        raise T07Error("worker.serve: manager.commit() no longer between the implementation loop and the reply")
    # interface reply must come after the interface loop's commit
    iface_line = max(ln for ln, nm, _ in cs if nm == "process_stale_scc_interface")
    if not any(nm == "timed_send" and iface_line < ln < impl_line for ln, nm, _ in cs):
        raise T07Error("worker.serve: interface reply not found between the two phases")
    return per_module_impl


def method(mod: ast.Module, cls: str, name: str) -> ast.FunctionDef:
    for n in mod.body:
        if isinstance(n, ast.ClassDef) and n.name == cls:
            for m in n.body:
                if isinstance(m, ast.FunctionDef) and m.name == name:
                    return m
    raise T07Error(f"method {cls}.{name} not found")


def failure_handling(b: ast.Module) -> dict[str, bool]:
    """How the coordinator handles a failing worker: does wait_for_done_workers re-raise a blocker reply before using the
    reply's results, and does receive_worker_message turn a lost connection into an OSError?"""
    wd = method(b, "BuildManager", "wait_for_done_workers")
    raises = [n for n in ast.walk(wd) if isinstance(n, ast.Raise) and n.exc is not None and ast.unparse(n.exc) == "data.blocker"]
    uses = [n.lineno for n in ast.walk(wd) if isinstance(n, ast.Call) and ast.unparse(n.func) == "results.update"]
    if not uses:
        raise T07Error("wait_for_done_workers: results.update(...) not found")
    abort_on_blocker = bool(raises) and min(r.lineno for r in raises) < min(uses)
    rm = method(b, "BuildManager", "receive_worker_message")
    handlers = [h for n in ast.walk(rm) if isinstance(n, ast.Try) for h in n.handlers]
    abort_on_lost = any(h.type is not None and "OSError" in ast.unparse(h.type)
                        and any(isinstance(x, ast.Raise) for x in ast.walk(h)) for h in handlers)
    return {"abort_on_blocker": abort_on_blocker, "abort_on_lost_worker": abort_on_lost}


def extract() -> dict[str, bool]:
    b = ast.parse(vlib.read_repo("mypy/build.py"))
    w = ast.parse(vlib.read_repo("mypy/build_worker/worker.py"))
    pm_iface = loop_protocol(func(b, "process_stale_scc_interface"))
    pm_impl_loop = loop_protocol(func(b, "process_stale_scc_implementation"))
    per_module = serve_shape(func(w, "serve"))
    out = {"pm_iface": pm_iface, "pm_impl": pm_impl_loop and per_module,
           "impl_loop_commits": pm_impl_loop, "serve_impl_per_module": per_module}
    out.update(failure_handling(b))
    return out


def render(flags: dict[str, bool]) -> str:
    b = lambda x: "true" if x else "false"
    return ("(* GENERATED from mypy/build.py and mypy/build_worker/worker.py by tools/extractors/t07.py -- do not edit;\n"
            "   regenerated on every run.  Commit protocol of the per-module loops of the parallel worker. *)\n"
            f"Definition pm_iface : bool := {b(flags['pm_iface'])}.\n"
            f"Definition pm_impl : bool := {b(flags['pm_impl'])}.\n"
            "(* coordinator: a blocker reply is re-raised before its results are used; a lost worker connection raises *)\n"
            f"Definition abort_on_blocker : bool := {b(flags['abort_on_blocker'])}.\n"
            f"Definition abort_on_lost_worker : bool := {b(flags['abort_on_lost_worker'])}.\n")


def generate() -> dict[str, str]:
    files = {"C07Protocol.v": render(extract())}
    for k, v in files.items():
        vlib.write_if_changed(os.path.join(vlib.GEN, k), v)
    return files


if __name__ == "__main__":
    print(extract())
    for k, v in generate().items():
        print(f"(* ==== {k} ==== *)\n{v}")
