"""T4: regenerate coq/gen/Frame.v and coq/gen/ServeShape.v from /repo (fail-closed, ast only).

Frame.v      HEADER_SIZE, frame_from_buffer (state-passing translation of the method), encode_frame
             (the framing expression of write_bytes); the POSIX loop of read_bytes, `read`, and
             dmypy_util.receive are compared with the templates the hand model (C16/Model.v,
             C16/Serve.v) was written from.
ServeShape.v the try/except structure of Server.serve / run_command / IPCServer.__enter__ as boolean
             flags (`current_shape`): which exceptions raised by receive() are caught by a handler
             that keeps serving, whether the reassembly buffer is reset per connection, whether
             request arguments are validated, whether the reply send is guarded.  Everything else in
             those functions must equal the template (else Unsupported -> broken T).
"""
from __future__ import annotations

import ast
import copy
import os
import sys

sys.path.insert(0, os.path.dirname(os.path.dirname(os.path.abspath(__file__))))
import vlib
from py2gallina import Translator, Unsupported, fail, coq_Z

HEADER = """(* GENERATED from {src} by tools/extractors/t16.py -- do not edit; regenerated on every run *)
From Coq Require Import ZArith List Bool.
From C16 Require Import Bytes.
Import ListNotations.
Open Scope Z_scope.
"""


def dump(n: ast.AST | list[ast.stmt]) -> str:
    if isinstance(n, list):
        return "\n".join(ast.dump(x) for x in n)
    return ast.dump(n)


def strip_doc(body: list[ast.stmt]) -> list[ast.stmt]:
    return [s for s in body if not (isinstance(s, ast.Expr) and isinstance(s.value, ast.Constant)
                                    and isinstance(s.value.value, str))]


def find_class(tree: ast.Module, name: str) -> ast.ClassDef:
    for n in tree.body:
        if isinstance(n, ast.ClassDef) and n.name == name:
            return n
    raise Unsupported(f"class {name} not found")


def find_method(cls: ast.ClassDef, name: str) -> ast.FunctionDef:
    for n in cls.body:
        if isinstance(n, ast.FunctionDef) and n.name == name:
            return n
    raise Unsupported(f"method {cls.name}.{name} not found")


def is_self_attr(e: ast.AST, attr: str | None = None) -> bool:
    return (isinstance(e, ast.Attribute) and isinstance(e.value, ast.Name) and e.value.id == "self"
            and (attr is None or e.attr == attr))


def posix_branch(stmts: list[ast.stmt], what: str) -> list[ast.stmt]:
    """The statements executed when sys.platform != 'win32' (one `if sys.platform == "win32": A else: B`)."""
    out: list[ast.stmt] = []
    for s in stmts:
        if (isinstance(s, ast.If) and isinstance(s.test, ast.Compare) and len(s.test.ops) == 1
                and isinstance(s.test.ops[0], ast.Eq) and ast.unparse(s.test.left) == "sys.platform"
                and isinstance(s.test.comparators[0], ast.Constant) and s.test.comparators[0].value == "win32"):
            out += s.orelse
        else:
            out.append(s)
    return out


# ---------------------------------------------------------------------------------------- framing

class MethodTr(Translator):
    """State-passing translation of a method that reads and assigns self.<attr>.

    attrs: attribute -> tag ('bytes' or 'opt:Z').  The emitted function takes the attributes as
    parameters and returns `Ret <returned value> <attrs...>` or `StructError` (struct.unpack on a
    byte string of the wrong length)."""

    def method(self, cls: str, name: str, attrs: dict[str, str]) -> str:
        f = find_method(find_class(self.tree, cls), name)
        a = f.args
        if a.vararg or a.kwarg or a.kwonlyargs or a.posonlyargs or a.defaults or [x.arg for x in a.args] != ["self"]:
            raise fail(f, "unsupported parameter list")
        self.attrs = attrs
        self.fresh = 0
        cur = {k: (k, t) for k, t in attrs.items()}
        body = self.mblock(strip_doc(f.body), {}, cur)
        binders = " ".join(f"({k} : {'bytes' if t == 'bytes' else 'option Z'})" for k, t in attrs.items())
        return f"Definition {name} {binders} : ffb_result :=\n{body}."

    def new(self, base: str) -> str:
        self.fresh += 1
        return f"{base}{self.fresh}"

    def state_value(self, cur: dict[str, tuple[str, str]], k: str) -> str:
        e, t = cur[k]
        if self.attrs[k] == "opt:Z" and t == "Z":
            return f"(Some {e})"
        return e

    def ret(self, val: str, cur: dict[str, tuple[str, str]]) -> str:
        return "(Ret " + val + " " + " ".join(self.state_value(cur, k) for k in self.attrs) + ")"

    def mblock(self, stmts: list[ast.stmt], env: dict[str, str], cur: dict[str, tuple[str, str]]) -> str:
        if not stmts:
            raise Unsupported("method may fall off its end")
        s, rest = stmts[0], stmts[1:]
        self.cur = cur
        if isinstance(s, ast.Return):
            if s.value is None or (isinstance(s.value, ast.Constant) and s.value.value is None):
                return self.ret("None", cur)
            e, t = self.expr(s.value, env)
            if t != "bytes":
                raise fail(s, f"return of type {t}")
            return self.ret(f"(Some {e})", cur)
        if isinstance(s, ast.If) and not s.orelse:
            # idiom:  if self.a is None: self.a = E
            t = s.test
            if (isinstance(t, ast.Compare) and len(t.ops) == 1 and isinstance(t.ops[0], ast.Is)
                    and is_self_attr(t.left) and isinstance(t.comparators[0], ast.Constant)
                    and t.comparators[0].value is None):
                a = t.left.attr  # type: ignore[attr-defined]
                if (self.attrs.get(a) != "opt:Z" or cur[a][1] != "opt:Z" or len(s.body) != 1
                        or not isinstance(s.body[0], ast.Assign) or len(s.body[0].targets) != 1
                        or not is_self_attr(s.body[0].targets[0], a)):
                    raise fail(s, "unsupported `is None` conditional")
                e, et = self.expr(s.body[0].value, env)
                v = self.new(a)
                cur2 = dict(cur)
                cur2[a] = (v, "Z")
                k = self.mblock(rest, env, cur2)
                if et == "res:Z":
                    init = f"match {e} with Some v => k_{v} v | None => StructError end"
                elif et == "Z":
                    init = f"k_{v} {e}"
                else:
                    raise fail(s, f"assignment of {et} to {a}")
                return (f"(let k_{v} := (fun {v} : Z =>\n {k}) in\n match {cur[a][0]} with Some v => k_{v} v "
                        f"| None => {init} end)")
            # if C: <block that returns>
            c, ct = self.expr(s.test, env)
            if ct != "bool":
                raise fail(s.test, f"condition of type {ct}")
            if not isinstance(s.body[-1], ast.Return):
                raise fail(s, "conditional block must end in return")
            th = self.mblock(s.body, dict(env), dict(cur))
            el = self.mblock(rest, env, cur)
            return f"(if {c} then {th}\n else {el})"
        if isinstance(s, ast.Assign) and len(s.targets) == 1:
            tg = s.targets[0]
            if isinstance(tg, ast.Name):
                e, t = self.expr(s.value, env)
                if t not in ("Z", "bytes"):
                    raise fail(s, f"local of type {t}")
                env2 = dict(env)
                env2[tg.id] = t
                return f"(let {tg.id} := {e} in\n {self.mblock(rest, env2, cur)})"
            if is_self_attr(tg) and tg.attr in self.attrs:  # type: ignore[attr-defined]
                a = tg.attr  # type: ignore[attr-defined]
                cur2 = dict(cur)
                if isinstance(s.value, ast.Constant) and s.value.value is None and self.attrs[a] == "opt:Z":
                    cur2[a] = ("None", "opt:Z")
                    return self.mblock(rest, env, cur2)
                e, t = self.expr(s.value, env)
                want = "bytes" if self.attrs[a] == "bytes" else "Z"
                if t != want:
                    raise fail(s, f"assignment of {t} to self.{a}")
                v = self.new(a)
                cur2[a] = (v, t)
                return f"(let {v} := {e} in\n {self.mblock(rest, env, cur2)})"
        raise fail(s, "unsupported statement")

    def expr(self, e: ast.expr, env: dict[str, str]) -> tuple[str, str]:
        if is_self_attr(e) and e.attr in self.attrs:  # type: ignore[attr-defined]
            return self.cur[e.attr]  # type: ignore[attr-defined]
        if isinstance(e, ast.Call) and isinstance(e.func, ast.Name) and not e.keywords and len(e.args) == 1:
            if e.func.id == "len":
                x, t = self.expr(e.args[0], env)
                if t != "bytes":
                    raise fail(e, f"len of {t}")
                return f"(py_len {x})", "Z"
            if e.func.id in ("memoryview", "bytes", "bytearray"):
                # value-preserving views/copies: the viewed bytearray is never mutated in place in the
                # translated method (self.buffer is re-bound, not modified) -- checked: no method calls on attrs
                x, t = self.expr(e.args[0], env)
                if t != "bytes":
                    raise fail(e, f"{e.func.id} of {t}")
                return x, "bytes"
        if isinstance(e, ast.Subscript):
            # struct.unpack("!L", X)[0]
            v = e.value
            if (isinstance(v, ast.Call) and ast.unparse(v.func) == "struct.unpack" and len(v.args) == 2
                    and not v.keywords and isinstance(e.slice, ast.Constant) and e.slice.value == 0):
                if not (isinstance(v.args[0], ast.Constant) and v.args[0].value == "!L"):
                    raise fail(e, "struct format other than !L")
                x, t = self.expr(v.args[1], env)
                if t != "bytes":
                    raise fail(e, "unpack of non-bytes")
                return f"(unpack_be4 {x})", "res:Z"
            if isinstance(e.slice, ast.Slice):
                x, t = self.expr(v, env)
                if t != "bytes" or e.slice.step is not None:
                    raise fail(e, "unsupported slice")
                b = []
                for part in (e.slice.lower, e.slice.upper):
                    if part is None:
                        b.append("None")
                    else:
                        p, pt = self.expr(part, env)
                        if pt != "Z":
                            raise fail(e, f"slice bound of type {pt}")
                        b.append(f"(Some {p})")
                return f"(py_slice {x} {b[0]} {b[1]})", "bytes"
        if isinstance(e, ast.Call):
            raise fail(e, "unsupported call")
        return super().expr(e, env)


READ_BYTES_POSIX = '''
while True:
    bdata = self.frame_from_buffer()
    if bdata is not None:
        break
    more = self.connection.recv(size)
    if not more:
        break
    self.buffer.extend(more)
if not bdata:
    return b""
return bdata
'''
READ = 'return self.read_bytes(size).decode("utf-8")'
WRITE = 'self.write_bytes(data.encode("utf-8"))'
INIT = '''
self.name = name
self.timeout = timeout
self.message_size: int | None = None
self.buffer = bytearray()
'''
UTIL_RECEIVE = '''
bdata = connection.read()
if not bdata:
    raise OSError("No data received")
try:
    data = json.loads(bdata)
except Exception as e:
    raise OSError("Data received is not valid JSON") from e
if not isinstance(data, dict):
    raise OSError(f"Data received is not a dict ({type(data)})")
return data
'''
UTIL_SEND = 'connection.write(json.dumps(data))'
WRITE_TO_CONN = '''
resp: dict[str, Any] = {self.output_key: output}
send(self.server, resp)
return len(output)
'''
# repaired form (notes/C16-fix-3.diff): output for a client that has gone is dropped
WRITE_TO_CONN_GUARDED = '''
resp: dict[str, Any] = {self.output_key: output}
try:
    send(self.server, resp)
except OSError:
    pass
return len(output)
'''
# the exchange in mypy/dmypy/client.py request(): one frame out, frames in until "final"
CLIENT_REQUEST_TRY = '''
try:
    with IPCClient(name, timeout) as client:
        send(client, args)

        final = False
        while not final:
            response = receive(client)
            final = bool(response.pop("final", False))
            stdout = response.pop("stdout", None)
            if stdout:
                sys.stdout.write(stdout)
            stderr = response.pop("stderr", None)
            if stderr:
                sys.stderr.write(stderr)
except (OSError, IPCException) as err:
    return {"error": str(err)}
'''


def same(stmts: list[ast.stmt], template: str, what: str) -> None:
    if dump(strip_doc(stmts)) != dump(ast.parse(template).body):
        raise Unsupported(f"{what} differs from the template the hand model was written from:\n"
                          + "\n".join(ast.unparse(s) for s in strip_doc(stmts))[:1500])


def write_to_conn_guarded(util: ast.Module) -> bool:
    body = dump(strip_doc(find_method(find_class(util, "WriteToConn"), "write").body))
    if body == dump(ast.parse(WRITE_TO_CONN).body):
        return False
    if body == dump(ast.parse(WRITE_TO_CONN_GUARDED).body):
        return True
    raise Unsupported("dmypy_util.WriteToConn.write differs from both known forms")


def gen_frame() -> str:
    src = vlib.read_repo("mypy/ipc.py")
    tr = MethodTr(src)
    out = [HEADER.format(src="mypy/ipc.py")]
    out.append(tr.const_defs(["HEADER_SIZE"]))
    out.append(tr.method("IPCBase", "frame_from_buffer", {"buffer": "bytes", "message_size": "opt:Z"}))
    base = find_class(tr.tree, "IPCBase")
    # attribute discipline: in IPCBase, buffer / message_size are touched only by __init__, frame_from_buffer
    # and `self.buffer.extend(more)` in read_bytes
    for m in base.body:
        if isinstance(m, ast.FunctionDef) and m.name not in ("__init__", "frame_from_buffer", "read_bytes"):
            for n in ast.walk(m):
                if is_self_attr(n) and n.attr in ("buffer", "message_size"):  # type: ignore[attr-defined]
                    raise Unsupported(f"IPCBase.{m.name} touches self.{n.attr}")  # type: ignore[attr-defined]
    same(find_method(base, "__init__").body, INIT, "IPCBase.__init__")
    # write_bytes: encoded_data = struct.pack("!L", len(data)) + data ; sendall(encoded_data)
    wb = posix_branch(strip_doc(find_method(base, "write_bytes").body), "write_bytes")
    same(wb, 'encoded_data = struct.pack("!L", len(data)) + data\nself.connection.sendall(encoded_data)', "IPCBase.write_bytes (POSIX)")
    out.append("(* write_bytes: encoded_data = struct.pack(\"!L\", len(data)) + data; sendall(encoded_data) *)\n"
               "Definition encode_frame (data : bytes) : bytes := (pack_be32 (py_len data)) ++ data.")
    rb = find_method(base, "read_bytes")
    if [a.arg for a in rb.args.args] != ["self", "size"]:
        raise Unsupported("read_bytes signature changed")
    same(posix_branch(strip_doc(rb.body), "read_bytes"), READ_BYTES_POSIX, "IPCBase.read_bytes (POSIX)")
    same(find_method(base, "read").body, READ, "IPCBase.read")
    same(find_method(base, "write").body, WRITE, "IPCBase.write")
    if "MAX_READ" not in tr.consts or tr.consts["MAX_READ"][1] != "Z":
        raise Unsupported("MAX_READ not an int constant")
    out.append(tr.const_defs(["MAX_READ"]))
    util = ast.parse(vlib.read_repo("mypy/dmypy_util.py"))
    fns = {n.name: n for n in util.body if isinstance(n, ast.FunctionDef)}
    if "receive" not in fns or "send" not in fns:
        raise Unsupported("dmypy_util.receive/send not found")
    same(fns["receive"].body, UTIL_RECEIVE, "dmypy_util.receive")
    same(fns["send"].body, UTIL_SEND, "dmypy_util.send")
    write_to_conn_guarded(util)   # one of the two known forms, else Unsupported
    cl = ast.parse(vlib.read_repo("mypy/dmypy/client.py"))
    req = [n for n in cl.body if isinstance(n, ast.FunctionDef) and n.name == "request"]
    if not req:
        raise Unsupported("dmypy/client.py request() not found")
    trys = [n for n in req[0].body if isinstance(n, ast.Try)]
    if len(trys) != 1:
        raise Unsupported("dmypy/client.py request(): expected one try block")
    same(trys, CLIENT_REQUEST_TRY, "dmypy/client.py request() exchange")
    return "\n\n".join(out) + "\n"


# ---------------------------------------------------------------------------------------- serve shape

SERVE_TEMPLATE = '''
command = None
server = IPCServer(CONNECTION_NAME, self.timeout)
orig_stdout = sys.stdout
orig_stderr = sys.stderr

try:
    with open(self.status_file, "w") as f:
        json.dump({"pid": os.getpid(), "connection_name": server.connection_name}, f)
        f.write("\\n")  # I like my JSON with a trailing newline
    while True:
        with server:
            __RECEIVE__
            sys.stdout = WriteToConn(server, "stdout", sys.stdout.isatty())
            sys.stderr = WriteToConn(server, "stderr", sys.stderr.isatty())
            resp: dict[str, Any] = {}
            if "command" not in data:
                resp = {"error": "No command found in request"}
            else:
                command = data["command"]
                if not isinstance(command, str):
                    resp = {"error": "Command is not a string"}
                else:
                    command = data.pop("command")
                    try:
                        resp = self.run_command(command, data)
                    __BADREQUEST__
                    except Exception:
                        # If we are crashing, report the crash to the client
                        tb = traceback.format_exception(*sys.exc_info())
                        resp = {"error": "Daemon crashed!\\n" + "".join(tb)}
                        resp.update(self._response_metadata())
                        resp["final"] = True
                        send(server, resp)
                        raise
            resp["final"] = True
            __SEND__
            if command == "stop":
                reset_global_state()
                sys.exit(0)
finally:
    # Revert stdout/stderr so we can see any errors.
    sys.stdout = orig_stdout
    sys.stderr = orig_stderr
    if command != "stop":
        os.unlink(self.status_file)
    try:
        server.cleanup()  # try to remove the socket dir on Linux
    except OSError:
        pass
    exc_info = sys.exc_info()
    if exc_info[0] and exc_info[0] is not SystemExit:
        traceback.print_exception(*exc_info)
'''
SEND_GUARDED = '''
try:
    resp.update(self._response_metadata())
    send(server, resp)
except OSError:
    pass
'''
SEND_BARE = '''
resp.update(self._response_metadata())
send(server, resp)
'''
RUN_COMMAND_ORIG = '''
key = "cmd_" + command
method = getattr(self.__class__, key, None)
if method is None:
    return {"error": f"Unrecognized command '{command}'"}
else:
    if command not in {"check", "recheck", "run"}:
        # Only the above commands use some error formatting.
        del data["is_tty"]
        del data["terminal_width"]
    ret = method(self, **data)
    assert isinstance(ret, dict)
    return ret
'''
# the repaired form (notes/C16-fix-2.diff): argument names are checked against the command's signature
RUN_COMMAND_VALIDATING = '''
key = "cmd_" + command
method = getattr(self.__class__, key, None)
if method is None:
    return {"error": f"Unrecognized command '{command}'"}
else:
    if command not in {"check", "recheck", "run"}:
        # Only the above commands use some error formatting.
        data.pop("is_tty", None)
        data.pop("terminal_width", None)
    try:
        inspect.signature(method).bind(self, **data)
    except TypeError as err:
        raise BadRequest(f"Invalid arguments for command '{command}': {err}") from None
    ret = method(self, **data)
    assert isinstance(ret, dict)
    return ret
'''
# the form committed in /repo (0cb7656): as above plus a tolerance for commands whose signature cannot be
# introspected (compiled mypy): there the call itself decides, i.e. validation is only guaranteed for the
# interpreted daemon (assumption recorded by the harness)
RUN_COMMAND_VALIDATING_2 = RUN_COMMAND_VALIDATING.replace(
    """        raise BadRequest(f"Invalid arguments for command '{command}': {err}") from None
""", """        raise BadRequest(f"Invalid arguments for command '{command}': {err}") from None
    except ValueError:
        pass
""")
BADREQUEST_HANDLER = '''
try:
    pass
except BadRequest as err:
    resp = {"error": str(err)}
    command = None
'''
CMD_STOP = '''
os.unlink(self.status_file)
return {}
'''
OS_NAMES = {"OSError", "Exception", "BaseException", "IOError", "EnvironmentError"}
UNICODE_NAMES = {"UnicodeDecodeError", "UnicodeError", "ValueError", "Exception", "BaseException"}


def handler_names(h: ast.ExceptHandler) -> set[str]:
    if h.type is None:
        return {"BaseException"}
    ts = h.type.elts if isinstance(h.type, ast.Tuple) else [h.type]
    out = set()
    for t in ts:
        if not isinstance(t, ast.Name):
            raise fail(h, "exception class expression")
        out.add(t.id)
    return out


def placeholder(name: str) -> ast.stmt:
    return ast.Expr(value=ast.Name(id=name, ctx=ast.Load()))


def is_reset(stmts: list[ast.stmt]) -> bool:
    """does the statement list (no nesting considered) assign self.buffer = bytearray() and self.message_size = None"""
    got = set()
    for s in stmts:
        if isinstance(s, ast.Assign) and len(s.targets) == 1 and is_self_attr(s.targets[0]):
            a = s.targets[0].attr  # type: ignore[attr-defined]
            if a == "buffer" and ast.unparse(s.value) in ("bytearray()", "bytearray(b'')"):
                got.add(a)
            if a == "message_size" and isinstance(s.value, ast.Constant) and s.value.value is None:
                got.add(a)
    return got == {"buffer", "message_size"}


RECV_TIMED = '''
if sys.platform != "win32":
    server.connection.settimeout(__T__)
data = receive(server)
if sys.platform != "win32":
    server.connection.settimeout(None)
'''


def recv_body_form(body: list[ast.stmt]) -> bool | None:
    """False: `data = receive(server)`; True: the same bracketed by a receive timeout on the accepted
    connection (notes/C16-fix-4.diff); None: anything else"""
    if len(body) == 1 and ast.unparse(body[0]) == "data = receive(server)":
        return False
    if len(body) == 3:
        b = copy.deepcopy(body)
        try:
            call = b[0].body[0].value          # type: ignore[attr-defined]
            arg = call.args[0]
        except (AttributeError, IndexError):
            return None
        ok = isinstance(arg, ast.Name) or (isinstance(arg, ast.Constant) and isinstance(arg.value, (int, float))
                                           and not isinstance(arg.value, bool) and arg.value > 0)
        if not ok:
            return None
        call.args[0] = ast.Name(id="__T__", ctx=ast.Load())
        if dump(b) == dump(ast.parse(RECV_TIMED).body):
            return True
    return None


def gen_shape() -> tuple[str, dict[str, bool]]:
    tree = ast.parse(vlib.read_repo("mypy/dmypy_server.py"))
    srv = find_class(tree, "Server")
    serve = copy.deepcopy(find_method(srv, "serve"))
    body = strip_doc(serve.body)
    flags: dict[str, bool] = {}
    # locate `with server:` inside try / while True
    try:
        tr = [s for s in body if isinstance(s, ast.Try)][0]
        wh = [s for s in tr.body if isinstance(s, ast.While)][0]
        wi = wh.body[0]
        assert isinstance(wi, ast.With) and len(wh.body) == 1 and ast.unparse(wi.items[0].context_expr) == "server"
    except (IndexError, AssertionError):
        raise Unsupported("serve: `while True: with server:` not found")
    wb = wi.body
    # (1) the receive statement
    first = wb[0]
    recv_src = "data = receive(server)"
    flags["recv_catch_os"] = flags["recv_catch_unicode"] = flags["conn_timeout"] = False
    if isinstance(first, ast.Assign) and ast.unparse(first) == recv_src:
        pass
    elif (isinstance(first, ast.Try) and recv_body_form(first.body) is not None
          and not first.orelse and not first.finalbody and first.handlers):
        flags["conn_timeout"] = bool(recv_body_form(first.body))
        for h in first.handlers:
            # the handler must keep serving: its last statement is `continue`, and it raises/returns/exits nowhere
            if not h.body or not isinstance(h.body[-1], ast.Continue):
                raise Unsupported("serve: handler around receive() does not end in `continue`")
            for n in ast.walk(ast.Module(body=h.body, type_ignores=[])):
                if isinstance(n, (ast.Raise, ast.Return, ast.Break)) or (isinstance(n, ast.Call) and ast.unparse(n.func) in ("sys.exit", "os._exit", "exit")):
                    raise Unsupported("serve: handler around receive() leaves the loop")
            names = handler_names(h)
            if names & OS_NAMES:
                flags["recv_catch_os"] = True
            if names & UNICODE_NAMES:
                flags["recv_catch_unicode"] = True
    else:
        raise Unsupported("serve: first statement under `with server:` is not `data = receive(server)` (possibly in try)")
    wb[0] = placeholder("__RECEIVE__")
    # (2) the reply send
    flags["send_guarded"] = False
    idx = None
    for i, s in enumerate(wb):
        if isinstance(s, ast.Try) and dump([s]) == dump(ast.parse(SEND_GUARDED).body):
            flags["send_guarded"] = True
            idx = (i, i + 1)
        elif i + 1 < len(wb) and dump(wb[i:i + 2]) == dump(ast.parse(SEND_BARE).body):
            idx = (i, i + 2)
    if idx is None:
        raise Unsupported("serve: reply send not found")
    wb[idx[0]:idx[1]] = [placeholder("__SEND__")]
    # (3) optional BadRequest handler in front of `except Exception` around run_command
    flags["badrequest_handler"] = False
    for n in ast.walk(wi):
        if isinstance(n, ast.Try) and len(n.body) == 1 and ast.unparse(n.body[0]) == "resp = self.run_command(command, data)":
            exp = ast.parse(BADREQUEST_HANDLER).body[0].handlers[0]  # type: ignore[attr-defined]
            if len(n.handlers) == 2 and ast.dump(n.handlers[0]) == ast.dump(exp):
                flags["badrequest_handler"] = True
                del n.handlers[0]
    tmpl_src = SERVE_TEMPLATE.replace("__RECEIVE__", "__RECEIVE__").replace("__SEND__", "__SEND__")
    tmpl_src = tmpl_src.replace("                    __BADREQUEST__\n", "")
    if dump(body) != dump(ast.parse(tmpl_src).body):
        raise Unsupported("Server.serve differs from the template the hand model (C16/Serve.v) was written from")
    # (4) run_command
    rc = dump(strip_doc(find_method(srv, "run_command").body))
    if rc == dump(ast.parse(RUN_COMMAND_ORIG).body):
        validating = False
    elif rc in (dump(ast.parse(RUN_COMMAND_VALIDATING).body), dump(ast.parse(RUN_COMMAND_VALIDATING_2).body)):
        validating = True
    else:
        raise Unsupported("Server.run_command differs from both known forms")
    if validating != flags["badrequest_handler"]:
        raise Unsupported("run_command argument validation and the BadRequest handler in serve do not match")
    flags["args_validated"] = validating
    del flags["badrequest_handler"]
    same(find_method(srv, "cmd_stop").body, CMD_STOP, "Server.cmd_stop")
    # (5) per-connection reset of the reassembly state: in IPCServer.__enter__ (POSIX path, top level or
    #     inside its try) or at the top of the `with server:` body (before receive -- not accepted: the
    #     template above forbids extra statements there)
    ipc = ast.parse(vlib.read_repo("mypy/ipc.py"))
    ent = find_method(find_class(ipc, "IPCServer"), "__enter__")
    pb = posix_branch(strip_doc(ent.body), "__enter__")
    flat: list[ast.stmt] = []
    for s in pb:
        flat.append(s)
        if isinstance(s, ast.Try):
            flat += s.body
    flags["reset_on_accept"] = is_reset(flat)
    # nothing else in IPCServer / serve touches the buffer
    for m in find_class(ipc, "IPCServer").body:
        if isinstance(m, ast.FunctionDef) and m.name != "__enter__":
            for n in ast.walk(m):
                if is_self_attr(n) and n.attr in ("buffer", "message_size"):  # type: ignore[attr-defined]
                    raise Unsupported(f"IPCServer.{m.name} touches self.{n.attr}")  # type: ignore[attr-defined]
    ex = find_method(find_class(ipc, "IPCServer"), "__exit__")
    same(posix_branch(strip_doc(ex.body), "__exit__"), "self.close()", "IPCServer.__exit__ (POSIX)")
    flags["stdout_guarded"] = write_to_conn_guarded(ast.parse(vlib.read_repo("mypy/dmypy_util.py")))
    order = ["recv_catch_os", "recv_catch_unicode", "reset_on_accept", "args_validated", "send_guarded", "conn_timeout", "stdout_guarded"]
    out = [HEADER.format(src="mypy/dmypy_server.py, mypy/ipc.py").replace("From C16 Require Import Bytes.", "From C16 Require Import Bytes Shape.")]
    out.append("(* try/except structure of Server.serve, run_command and IPCServer.__enter__ as found in the source *)\n"
               "Definition current_shape : shape :=\n  {| " + ";\n     ".join(f"{k} := {'true' if flags[k] else 'false'}" for k in order) + " |}.")
    return "\n\n".join(out) + "\n", flags


def generate() -> dict[str, str]:
    """Fail closed: a file that cannot be regenerated is REMOVED (never left over from an earlier run), so
    that neither the proofs nor the correspondence can silently use a stale model."""
    files: dict[str, str] = {}
    err: Exception | None = None
    for k, gen in (("Frame.v", gen_frame), ("ServeShape.v", lambda: gen_shape()[0])):
        try:
            files[k] = gen()
            vlib.write_if_changed(os.path.join(vlib.GEN, k), files[k])
        except Exception as e:  # noqa
            err = err or e
            for ext in (".v", ".vo", ".vos", ".vok", ".glob"):
                try:
                    os.remove(os.path.join(vlib.GEN, k[:-2] + ext))
                except OSError:
                    pass
    if err is not None:
        raise err
    return files


if __name__ == "__main__":
    for k, v in generate().items():
        print(f"(* ==== {k} ==== *)\n{v}")
