"""C07 shim: observe and perturb mypy's parallel scheduler from OUTSIDE the repository.

Loaded automatically by every child Python whose PYTHONPATH starts with this directory.
Does nothing unless PYTHON_MYPY_VERIF=1 and C07_TRACE (path of the shared event log) is set.

What it does (coordinator process and every build worker; all by monkey-patching attributes
of mypy.build / mypy.build_worker.worker, /repo is never modified):

* logs one JSON line per event to C07_TRACE, opened O_APPEND, one os.write per event, so the
  file order is a linearisation consistent with real time across the processes:
    coordinator: dag, classify(stale/fresh), submit(worker, batch), recv(worker, kind, batch), end
    worker w:    start(batch), load(scc, deps loaded from the shared cache + interface hashes read),
                 commit(kind, scc, interface hashes written), send(kind, batch)
* perturbs the schedule from C07_SEED (all choices are functions of the seed and of stable names,
  never of pids / times):
    - per-SCC sleeps in workers before the interface phase and before the implementation phase,
    - which free worker `free_workers.pop()` returns,
    - which of several simultaneously readable worker connections the coordinator serves in a round
      (a non-empty sub-list in permuted order; the rest stay readable for the next round),
    - C07_LONG_SLEEP=<s>: a long pause before a later module of a multi-module batch (at most 1 per worker and run),
      C07_SQLITE_BUSY_MS=<ms>: sqlite busy timeout of the cache shards (so that a write lock held across that
      pause shows up as "database is locked" without waiting for sqlite's default 5 s).
* also logs per-module store commits of workers (commit_module: file, shard) and impl_start(module).
* raises WORKER_START_TIMEOUT (3 s in the sources; an environment limit, not scheduling logic) so that a
  loaded test machine cannot produce spurious "failed to connect" runs.
"""
import os
import sys


def _c07_install() -> None:
    import hashlib
    import json
    import time

    trace_path = os.environ["C07_TRACE"]
    seed = os.environ.get("C07_SEED", "")
    perturb = seed != ""
    fd = os.open(trace_path, os.O_WRONLY | os.O_APPEND | os.O_CREAT, 0o644)

    def emit(ev: dict) -> None:
        ev["t"] = time.monotonic_ns()
        os.write(fd, (json.dumps(ev, sort_keys=True) + "\n").encode())

    def h(*parts: object) -> int:
        s = "/".join(str(p) for p in (seed,) + parts)
        return int.from_bytes(hashlib.sha256(s.encode()).digest()[:8], "big")

    def scc_key(scc) -> str:
        return ",".join(sorted(scc.mod_ids))

    scale = float(os.environ.get("C07_SLEEP_SCALE", "1.0"))

    def delay(phase: str, key: str) -> float:
        if not perturb:
            return 0.0
        v = h("sleep", phase, key)
        c = v % 100
        f = ((v >> 8) % 1000) / 1000.0
        if c < 55:
            return 0.0
        if c < 88:
            return scale * (0.005 + 0.045 * f)
        return scale * (0.08 + 0.25 * f)

    import mypy.build as B
    import mypy.build_worker.worker as W

    B.WORKER_START_TIMEOUT = 120  # type: ignore[misc]

    def worker_idx() -> int:
        for a in sys.argv:
            if a.startswith("--status-file="):
                # .mypy_worker.<build_id>.<idx>.json
                return int(a.rsplit(".", 2)[-2])
        return -1

    # ------------------------------------------------------------------ coordinator side
    cur = {"manager": None, "recv_idx": None, "round": 0, "pop": 0}

    class PermSet(set):  # free_workers with a seeded choice
        def pop(self):  # type: ignore[override]
            items = sorted(self)
            k = cur["pop"]
            cur["pop"] += 1
            x = items[h("pop", k) % len(items)] if perturb else set.pop(self)
            if perturb:
                self.discard(x)
            return x

    orig_sorted_components = B.sorted_components

    def sorted_components(graph):
        sccs = orig_sorted_components(graph)
        emit({"ev": "dag", "sccs": [
            {"id": s.id, "mods": sorted(s.mod_ids), "deps": sorted(s.deps), "size": s.size_hint,
             "dependents": list(s.direct_dependents)} for s in sccs]})
        return sccs

    B.sorted_components = sorted_components

    orig_find_stale = B.find_stale_sccs

    def find_stale_sccs(sccs, graph, manager):
        stale, fresh = orig_find_stale(sccs, graph, manager)
        if manager.workers and (stale or fresh):
            emit({"ev": "classify", "ready": [s.id for s in sccs], "stale": [s.id for s in stale],
                  "fresh": [s.id for s in fresh]})
        return stale, fresh

    B.find_stale_sccs = find_stale_sccs

    orig_submit_to_workers = B.BuildManager.submit_to_workers

    def submit_to_workers(self, graph, sccs=None):
        cur["manager"] = self
        if type(self.free_workers) is set:
            self.free_workers = PermSet(self.free_workers)
        if sccs is not None:
            emit({"ev": "push", "sccs": [s.id for s in sccs], "n": len(self.workers)})
        else:
            emit({"ev": "advance"})
        return orig_submit_to_workers(self, graph, sccs)

    B.BuildManager.submit_to_workers = submit_to_workers

    orig_send = B.send

    def send(conn, data):
        m = cur["manager"]
        if isinstance(data, B.SccRequestMessage) and data.scc_ids and m is not None:
            idx = next((i for i, w in enumerate(m.workers) if getattr(w, "conn", None) is conn), -1)
            emit({"ev": "submit", "w": idx, "sccs": list(data.scc_ids),
                  "queue_after": sorted(s.id for _, _, s in m.scc_queue),
                  "free_after": sorted(m.free_workers)})
        return orig_send(conn, data)

    B.send = send

    orig_recv_msg = B.BuildManager.receive_worker_message

    def receive_worker_message(self, idx):
        cur["recv_idx"] = idx
        cur["manager"] = self
        return orig_recv_msg(self, idx)

    B.BuildManager.receive_worker_message = receive_worker_message

    orig_resp_read = B.SccResponseMessage.read.__func__

    def resp_read(cls, buf):
        data = orig_resp_read(cls, buf)
        if cur["recv_idx"] is not None:
            emit({"ev": "recv", "w": cur["recv_idx"], "kind": "iface" if data.is_interface else "impl",
                  "sccs": list(data.scc_ids), "blocker": data.blocker is not None,
                  "hashes": {k: v.interface_hash for k, v in sorted((data.result or {}).items())
                             if v.interface_hash is not None}})
        return data

    B.SccResponseMessage.read = classmethod(resp_read)

    orig_ready = B.ready_to_read

    def ready_to_read(conns, timeout=None):
        r = orig_ready(conns, timeout)
        if perturb and cur["manager"] is not None and len(conns) > 1:
            k = cur["round"]
            cur["round"] += 1
            if h("linger", k) % 3 == 0:
                # let more replies accumulate, then look again (more multi-message rounds)
                time.sleep(scale * 0.02)
                r = orig_ready(conns, 0) or r
            if len(r) > 1:
                r = sorted(r, key=lambda i: h("order", k, i))
                r = r[: 1 + h("take", k) % len(r)]
        return r

    B.ready_to_read = ready_to_read

    orig_process_graph = B.process_graph

    def process_graph(graph, manager):
        par = bool(manager.workers)
        if par:
            emit({"ev": "begin", "n": len(manager.workers)})
        try:
            return orig_process_graph(graph, manager)
        finally:
            if par:
                emit({"ev": "end", "free": sorted(manager.free_workers), "queue": len(manager.scc_queue)})

    B.process_graph = process_graph

    # ------------------------------------------------------------------ worker side
    wstate = {"scc": None, "phase": None, "batch": None}

    def mod_hashes(graph, scc) -> dict:
        out = {}
        for m in sorted(scc.mod_ids):
            ih = graph[m].interface_hash
            out[m] = ih.hex() if isinstance(ih, (bytes, bytearray)) else str(ih)
        return out

    orig_maybe_load = B.maybe_load_deps

    def maybe_load_deps(graph, ascc, manager):
        if not manager.parallel_worker:
            return orig_maybe_load(graph, ascc, manager)
        before = set(manager.done_sccs)
        res = orig_maybe_load(graph, ascc, manager)
        loaded = sorted(set(manager.done_sccs) - before)
        emit({"ev": "load", "w": worker_idx(), "scc": ascc.id, "loaded": loaded,
              "in_memory": sorted(d for d in ascc.deps if d in before),
              "hashes": {str(d): mod_hashes(graph, manager.scc_by_id[d]) for d in loaded}})
        return res

    B.maybe_load_deps = maybe_load_deps

    orig_iface = B.process_stale_scc_interface

    def process_stale_scc_interface(graph, ascc, manager, from_cache):
        d = delay("iface", scc_key(ascc))
        if d:
            time.sleep(d)
        res = orig_iface(graph, ascc, manager, from_cache)
        wstate["scc"] = ascc
        wstate["phase"] = "iface"
        wstate["graph"] = graph
        return res

    B.process_stale_scc_interface = process_stale_scc_interface
    W.process_stale_scc_interface = process_stale_scc_interface

    orig_impl = B.process_stale_scc_implementation
    long_sleep = float(os.environ.get("C07_LONG_SLEEP", "0") or 0)
    wstate["impl_idx"] = 0
    wstate["long_done"] = 0

    def process_stale_scc_implementation(graph, stale, manager, meta_files):
        d = delay("impl", ",".join(stale))
        # a long pause before a LATER module of a multi-module batch: while it lasts the worker must not hold any
        # cache-shard write lock of the modules it already finished (another worker may need that shard)
        if (perturb and long_sleep and wstate["impl_idx"] >= 1 and wstate["long_done"] < 1
                and h("long", ",".join(stale)) % 2 == 0):
            d = long_sleep
            wstate["long_done"] += 1
        emit({"ev": "impl_start", "w": worker_idx(), "mods": list(stale), "idx": wstate["impl_idx"], "sleep": round(d, 3)})
        kill_at = os.environ.get("C07_KILL_AT", "")      # "<module>": the worker dies when it starts that module's implementation
        if kill_at and kill_at in stale:
            emit({"ev": "killed", "w": worker_idx(), "mod": kill_at})
            os._exit(3)
        wstate["impl_idx"] += 1
        if d:
            time.sleep(d)
        res = orig_impl(graph, stale, manager, meta_files)
        wstate["phase"] = "impl"
        return res

    B.process_stale_scc_implementation = process_stale_scc_implementation
    W.process_stale_scc_implementation = process_stale_scc_implementation

    orig_commit_module = B.BuildManager.commit_module

    def commit_module(self, meta_file):
        res = orig_commit_module(self, meta_file)
        if self.parallel_worker:
            shard = -1
            try:
                shard = self.metastore._shard_index(meta_file)
            except Exception:
                pass
            emit({"ev": "commit_module", "w": worker_idx(), "file": meta_file, "shard": shard})
        return res

    B.BuildManager.commit_module = commit_module

    busy_ms = os.environ.get("C07_SQLITE_BUSY_MS", "")
    if busy_ms:
        import mypy.metastore as MS
        orig_connect_db = MS.connect_db

        def connect_db(db_file, set_journal_mode):
            db = orig_connect_db(db_file, set_journal_mode)
            db.execute("PRAGMA busy_timeout=%d" % int(busy_ms))
            return db

        MS.connect_db = connect_db

    orig_commit = B.BuildManager.commit

    def commit(self):
        res = orig_commit(self)
        if self.parallel_worker and wstate["phase"] is not None:
            if wstate["phase"] == "iface":
                scc = wstate["scc"]
                emit({"ev": "commit", "w": worker_idx(), "kind": "iface", "scc": scc.id,
                      "hashes": mod_hashes(wstate["graph"], scc)})
            else:
                emit({"ev": "commit", "w": worker_idx(), "kind": "impl", "sccs": wstate["batch"]})
            wstate["phase"] = None
        return res

    B.BuildManager.commit = commit

    orig_load_states = W.load_states

    def load_states(mod_ids, graph, manager, import_errors, mod_data):
        return orig_load_states(mod_ids, graph, manager, import_errors, mod_data)

    orig_req_read = B.SccRequestMessage.read.__func__

    def req_read(cls, buf):
        data = orig_req_read(cls, buf)
        if data.scc_ids:
            wstate["batch"] = list(data.scc_ids)
            wstate["impl_idx"] = 0
            emit({"ev": "start", "w": worker_idx(), "sccs": list(data.scc_ids)})
        return data

    B.SccRequestMessage.read = classmethod(req_read)

    orig_timed_send = W.timed_send

    def timed_send(manager, server, message):
        emit({"ev": "send", "w": worker_idx(), "kind": "iface" if message.is_interface else "impl",
              "sccs": list(message.scc_ids), "blocker": message.blocker is not None})
        return orig_timed_send(manager, server, message)

    W.timed_send = timed_send


if os.environ.get("PYTHON_MYPY_VERIF") == "1" and os.environ.get("C07_TRACE"):
    try:
        _c07_install()
    except Exception as _e:  # never break the child silently: make the failure visible in its output
        sys.stderr.write(f"C07-SHIM-INSTALL-FAILED: {_e!r}\n")
