"""C04 fault injection, applied from OUTSIDE the repository (nothing in /repo is modified).

Wraps the cache-store operations `write`, `remove`, `commit`, `commit_path` of
mypy.metastore.FilesystemMetadataStore and SqliteMetadataStore (class attributes are replaced by
wrappers; for the sqlite store an operation that finds nothing to commit is still a position).

Environment (all optional; nothing happens unless PYTHON_MYPY_VERIF=1 and C04_SPEC is set):

  C04_SPEC  = JSON {"trace": path | null,
                    "crash": null | {"role": "coord"|"worker"|"any", "kind": k, "name": n, "occ": j,
                                     "when": "before"|"after", "scope": "process"|"group"},
                    "fail":  [[role, kind, name, occ], ...],
                    "only":  [substrings]   (ops whose name contains none of them are neither traced nor counted;
                                             commits (no name) are always counted)}

* trace: one JSON line per store operation, appended with a single os.write (O_APPEND):
      {"role": "coord"|"worker", "w": worker index or -1, "pid": pid, "kind": "write"|"remove"|"commit"|"commit_path",
       "name": entry name ("" for commit), "occ": occurrence number of (kind, name) in this process,
       "ok": result of a write (true/false), "dirty": for sqlite commits: whether anything was committed}
  The line is written AFTER the operation has been executed: the trace lists completed operations
  ("injected": true marks a write that was turned into a failure).  Before the operation a {"begin": true, ...}
  line is written: a begin without completion = the process was killed from outside inside the operation.
* crash: the process calls os._exit(70) (scope=process) or kills its whole process group with SIGKILL
  (scope=group: "the run is killed") immediately before / after the identified operation.
* fail: during the identified store call the LOW-LEVEL operation fails -- filesystem store: os.replace (write) /
  os.remove (remove) raise PermissionError; sqlite store: the connection's execute raises sqlite3.OperationalError --
  so the store classes' own error handling (write -> False, remove -> exception) is inside the tested code.
  Trace: "ok" = what the caller was told, "effect" = whether the entry really changed.
* unnamed operations (commit) carry "anchor" = "<kind>:<name>:<occ>" of the last named operation of the process;
  their "occ" counts from that anchor, and a crash spec for them must give the same "anchor".
"""
from __future__ import annotations

import json
import os
import signal
import sys

_INSTALLED = False


def _role() -> tuple[str, int]:
    argv = list(getattr(sys, "orig_argv", sys.argv))
    if "mypy.build_worker" in argv or any(a.endswith("build_worker/__main__.py") for a in argv):
        idx = -1
        for a in argv:
            if a.startswith("--status-file="):
                parts = a.rsplit(".", 2)
                try:
                    idx = int(parts[-2])
                except (ValueError, IndexError):
                    idx = -1
        return "worker", idx
    return "coord", -1


def install() -> None:
    global _INSTALLED
    if _INSTALLED or os.environ.get("PYTHON_MYPY_VERIF") != "1" or not os.environ.get("C04_SPEC"):
        return
    _INSTALLED = True
    spec = json.loads(os.environ["C04_SPEC"])
    role, widx = _role()
    trace_path = spec.get("trace")
    fd = os.open(trace_path, os.O_WRONLY | os.O_APPEND | os.O_CREAT, 0o644) if trace_path else -1
    crash = spec.get("crash")
    fails = {(f[0], f[1], f[2], int(f[3])) for f in spec.get("fail", [])}
    only = spec.get("only")
    counts: dict[tuple[str, str], int] = {}
    # unnamed operations (commit) are identified by the last NAMED operation of this process before them
    # ("anchor") + their number since then: stable under any assignment of SCCs to workers
    state = {"anchor": ""}
    hit = {"n": 0}

    def relevant(name: str) -> bool:
        if not name or not only:
            return True
        return any(s in name for s in only)

    def die() -> None:
        if crash.get("scope") == "group":
            try:
                os.killpg(os.getpgid(0), signal.SIGKILL)
            except OSError:
                pass
        os._exit(70)

    def matches(kind: str, name: str, occ: int, when: str) -> bool:
        return (crash is not None and crash.get("when", "before") == when
                and crash["role"] in (role, "any") and crash["kind"] == kind
                and crash["name"] == name and int(crash["occ"]) == occ
                and (name != "" or crash.get("anchor", "") == state["anchor"]))

    def point(kind: str, name: str) -> tuple[int, bool]:
        """Called before an operation: counts it, kills the process if this is the crash point.
        Returns (occ, fail?)."""
        key = (kind, name if name else "@" + state["anchor"])
        occ = counts.get(key, 0)
        counts[key] = occ + 1
        failing = kind in ("write", "remove") and ((role, kind, name, occ) in fails or ("any", kind, name, occ) in fails)
        if matches(kind, name, occ, "before"):
            die()
        if fd >= 0:
            # "begin" record: an operation with a begin but no completion record (the process was killed from
            # outside in between) may or may not have taken effect
            os.write(fd, (json.dumps({"begin": True, "role": role, "w": widx, "pid": os.getpid(), "kind": kind,
                                      "name": name, "occ": occ}, sort_keys=True) + "\n").encode())
        return occ, failing

    def done(kind: str, name: str, occ: int, extra: dict) -> None:
        """Called after the operation has been executed (trace lines = completed operations)."""
        if fd >= 0:
            ev = {"role": role, "w": widx, "pid": os.getpid(), "kind": kind, "name": name, "occ": occ}
            if not name:
                ev["anchor"] = state["anchor"]
            ev.update(extra)
            os.write(fd, (json.dumps(ev, sort_keys=True) + "\n").encode())
        if matches(kind, name, occ, "after"):
            die()
        if name:
            state["anchor"] = f"{kind}:{name}:{occ}"

    import mypy.metastore as ms

    def wrap_store(cls, is_sqlite: bool) -> None:
        o_write, o_remove, o_commit, o_commit_path = cls.write, cls.remove, cls.commit, cls.commit_path

        class _FailingDb:
            """Stands in for a sqlite3.Connection while an injected failure is active: execute raises
            what a locked / full database raises."""
            def __init__(self, real):
                self._real = real
            def execute(self, *a, **k):
                hit["n"] += 1
                import sqlite3
                raise sqlite3.OperationalError("database is locked (injected)")
            def __getattr__(self, k):
                return getattr(self._real, k)

        class lowlevel_failure:
            """Make the LOW-LEVEL operation under the store method fail, so that the store class's own error
            handling is part of the tested code: filesystem store: os.replace (write) / os.remove (remove) raise
            OSError; sqlite store: the connection's execute raises sqlite3.OperationalError."""
            def __init__(self, store, name, op):
                self.store, self.name, self.op = store, name, op
            def __enter__(self):
                hit["n"] = 0
                if is_sqlite:
                    self.idx = self.store._shard_index(self.name) if self.store.dbs else None
                    if self.idx is not None:
                        self.saved = self.store.dbs[self.idx]
                        self.store.dbs[self.idx] = _FailingDb(self.saved)
                else:
                    attr = "replace" if self.op == "write" else "remove"
                    self.attr, self.saved = attr, getattr(os, attr)
                    def failing(*a, **k):
                        hit["n"] += 1
                        raise PermissionError(13, "Permission denied (injected)", self.name)
                    setattr(os, attr, failing)
            def __exit__(self, *exc):
                if is_sqlite:
                    if self.idx is not None:
                        self.store.dbs[self.idx] = self.saved
                else:
                    setattr(os, self.attr, self.saved)
                return False

        def write(self, name, data, mtime=None):
            if not relevant(name):
                return o_write(self, name, data, mtime)
            occ, failing = point("write", name)
            if failing:
                with lowlevel_failure(self, name, "write"):
                    res = o_write(self, name, data, mtime)
                effect = hit["n"] == 0
            else:
                res = o_write(self, name, data, mtime)
                effect = bool(res)
            # "ok" = what the caller is told; "effect" = whether the entry was really written
            done("write", name, occ, {"ok": bool(res), "effect": effect, "injected": failing and hit["n"] > 0})
            return res

        def remove(self, name):
            if not relevant(name):
                return o_remove(self, name)
            occ, failing = point("remove", name)
            try:
                if failing:
                    with lowlevel_failure(self, name, "remove"):
                        res = o_remove(self, name)
                else:
                    res = o_remove(self, name)
            except BaseException as e:
                done("remove", name, occ, {"raised": type(e).__name__, "ok": False,
                                           "effect": isinstance(e, FileNotFoundError), "injected": failing and hit["n"] > 0})
                raise
            # a store that swallows the low-level error reports success although nothing was removed
            done("remove", name, occ, {"ok": True, "effect": not (failing and hit["n"] > 0), "injected": failing and hit["n"] > 0})
            return res

        def commit(self):
            extra = {"dirty": bool(getattr(self, "dirty_shards", ()))} if is_sqlite else {}
            occ, _ = point("commit", "")
            res = o_commit(self)
            done("commit", "", occ, extra)
            return res

        def commit_path(self, name):
            if not relevant(name):
                return o_commit_path(self, name)
            occ, _ = point("commit_path", name)
            if is_sqlite:
                extra = {"dirty": self._shard_index(name) in self.dirty_shards}
                res = o_commit_path(self, name)
            else:
                # base-class implementation = self.commit(); call the ORIGINAL commit so that one
                # source-level commit_path is one position
                extra = {}
                res = o_commit(self)
            done("commit_path", name, occ, extra)
            return res

        cls.write, cls.remove, cls.commit, cls.commit_path = write, remove, commit, commit_path

    wrap_store(ms.FilesystemMetadataStore, False)
    wrap_store(ms.SqliteMetadataStore, True)
