"""C04 driver for the single-process build / the coordinator of a parallel build.

    PYTHON_MYPY_VERIF=1 C04_SPEC='{...}' PYTHONPATH=<this dir>:/repo /venv/bin/python driver.py <mypy args>

Installs the store wrappers (c04_inject) in this process, then runs mypy's normal command-line
entry point.  Nothing in /repo is modified.
"""
import os
import sys

sys.path.insert(0, os.path.dirname(os.path.abspath(__file__)))
import c04_inject  # noqa: E402

c04_inject.install()

from mypy.__main__ import console_entry  # noqa: E402
import mypy.build  # noqa: E402

# 3 s in the sources: an environment limit, not part of the protocol under test; a loaded test
# machine must not produce spurious "failed to connect to worker" runs.
mypy.build.WORKER_START_TIMEOUT = 60

sys.argv = ["mypy"] + sys.argv[1:]
console_entry()
