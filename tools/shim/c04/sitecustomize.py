"""C04 shim for the worker processes of a parallel (`-n N`) mypy build.

Put this directory on the PYTHONPATH of the build (before /repo): every child Python imports
this file at start-up.  It does nothing unless PYTHON_MYPY_VERIF=1 and C04_SPEC is set; then it
installs the store wrappers of c04_inject (trace / crash / failing writes) in that process.
The coordinator (started through driver.py) installs the same wrappers itself; install() is
idempotent.
"""
import os

if os.environ.get("PYTHON_MYPY_VERIF") == "1" and os.environ.get("C04_SPEC"):
    try:
        import c04_inject
        c04_inject.install()
    except Exception as _e:  # never break an unrelated interpreter start
        import sys
        print("c04 shim: install failed:", repr(_e), file=sys.stderr)
