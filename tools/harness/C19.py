"""C19 — generated stubs are valid, self-consistent and faithful (stubgen).   PARTIAL.

P/A  coq/C19: signature printing/parsing round trip for every parameter list (Sig*.v) and the
     ImportTracker state machine (Imports*.v).
C    model vs the real `ASTStubGenerator` signature lines (parse-only and semantic mode) on all small
     parameter lists + random longer ones; model vs the real `ImportTracker` on operation sequences.
S    cross-tool oracle on generated modules, three stubgen modes (parse-only / semantic / inspect):
     (i) ast.parse of the stub, (ii) mypy on the stubs alone, (iii) stubtest stub-vs-runtime,
     (iv) structural comparison of names/annotations with the source AST.

The same file is the child driver:  python C19.py --child <what> ...  (runs inside PYTHONPATH=/repo).
"""
from __future__ import annotations

import ast
import json
import os
import re
import shutil
import sys
import tempfile
import time
from concurrent.futures import ThreadPoolExecutor
from typing import Any, Callable

MODES = {"parse": ["--parse-only"], "semantic": [], "inspect": ["--inspect-mode"]}

# =====================================================================================
# generator of source modules
# =====================================================================================

BASE_PY = '''\
"""fixed helper module of the generated package"""
from typing import TypeVar

T_base = TypeVar("T_base")


class Base:
    bx: int = 0

    def bm(self, v: int) -> int:
        return v


class Other:
    pass


BaseAlias = list[int]
BASE_K: int = 7


def base_fn(a: int) -> int:
    return a
'''

LEAF_PY = '''\
class Leaf:
    lv: str = "l"
'''

DEFAULT_FORMS = [
    # (tag, source text, annotation that fits or None)
    ("int", "1", "int"), ("negint", "-1", "int"), ("float", "1.5", "float"), ("str", "'s'", "str"),
    ("bytes", "b'x'", "bytes"), ("none", "None", None), ("true", "True", "bool"), ("tuple", "(1, 2)", "tuple[int, int]"),
    ("emptytuple", "()", None), ("list", "[1]", "list[int]"), ("dict", "{'a': 1}", "dict[str, int]"), ("set", "{1}", "set[int]"),
    ("call", "object()", "object"), ("name", "DEF_K", "int"), ("attr", "os.sep", "str"), ("lambda", "lambda: 0", None),
    ("ellipsis", "...", None), ("complex", "2j", "complex"), ("binop", "1 << 3", "int"), ("longstr", "'" + "x" * 210 + "'", "str"),
    ("fstr", "f'{1}'", "str"), ("negfloat", "-0.5", "float"), ("strquote", "'it\\'s \"q\"'", "str"), ("bignum", str(10 ** 30), "int"),
    ("nested", "((1, 'a'), None)", None), ("unarynot", "not True", "bool"),
]
ANNOTS = ["int", "str", "list[int]", "dict[str, int]", "int | None", "Optional[int]", "Callable[[int], str]", "Base",
          "'Base'", "Sequence[int]", "tuple[int, ...]", "Any", "object", "type[Base]", "Literal['a', 1]", "Union[int, str]"]
KW = ["a", "b", "c", "d", "e", "f", "g", "h"]


class Mod:
    """accumulates one generated module"""

    def __init__(self, name: str):
        self.name = name
        self.body: list[str] = []
        self.families: dict[str, str] = {}     # top-level name -> construct family
        self.all: list[str] | None = None
        self.n = 0
        self.used: list[str] = []
        self.default_family = "module"

    def fresh(self, fam: str, base: str) -> str:
        self.n += 1
        nm = f"{base}{self.n}"
        self.families[nm] = fam
        return nm

    HEADER = (
        "from __future__ import annotations\n"
        "import os\nimport sys\nimport abc\nimport enum\nimport dataclasses\nimport functools\nimport contextlib\nimport collections\n"
        "import typing\nimport typing as t\nimport collections.abc\n"
        "from dataclasses import dataclass, field, InitVar\n"
        "from typing import (Any, Callable, ClassVar, Final, Generic, Iterator, Literal, NamedTuple, Optional, Protocol,\n"
        "                    Sequence, TypeVar, TypedDict, Union, overload, TYPE_CHECKING, ParamSpec, TypeAlias, Generator,\n"
        "                    AsyncIterator, Required, NotRequired)\n"
        "from ..base import Base, Other, BaseAlias, BASE_K\n"
        "from .. import base\n"
        "DEF_K = 3\n"
    )

    def source(self, future: bool) -> str:
        h = self.HEADER if future else self.HEADER.replace("from __future__ import annotations\n", "")
        out = [h]
        if self.all is not None:
            out.append("__all__ = " + repr(self.all) + "\n")
        out += self.body
        return "\n".join(out) + "\n"


def gen_params(rng, dunder: bool = False, maxn: int = 6, method: str | None = None) -> tuple[str, list[dict]]:
    """random syntactically valid parameter list; returns (source text, structured list)"""
    names = list(KW)
    rng.shuffle(names)
    n_po = rng.choice([0, 0, 1, 2])
    n_pk = rng.choice([0, 1, 2, 3])
    has_va = rng.random() < 0.35
    n_ko = rng.choice([0, 0, 1, 2])
    has_kw = rng.random() < 0.35
    ps: list[dict] = []
    seen_default = False

    def mk(kind: str) -> dict:
        nonlocal seen_default
        nm = names.pop() if names else "z%d" % len(ps)
        if dunder and rng.random() < 0.5:
            nm = "__" + nm
        p: dict[str, Any] = {"name": nm, "kind": kind, "ann": None, "default": None}
        if kind in ("po", "pk"):
            if seen_default or rng.random() < 0.4:
                seen_default = True
                p["default"] = rng.choice(DEFAULT_FORMS)
        elif kind == "ko" and rng.random() < 0.5:
            p["default"] = rng.choice(DEFAULT_FORMS)
        if rng.random() < 0.5:
            if p["default"] is not None and p["default"][2] is not None and rng.random() < 0.7:
                p["ann"] = p["default"][2]
            elif p["default"] is None:
                p["ann"] = rng.choice(ANNOTS)
            else:
                p["ann"] = "Any" if rng.random() < 0.3 else "object"
        return p

    if method in ("self", "cls"):
        ps.append({"name": method, "kind": "po" if (n_po and rng.random() < 0.5) else "pk", "ann": None, "default": None})
        if ps[0]["kind"] == "pk":
            n_po = 0
    for _ in range(n_po):
        ps.append(mk("po"))
    for _ in range(n_pk):
        ps.append(mk("pk"))
    if has_va:
        ps.append(mk("va"))
    for _ in range(n_ko):
        ps.append(mk("ko"))
    if has_kw:
        ps.append(mk("kw"))
    return render_params(ps), ps


def render_params(ps: list[dict]) -> str:
    out = []
    prev = None
    for p in ps:
        if prev == "po" and p["kind"] != "po":
            out.append("/")
        if p["kind"] == "ko" and prev not in ("va", "ko"):
            out.append("*")
        s = {"va": "*", "kw": "**"}.get(p["kind"], "") + p["name"]
        if p["ann"]:
            s += ": " + p["ann"]
        if p["default"]:
            s += (" = " if p["ann"] else "=") + p["default"][1]
        out.append(s)
        prev = p["kind"]
    if prev == "po":
        out.append("/")
    return ", ".join(out)


def c_fn(m: Mod, rng) -> None:
    nm = m.fresh("fn", "fn")
    src, _ = gen_params(rng)
    ret = rng.choice(["", " -> int", " -> None", " -> list[str]", " -> 'Base'", " -> Optional[Base]"])
    body = "return None  # type: ignore" if ret else "pass"
    a = "async " if rng.random() < 0.15 else ""
    m.body.append(f"{a}def {nm}({src}){ret}:\n    {body}\n")


def c_fn_dunder(m: Mod, rng) -> None:
    nm = m.fresh("fn_dunder", "fd")
    src, _ = gen_params(rng, dunder=True)
    m.body.append(f"def {nm}({src}):\n    pass\n")


def c_fn_infer(m: Mod, rng) -> None:
    """unannotated functions whose return type stubgen infers / leaves out"""
    nm = m.fresh("fn_infer", "fi")
    body = rng.choice(["return 1", "return", "pass", "yield 1", "yield", "x = yield 1\n    return x", "return a", "raise NotImplementedError",
                       "if a:\n        return 1\n    return 's'", "return None", "yield from [1]", "return (yield)"])
    a = ""
    if "yield" not in body and rng.random() < 0.2:
        a = "async "
    if "yield" in body and "return x" not in body and "return (" not in body and "from" not in body and rng.random() < 0.3:
        a = "async "
    m.body.append(f"{a}def {nm}(a=None):\n    {body}\n")


def c_cls_methods(m: Mod, rng) -> None:
    nm = m.fresh("cls_methods", "Cm")
    L = [f"class {nm}{rng.choice(['', '(Base)', '(base.Base)', '(object)'])}:"]
    if rng.random() < 0.5:
        L.append(rng.choice(["    cv: int = 0", "    cv: ClassVar[int] = 0", "    cv: list[str] = []", "    cv: Optional[int] = None"]))
    if rng.random() < 0.4:
        L.append("    plain = 1")
    if rng.random() < 0.3:
        L.append("    __slots__ = ('s1', 's2')") if "cv" not in "".join(L) and "plain" not in "".join(L) else None
    src, _ = gen_params(rng, method="self")
    L.append(f"    def __init__({src}) -> None:\n        self.attr = 1\n        self.other: str = 's'")
    for k in range(rng.randint(1, 3)):
        src, _ = gen_params(rng, method="self")
        ret = rng.choice(["", " -> int", " -> None", f" -> '{nm}'", f" -> {nm}" if False else " -> str"])
        L.append(f"    def meth{k}({src}){ret}:\n        return None  # type: ignore")
    if rng.random() < 0.7:
        ann = rng.choice(["", " -> int"])
        L.append(f"    @property\n    def prop(self){ann}:\n        return 1")
        if rng.random() < 0.6:
            L.append(f"    @prop.setter\n    def prop(self, value{': int' if ann else ''}){' -> None' if ann else ''}:\n        pass")
        if rng.random() < 0.3:
            L.append("    @prop.deleter\n    def prop(self):\n        pass")
    if rng.random() < 0.6:
        src, _ = gen_params(rng, maxn=3)
        L.append(f"    @staticmethod\n    def smeth({src}){rng.choice(['', ' -> int'])}:\n        return 1")
    if rng.random() < 0.6:
        src, _ = gen_params(rng, method="cls")
        L.append(f"    @classmethod\n    def cmeth({src}){rng.choice(['', ' -> int'])}:\n        return 1")
    if rng.random() < 0.3:
        L.append("    @functools.cached_property\n    def cprop(self) -> int:\n        return 1")
    if rng.random() < 0.4:
        dm = rng.choice(["__eq__(self, other)", "__add__(self, other: int) -> int", "__len__(self)", "__getitem__(self, i: int) -> int",
                         "__iter__(self)", "__enter__(self)", "__exit__(self, a, b, c)", "__bool__(self)", "__call__(self, *a, **k)",
                         "__hash__(self)", "__contains__(self, x)", "__lt__(self, o)", "__setattr__(self, n, v)"])
        L.append(f"    def {dm}:\n        return NotImplemented  # type: ignore")
    if rng.random() < 0.3:
        L.append("    class Inner:\n        iv: int = 1\n        def im(self, q: int = 2) -> int:\n            return q")
    if rng.random() < 0.2:
        L.append("    _private_attr = 1\n    def _private_meth(self): pass")
    m.body.append("\n".join(x for x in L if x) + "\n")


def c_cls_abstract(m: Mod, rng) -> None:
    nm = m.fresh("cls_abstract", "Ab")
    base = rng.choice(["abc.ABC", "metaclass=abc.ABCMeta"])
    L = [f"class {nm}({base}):"]
    L.append(f"    @abc.abstractmethod\n    def am(self, x: int){rng.choice(['', ' -> int'])}:\n        ...")
    if rng.random() < 0.6:
        L.append(f"    @property\n    @abc.abstractmethod\n    def ap(self){rng.choice(['', ' -> int'])}:\n        ...")
    if rng.random() < 0.4:
        L.append("    @classmethod\n    @abc.abstractmethod\n    def ac(cls) -> int:\n        ...")
    if rng.random() < 0.4:
        L.append("    @staticmethod\n    @abc.abstractmethod\n    def asm(v=1):\n        ...")
    L.append("    def concrete(self):\n        return 1")
    m.body.append("\n".join(L) + "\n")


def c_dataclass(m: Mod, rng) -> None:
    nm = m.fresh("dataclass", "Dc")
    opts = [o for o in ["frozen=True", "order=True", "kw_only=True", "slots=True", "eq=False", "init=False", "repr=False"] if rng.random() < 0.2]
    if "order=True" in opts and "eq=False" in opts:
        opts.remove("eq=False")
    deco = rng.choice(["dataclass", "dataclasses.dataclass"])
    if opts or rng.random() < 0.3:
        deco += "(" + ", ".join(opts) + ")"
    L = [f"@{deco}", f"class {nm}:"]
    L.append("    a: int")
    if rng.random() < 0.5:
        L.append("    b: str = 'x'")
    if rng.random() < 0.4:
        L.append("    c: list[int] = field(default_factory=list)")
    if rng.random() < 0.3:
        L.append("    d: int = dataclasses.field(default=3, repr=False)")
    if rng.random() < 0.3:
        L.append("    cv: ClassVar[int] = 0")
    if rng.random() < 0.2 and "init=False" not in deco and "slots" not in deco:
        L.append("    iv: InitVar[int] = 0\n    def __post_init__(self, iv: int) -> None:\n        pass")
    if rng.random() < 0.2 and "kw_only" not in deco:
        L.append("    _: dataclasses.KW_ONLY\n    k: int = 0")
    if rng.random() < 0.4:
        L.append("    def meth(self, q: int = 1) -> int:\n        return q")
    m.body.append("\n".join(L) + "\n")


def c_enum(m: Mod, rng) -> None:
    nm = m.fresh("enum", "En")
    base = rng.choice(["enum.Enum", "enum.IntEnum", "enum.Flag", "enum.IntFlag", "enum.StrEnum", "str, enum.Enum"])
    L = [f"class {nm}({base}):"]
    if "Str" in base or "str" in base:
        L += ["    A = 'a'", "    B = 'b'"]
    elif rng.random() < 0.4:
        L += ["    A = enum.auto()", "    B = enum.auto()"]
    else:
        L += ["    A = 1", "    B = 2"]
        if rng.random() < 0.3:
            L.append("    C = A")
    if rng.random() < 0.4:
        L.append("    def describe(self) -> str:\n        return self.name")
    if rng.random() < 0.3:
        L.append("    @property\n    def lowered(self) -> str:\n        return self.name.lower()")
    if rng.random() < 0.2:
        L.append("    @classmethod\n    def first(cls):\n        return cls.A")
    m.body.append("\n".join(L) + "\n")
    if rng.random() < 0.3:
        fn = m.fresh("enum", "fe")
        m.body.append(f"def {fn}(c: {nm} = {nm}.A) -> {nm}:\n    return c\n")


def c_namedtuple(m: Mod, rng) -> None:
    form = rng.choice(["class", "class", "func", "coll", "collstr"])
    if form == "class":
        nm = m.fresh("namedtuple", "Nt")
        L = [f"class {nm}(NamedTuple):", "    x: int"]
        if rng.random() < 0.5:
            L.append("    y: str = 'd'")
        if rng.random() < 0.4:
            L.append("    def total(self) -> int:\n        return self.x")
        if rng.random() < 0.3:
            L.append("    @property\n    def px(self):\n        return self.x")
        m.body.append("\n".join(L) + "\n")
    elif form == "func":
        nm = m.fresh("namedtuple_func", "Nf")
        m.body.append(f"{nm} = NamedTuple('{nm}', [('x', int), ('y', 'str')])\n")
    elif form == "coll":
        nm = m.fresh("namedtuple_func", "Nc")
        m.body.append(f"{nm} = collections.namedtuple('{nm}', ['x', 'y']{rng.choice(['', ', defaults=[1]'])})\n")
    else:
        nm = m.fresh("namedtuple_func", "Ns")
        m.body.append(f"{nm} = collections.namedtuple('{nm}', 'x y')\n")
    if rng.random() < 0.3:
        sub = m.fresh("namedtuple", "NtSub")
        m.body.append(f"class {sub}({nm}):\n    def extra(self) -> int:\n        return 1\n")


def c_typeddict(m: Mod, rng) -> None:
    form = rng.choice(["class", "class", "func", "funckw"])
    if form == "class":
        nm = m.fresh("typeddict", "Td")
        tot = rng.choice(["", ", total=False"])
        L = [f"class {nm}(TypedDict{tot}):", "    x: int"]
        if rng.random() < 0.5:
            L.append("    y: Required[str]" if tot else "    y: NotRequired[str]")
        if rng.random() < 0.3:
            L.append("    z: 'Base'")
        m.body.append("\n".join(L) + "\n")
        if rng.random() < 0.3:
            sub = m.fresh("typeddict", "TdSub")
            m.body.append(f"class {sub}({nm}):\n    w: list[int]\n")
    elif form == "func":
        nm = m.fresh("typeddict_func", "Tf")
        keys = rng.choice(["{'x': int, 'y': str}", "{'x': int, 'not-ident': str}", "{'x': int, 'class': str}"])
        m.body.append(f"{nm} = TypedDict('{nm}', {keys}{rng.choice(['', ', total=False'])})\n")
    else:
        nm = m.fresh("typeddict_func", "Tk")
        m.body.append(f"{nm} = TypedDict('{nm}', {{'x': int}})\n")


def c_overload(m: Mod, rng) -> None:
    if rng.random() < 0.6:
        nm = m.fresh("overload", "ov")
        m.body.append(f"@overload\ndef {nm}(x: int) -> int: ...\n@overload\ndef {nm}(x: str, y: int = ...) -> str: ...\n"
                      f"def {nm}(x, y=0):\n    return x\n")
    else:
        nm = m.fresh("overload", "Ov")
        deco = rng.choice(["overload", "typing.overload", "t.overload"])
        kind = rng.choice(["", "    @staticmethod\n", "    @classmethod\n"])
        first = {"": "self, ", "    @staticmethod\n": "", "    @classmethod\n": "cls, "}[kind]
        m.body.append(f"class {nm}:\n    @{deco}\n{kind}    def m({first}x: int) -> int: ...\n    @{deco}\n{kind}    def m({first}x: str) -> str: ...\n"
                      f"{kind}    def m({first}x):\n        return x\n")


def c_generic_old(m: Mod, rng) -> None:
    tv = m.fresh("generic_old", "T")
    form = rng.choice([f"TypeVar('{tv}')", f"TypeVar('{tv}', bound=Base)", f"TypeVar('{tv}', int, str)", f"TypeVar('{tv}', covariant=True)",
                       f"typing.TypeVar('{tv}')"])
    m.body.append(f"{tv} = {form}\n")
    cov = "covariant" in form
    k = rng.choice(["fn", "cls", "proto", "pspec"])
    if k == "fn" and not cov:
        nm = m.fresh("generic_old", "gf")
        m.body.append(f"def {nm}(x: {tv}, ys: Sequence[{tv}] = ()) -> {tv}:\n    return x\n")
    elif k == "cls" or (k == "fn" and cov):
        nm = m.fresh("generic_old", "Gc")
        arg = "" if cov else f", v: {tv}"
        m.body.append(f"class {nm}(Generic[{tv}]):\n    def __init__(self{arg}) -> None:\n        pass\n    def get(self) -> {tv}:\n        raise KeyError\n")
        if rng.random() < 0.4:
            sub = m.fresh("generic_old", "GcSub")
            m.body.append(f"class {sub}({nm}[{'Base' if 'bound=Base' in form else 'int'}]):\n    pass\n")
    elif k == "proto":
        nm = m.fresh("generic_old", "Pr")
        par = f"[{tv}]" if cov else ""
        m.body.append(f"class {nm}(Protocol{par}):\n    pa: int\n    def pm(self, x: int) -> str: ...\n")
    else:
        ps = m.fresh("generic_old", "P")
        nm = m.fresh("generic_old", "gp")
        m.body.append(f"{ps} = ParamSpec('{ps}')\ndef {nm}(f: Callable[{ps}, int]) -> Callable[{ps}, str]:\n    return f  # type: ignore\n")


def c_generic_695(m: Mod, rng) -> None:
    k = rng.choice(["fn", "cls", "type", "fnbound", "clsmulti", "pspec"])
    if k == "fn":
        nm = m.fresh("generic_695", "pf")
        m.body.append(f"def {nm}[T](x: T, y: list[T] | None = None) -> T:\n    return x\n")
    elif k == "fnbound":
        nm = m.fresh("generic_695", "pb")
        m.body.append(f"def {nm}[T: Base, S: (int, str)](x: T, s: S) -> tuple[T, S]:\n    return (x, s)\n")
    elif k == "cls":
        nm = m.fresh("generic_695", "Pc")
        m.body.append(f"class {nm}[T]:\n    def __init__(self, v: T) -> None:\n        self.v = v\n    def get(self) -> T:\n        return self.v\n")
    elif k == "clsmulti":
        nm = m.fresh("generic_695", "Pm")
        m.body.append(f"class {nm}[T, *Ts, **P](Base):\n    def call(self, f: Callable[P, T], *a: *Ts) -> T:\n        raise KeyError\n")
    elif k == "pspec":
        nm = m.fresh("generic_695", "pp")
        m.body.append(f"def {nm}[**P, R](f: Callable[P, R]) -> Callable[P, R]:\n    return f\n")
    else:
        nm = m.fresh("generic_695", "Pa")
        m.body.append(f"type {nm}{rng.choice(['', '[T]', '[T: int]'])} = {rng.choice(['list[int]', 'dict[str, Base]', 'int | None'])}\n".replace(
            "list[int]", "list[int]"))


def c_alias(m: Mod, rng) -> None:
    nm = m.fresh("alias", "Al")
    rhs = rng.choice(["list[int]", "dict[str, Base]", "Optional[int]", "Union[int, str]", "Callable[[int], str]", "int | None", "tuple[int, ...]",
                      "Base", "base.Base", "typing.List[int]", "t.Dict[str, int]", "BaseAlias", "Literal['x']", "collections.abc.Iterable[int]"])
    form = rng.choice(["plain", "plain", "explicit", "texplicit"])
    if form == "plain":
        m.body.append(f"{nm} = {rhs}\n")
    elif form == "explicit":
        m.body.append(f"{nm}: TypeAlias = {rhs}\n")
    else:
        m.body.append(f"{nm}: typing.TypeAlias = {rhs!r}\n")
    if rng.random() < 0.5:
        fn = m.fresh("alias", "fa")
        m.body.append(f"def {fn}(x: {nm}) -> {nm}:\n    return x\n")


def c_var(m: Mod, rng) -> None:
    nm = m.fresh("var", "v")
    form = rng.choice([f"{nm}: int = 1", f"{nm}: list[str] = []", f"{nm}: Optional[Base] = None", f"{nm} = 1", f"{nm} = 's'", f"{nm} = None",
                       f"{nm}: Final = 3", f"{nm}: Final[int] = 3", f"{nm}: 'Base'", f"{nm} = [1, 2]", f"{nm} = Base()", f"{nm}: Callable[..., Any] = print",
                       f"{nm}: dict[str, 'Base'] = {{}}", f"{nm}: t.List[int] = []", f"{nm} = {nm}_b = 2", f"{nm}, {nm}_c = 1, 's'", f"{nm} = -5",
                       f"{nm} = 1.5", f"{nm} = b'q'", f"{nm} = (1, 2)", f"{nm} = {{'a': 1}}", f"{nm} = lambda q: q", f"{nm}: tuple[int, str] = (1, 'a')",
                       f"{nm} = True", f"{nm}: ClassVar[int] = 1" if False else f"{nm}: typing.Any = 0", f"{nm} = os.sep", f"{nm} = BASE_K"])
    for extra in re.findall(rf"\b{nm}_\w+", form):
        m.families[extra] = "var"
    m.body.append(form + "\n")


def c_deco(m: Mod, rng) -> None:
    nm = m.fresh("deco", "de")
    k = rng.choice(["cache", "ctx", "wraps", "custom", "lru", "single", "actx"])
    if k == "cache":
        m.body.append(f"@functools.cache\ndef {nm}(x: int) -> int:\n    return x\n")
    elif k == "lru":
        m.body.append(f"@functools.lru_cache(maxsize=None)\ndef {nm}(x: int = 2) -> int:\n    return x\n")
    elif k == "ctx":
        m.body.append(f"@contextlib.contextmanager\ndef {nm}(x: int) -> Iterator[int]:\n    yield x\n")
    elif k == "actx":
        m.body.append(f"@contextlib.asynccontextmanager\nasync def {nm}(x: int) -> AsyncIterator[int]:\n    yield x\n")
    elif k == "wraps":
        d = m.fresh("deco", "dw")
        m.body.append(f"def {d}(f):\n    @functools.wraps(f)\n    def inner(*a, **k):\n        return f(*a, **k)\n    return inner\n"
                      f"@{d}\ndef {nm}(x: int, *, y: str = 'a') -> int:\n    return x\n")
    elif k == "single":
        m.body.append(f"@functools.singledispatch\ndef {nm}(x) -> str:\n    return ''\n@{nm}.register\ndef _(x: int) -> str:\n    return 'i'\n")
    else:
        d = m.fresh("deco", "dc")
        m.body.append(f"def {d}(f: Callable[..., int]) -> Callable[..., int]:\n    return f\n@{d}\ndef {nm}(x: int) -> int:\n    return x\n")


def c_cond(m: Mod, rng) -> None:
    nm = m.fresh("cond", "co")
    k = rng.choice(["version", "version_else", "tc", "try", "platform", "ifelse_cls"])
    if k == "version":
        m.body.append(f"if sys.version_info >= (3, 8):\n    def {nm}(x: int) -> int:\n        return x\n")
    elif k == "version_else":
        m.body.append(f"if sys.version_info >= (3, 9):\n    def {nm}(x: int) -> int:\n        return x\nelse:\n    def {nm}(x: int, y: int = 0) -> int:\n        return x\n")
    elif k == "tc":
        m.body.append(f"if TYPE_CHECKING:\n    from ..sub.leaf import Leaf\ndef {nm}(x: 'Leaf') -> 'Leaf':\n    return x\n")
    elif k == "try":
        m.body.append(f"try:\n    import json as {nm}_j\nexcept ImportError:\n    {nm}_j = None  # type: ignore\ndef {nm}(x: int = 1) -> int:\n    return x\n")
    elif k == "platform":
        m.body.append(f"if sys.platform != 'win32':\n    def {nm}(x: int) -> int:\n        return x\nelse:\n    {nm} = None  # type: ignore\n")
    else:
        m.body.append(f"if DEF_K:\n    class {nm}:\n        a: int = 1\nelse:\n    class {nm}:  # type: ignore\n        a: int = 2\n")


def c_nested(m: Mod, rng) -> None:
    nm = m.fresh("nested", "ne")
    k = rng.choice(["fn_in_fn", "cls_in_fn", "cls_in_cls", "deep"])
    if k == "fn_in_fn":
        m.body.append(f"def {nm}(x: int) -> Callable[[int], int]:\n    def inner(y: int) -> int:\n        return x + y\n    return inner\n")
    elif k == "cls_in_fn":
        m.body.append(f"def {nm}(x: int = 0):\n    class Local:\n        v = x\n    return Local()\n")
    elif k == "cls_in_cls":
        m.body.append(f"class {nm}:\n    class In1:\n        z: int = 0\n        class In2:\n            def f(self, q: 'In1') -> None: pass\n    def use(self, a: In1) -> In1.In2:\n        return self.In1.In2()\n".replace("'In1'", "Any"))
    else:
        m.body.append(f"class {nm}:\n    def outer(self, v: int = 1) -> int:\n        def helper() -> int:\n            return v\n        return helper()\n")


def c_relimport(m: Mod, rng) -> None:
    nm = m.fresh("relimport", "ri")
    k = rng.choice(["base_cls", "mod_attr", "leaf", "alias", "fn"])
    if k == "base_cls":
        m.body.append(f"class {nm}(Base, Other):\n    def get(self) -> Base:\n        return self\n")
    elif k == "mod_attr":
        m.body.append(f"def {nm}(x: base.Base, y: base.Other | None = None) -> base.Base:\n    return x\n")
    elif k == "leaf":
        m.body.append(f"from ..sub.leaf import Leaf as {nm}_LA\ndef {nm}(x: {nm}_LA) -> list[{nm}_LA]:\n    return [x]\n")
        m.families[f"{nm}_LA"] = "relimport"
    elif k == "alias":
        m.body.append(f"def {nm}(x: BaseAlias = []) -> BaseAlias:\n    return x\n")
    else:
        m.body.append(f"{nm} = base.base_fn\n")


def c_import_use(m: Mod, rng) -> None:
    nm = m.fresh("import_use", "iu")
    k = rng.choice(["default_attr", "ann_qualified", "ann_alias", "base_qualified", "reexport"])
    if k == "default_attr":
        m.body.append(f"def {nm}(sep=os.sep, mode=os.O_RDONLY, e=enum.Enum):\n    pass\n")
    elif k == "ann_qualified":
        m.body.append(f"def {nm}(x: collections.OrderedDict[str, int], y: collections.abc.Mapping[str, int]) -> typing.Optional[int]:\n    return None\n")
    elif k == "ann_alias":
        m.body.append(f"def {nm}(x: t.Optional[int] = None) -> t.Sequence[int]:\n    return []\n")
    elif k == "base_qualified":
        m.body.append(f"class {nm}(collections.OrderedDict):\n    pass\n")
    else:
        m.body.append(f"import os.path as {nm}_osp\nfrom collections import OrderedDict as {nm}_OD\ndef {nm}(x: {nm}_OD) -> {nm}_OD:\n    return x\n")


CONSTRUCTS: dict[str, Callable[[Mod, Any], None]] = {
    "fn": c_fn, "fn_dunder": c_fn_dunder, "fn_infer": c_fn_infer, "cls_methods": c_cls_methods, "cls_abstract": c_cls_abstract,
    "dataclass": c_dataclass, "enum": c_enum, "namedtuple": c_namedtuple, "typeddict": c_typeddict, "overload": c_overload,
    "generic_old": c_generic_old, "generic_695": c_generic_695, "alias": c_alias, "var": c_var, "deco": c_deco, "cond": c_cond,
    "nested": c_nested, "relimport": c_relimport, "import_use": c_import_use,
}


def gen_module(rng, name: str, fams: list[str], with_all: bool) -> Mod:
    m = Mod(name)
    for f in fams:
        CONSTRUCTS[f](m, rng)
    if with_all:
        pub = [n for n in m.families if not n.startswith("_")]
        rng.shuffle(pub)
        keep = pub[: max(1, (len(pub) * 2) // 3)]
        m.all = sorted(keep) + (["Base"] if rng.random() < 0.5 else [])
    return m


# =====================================================================================
# structural faithfulness (iv): source AST vs stub AST
# =====================================================================================

_LOWER = {"List": "list", "Dict": "dict", "Tuple": "tuple", "Set": "set", "Type": "type", "FrozenSet": "frozenset"}


def _union_members(node: ast.AST) -> list[str] | None:
    """members (normalised, flattened) if `node` is a union in any spelling, else None"""
    if isinstance(node, ast.Constant) and isinstance(node.value, str):
        try:
            return _union_members(ast.parse(node.value, mode="eval").body)
        except SyntaxError:
            return None
    parts: list[ast.AST] | None = None
    extra: list[str] = []
    if isinstance(node, ast.BinOp) and isinstance(node.op, ast.BitOr):
        parts = [node.left, node.right]
    elif isinstance(node, ast.Subscript):
        head = _norm_ann(node.value)
        sl = node.slice
        elts = list(sl.elts) if isinstance(sl, ast.Tuple) else [sl]
        if head == "Union":
            parts = elts
        elif head == "Optional" and len(elts) == 1:
            parts, extra = elts, ["None"]
    if parts is None:
        return None
    out: list[str] = list(extra)
    for p in parts:
        sub = _union_members(p)
        out += sub if sub is not None else [_norm_ann(p)]
    return out


def _norm_ann(node: ast.AST | None, in_literal: bool = False) -> str:
    """canonical text of an annotation: unquoted, unqualified, unions flattened and sorted, typing.List == list"""
    if node is None:
        return ""
    if isinstance(node, ast.Constant) and isinstance(node.value, str) and not in_literal:
        try:
            return _norm_ann(ast.parse(node.value, mode="eval").body)
        except SyntaxError:
            return repr(node.value)
    if isinstance(node, ast.Constant):
        return "None" if node.value is None else repr(node.value)
    if isinstance(node, ast.Name):
        return _LOWER.get(node.id, node.id)
    if isinstance(node, ast.Attribute):
        return _LOWER.get(node.attr, node.attr)
    um = _union_members(node)
    if um is not None:
        ms = sorted(set(um))
        return ms[0] if len(ms) == 1 else "Union[" + " | ".join(ms) + "]"
    if isinstance(node, ast.Subscript):
        head = _norm_ann(node.value)
        sl = node.slice
        elts = list(sl.elts) if isinstance(sl, ast.Tuple) else [sl]
        return head + "[" + ", ".join(_norm_ann(e, head == "Literal") for e in elts) + "]"
    if isinstance(node, (ast.List, ast.Tuple)):
        return "[" + ", ".join(_norm_ann(e) for e in node.elts) + "]"
    if isinstance(node, ast.Starred):
        return "*" + _norm_ann(node.value)
    return ast.unparse(node)


def _bodies(stmts: list[ast.stmt], cond: bool = False):
    """statements of a block, descending into if/else/try at the same scope (those get _c19_cond = True)"""
    for s in stmts:
        if isinstance(s, ast.If):
            yield from _bodies(s.body, True)
            yield from _bodies(s.orelse, True)
        elif isinstance(s, ast.Try):
            yield from _bodies(s.body, True)
            for h in s.handlers:
                yield from _bodies(h.body, True)
            yield from _bodies(s.orelse, True)
        else:
            s._c19_cond = cond  # type: ignore[attr-defined]
            yield s


def _fn_anns(f: ast.FunctionDef | ast.AsyncFunctionDef) -> dict[str, str]:
    a = f.args
    d = {}
    for p in a.posonlyargs + a.args + a.kwonlyargs + ([a.vararg] if a.vararg else []) + ([a.kwarg] if a.kwarg else []):
        if p.annotation is not None:
            d[p.arg] = _norm_ann(p.annotation)
    if f.returns is not None:
        d["return"] = _norm_ann(f.returns)
    return d


def _is_public(name: str) -> bool:
    return not name.startswith("_") or (name.startswith("__") and name.endswith("__"))


def _bindings(stmts: list[ast.stmt]) -> dict[str, list[ast.stmt]]:
    out: dict[str, list[ast.stmt]] = {}
    for s in _bodies(stmts):
        names: list[str] = []
        if isinstance(s, (ast.FunctionDef, ast.AsyncFunctionDef, ast.ClassDef)):
            names = [s.name]
        elif isinstance(s, ast.AnnAssign) and isinstance(s.target, ast.Name):
            names = [s.target.id]
        elif isinstance(s, ast.Assign):
            for t in s.targets:
                for n in ast.walk(t):
                    if isinstance(n, ast.Name):
                        names.append(n.id)
        elif isinstance(s, (ast.Import, ast.ImportFrom)):
            names = [(a.asname or a.name).split(".")[0] for a in s.names]
        elif hasattr(ast, "TypeAlias") and isinstance(s, ast.TypeAlias) and isinstance(s.name, ast.Name):
            names = [s.name.id]
        for n in names:
            out.setdefault(n, []).append(s)
    return out


IGNORED_DUNDERS = {"__all__", "__str__", "__repr__", "__getstate__", "__setstate__", "__slots__", "__post_init__"}


def structural(src: str, stub: str, all_names: list[str] | None) -> list[tuple[str, str]]:
    """[(top-level name, what is wrong)] — every public def/class/method/annotated variable of the source must be
    bound in the stub, with every annotation the source spelled out (compared modulo _norm_ann)."""
    st, bt = ast.parse(src), ast.parse(stub)
    problems: list[tuple[str, str]] = []

    def cmp_block(sstmts: list[ast.stmt], bstmts: list[ast.stmt], top: str | None, path: str, toplevel: bool) -> None:
        sb, bb = _bindings(sstmts), _bindings(bstmts)
        for name, defs in sb.items():
            if toplevel:
                if name in ("DEF_K",):
                    continue
                if all_names is not None and name not in all_names:
                    continue
                if all_names is None and name.startswith("_"):
                    continue
            elif not _is_public(name) or name in IGNORED_DUNDERS:
                continue
            t = top or name
            kinds = {type(d) for d in defs}
            if kinds & {ast.Import, ast.ImportFrom} or (kinds <= {ast.Assign} and not toplevel):
                continue
            if kinds <= {ast.Assign}:
                # un-annotated variable: only presence is not required by the property text ("annotated variable")
                continue
            if name not in bb:
                problems.append((t, f"{path}{name}: missing from stub"))
                continue
            # alternative definitions under if/else/try: the stub may keep only the reachable one
            alternatives = len(defs) > 1 and all(getattr(d, "_c19_cond", False) for d in defs)
            n_before = len(problems)
            n_ok = 0
            for d in defs:
                n_d = len(problems)
                if isinstance(d, (ast.FunctionDef, ast.AsyncFunctionDef)):
                    want = _fn_anns(d)
                    if not want:
                        continue
                    cands = [x for x in bb[name] if isinstance(x, (ast.FunctionDef, ast.AsyncFunctionDef))]
                    if not cands:
                        problems.append((t, f"{path}{name}: function annotations lost (stub binds it as {type(bb[name][0]).__name__})"))
                        continue
                    best = None
                    for c in cands:
                        got = _fn_anns(c)
                        miss = sorted(k for k, v in want.items() if got.get(k) != v)
                        if best is None or len(miss) < len(best):
                            best = miss
                            bgot = got
                    if best:
                        k = best[0]
                        problems.append((t, f"{path}{name}: annotation of {'return' if k == 'return' else 'parameter'} differs: source `{want[k]}` stub `{bgot.get(k, '<none>')}`"))
                elif isinstance(d, ast.ClassDef):
                    cands = [x for x in bb[name] if isinstance(x, ast.ClassDef)]
                    if not cands:
                        problems.append((t, f"{path}{name}: class lost (stub binds it as {type(bb[name][0]).__name__})"))
                        continue
                    cmp_block(d.body, [s for c in cands for s in c.body], t, f"{path}{name}.", False)
                elif isinstance(d, ast.AnnAssign):
                    want = _norm_ann(d.annotation)
                    cands = [x for x in bb[name] if isinstance(x, ast.AnnAssign)]
                    if not cands:
                        problems.append((t, f"{path}{name}: variable annotation lost (stub binds it as {type(bb[name][0]).__name__})"))
                    elif want in ("Final", "ClassVar") and any(_norm_ann(c.annotation).startswith(want + "[") for c in cands):
                        pass    # the stub may refine a bare Final / ClassVar with the inferred type
                    elif all(_norm_ann(c.annotation) != want for c in cands):
                        problems.append((t, f"{path}{name}: variable annotation differs: source `{want}` stub `{_norm_ann(cands[0].annotation)}`"))
                n_ok += len(problems) == n_d
            if alternatives and n_ok:
                del problems[n_before:]

    cmp_block(st.body, bt.body, None, "", True)
    return problems


# =====================================================================================
# running the tools
# =====================================================================================

def msgclass(s: str) -> str:
    s = re.sub(r"pk\.gen\.m\d+\.?", "", s)
    s = re.sub(r"pk(\.\w+)*\.?", "", s)
    s = re.sub(r'"[^"]*"', '"_"', s)
    s = re.sub(r"`[^`]*`", "`_`", s)
    s = re.sub(r"'[^']*'", "'_'", s)
    s = re.sub(r"\b[A-Za-z]+\d+(_\w+)?\b", "X", s)
    s = re.sub(r"\d+", "N", s)
    return re.sub(r"\s+", " ", s).strip()[:160]


def write_tree(root: str, mods: list[Mod], future: dict[str, bool]) -> None:
    src = os.path.join(root, "src")
    for d in ("pk", "pk/sub", "pk/gen"):
        os.makedirs(os.path.join(src, d), exist_ok=True)
        open(os.path.join(src, d, "__init__.py"), "w").close()
    open(os.path.join(src, "pk/base.py"), "w").write(BASE_PY)
    open(os.path.join(src, "pk/sub/leaf.py"), "w").write(LEAF_PY)
    for m in mods:
        open(os.path.join(src, "pk/gen", m.name + ".py"), "w").write(m.source(future[m.name]))


def stub_top_name(tree: ast.Module, line: int) -> str | None:
    for s in tree.body:
        start = min([s.lineno] + [d.lineno for d in getattr(s, "decorator_list", [])])
        if start <= line <= (s.end_lineno or s.lineno):
            if isinstance(s, (ast.Import, ast.ImportFrom)):
                return "<import>"
            if isinstance(s, (ast.FunctionDef, ast.AsyncFunctionDef, ast.ClassDef)):
                return s.name
            if isinstance(s, ast.AnnAssign) and isinstance(s.target, ast.Name):
                return s.target.id
            for n in ast.walk(s):
                if isinstance(n, (ast.FunctionDef, ast.AsyncFunctionDef, ast.ClassDef)):
                    return n.name
                if isinstance(n, ast.Name):
                    return n.id
            return None
    return None


def infra_failure(st: int, out: str) -> bool:
    """the tool did not run to completion for reasons outside stubgen/mypy (killed, timed out, overloaded machine)"""
    return st < 0 or st in (124, 137, 143) or "Timeout waiting for subprocess" in out or "MemoryError" in out


def tool(vlib, cmd: list[str], cwd: str, env: dict[str, str], timeout: float, clean: str | None = None) -> tuple[int, str, bool]:
    for attempt in range(3):
        if clean:
            shutil.rmtree(clean, ignore_errors=True)
        st, o = vlib.sh(cmd, cwd=cwd, env=env, timeout=timeout)
        if not infra_failure(st, o):
            return st, o, False
        time.sleep(2 + 5 * attempt)
    return st, o, True


def run_shard(vlib, root: str, mods: list[Mod], future: dict[str, bool], mode: str, repo: str) -> dict[str, Any]:
    """all four checks of one shard in one mode.  returns {'findings': [...], 'counts': {...}}"""
    env = vlib.py_env({"PYTHONPATH": repo})
    src = os.path.join(root, "src")
    out = os.path.join(root, "out_" + mode)
    res: dict[str, Any] = {"findings": [], "counts": {}, "log": []}
    cnt = res["counts"]

    def found(check: str, m: Mod, top: str | None, msg: str) -> None:
        fam = "imports" if top == "<import>" else m.families.get(top or "", "header" if top == "DEF_K" else m.default_family)
        res["findings"].append({"check": check, "mode": mode, "family": fam, "msgclass": msgclass(msg), "msg": msg[:400],
                                "module": m.name, "top": top})

    st, o, infra = tool(vlib, [vlib.PY, "-m", "mypy.stubgen", *MODES[mode], "--ignore-errors", "-p", "pk", "-o", out], src, env, 900, clean=out)
    if infra:
        res["infra"] = f"stubgen {mode}: status {st}: {o[-200:]}"
        return res
    if st != 0:
        res["log"].append(f"stubgen {mode} exit {st}: {o[-1500:]}")
    failed = set(re.findall(r"Stub generation failed for pk\.gen\.(\w+)", o))
    good: list[Mod] = []
    trees: dict[str, ast.Module] = {}
    stubs: dict[str, str] = {}
    for m in mods:
        p = os.path.join(out, "pk/gen", m.name + ".pyi")
        cnt["modules"] = cnt.get("modules", 0) + 1
        if not os.path.exists(p):
            em = re.search(rf"(?s)pk\.gen\.{m.name}\b.*?\n(\S.*?)\n", o)
            found("stubgen", m, None, "no stub emitted: " + (o[-300:] if m.name in failed or st != 0 else "missing"))
            continue
        txt = open(p).read()
        stubs[m.name] = txt
        # (i) syntax
        try:
            trees[m.name] = ast.parse(txt)
        except SyntaxError as e:
            line = (e.text or "").strip()
            nm = re.match(r"(?:async\s+)?(?:def|class)\s+(\w+)", line)
            found("ast", m, nm.group(1) if nm else None, f"stub is not valid Python: {e.msg}: {line}")
            os.remove(p)
            continue
        good.append(m)
    cnt["stubs_parsed"] = len(good)
    # (iv) structure
    for m in good:
        for top, what in structural(m.source(future[m.name]), stubs[m.name], m.all):
            found("struct", m, top, what)
    # (ii) mypy on the stubs alone
    st, o, infra = tool(vlib, [vlib.PY, "-m", "mypy", "--cache-dir=" + os.devnull, "--no-error-summary", "--hide-error-context", "--no-color-output",
                               "--show-error-codes", "-p", "pk"], out, env, 900)
    if infra or st not in (0, 1):
        res["infra"] = f"mypy on stubs {mode}: status {st}: {o[-300:]}"
        return res
    bad_mypy: set[str] = set()
    by_name = {m.name: m for m in mods}
    for ln in o.splitlines():
        mm = re.match(r"pk/gen/(\w+)\.pyi:(\d+): error: (.*)$", ln)
        if mm and mm.group(1) in by_name and mm.group(1) in trees:
            m = by_name[mm.group(1)]
            bad_mypy.add(m.name)
            found("mypy", m, stub_top_name(trees[m.name], int(mm.group(2))), "mypy on the stub: " + mm.group(3))
        elif re.match(r"pk/(base|sub/leaf|__init__|gen/__init__)\.pyi:\d+: error:", ln):
            res["log"].append("helper stub error: " + ln)
            res["findings"].append({"check": "mypy", "mode": mode, "family": "helper", "msgclass": msgclass(ln), "msg": ln, "module": "base", "top": None})
    if st not in (0, 1):
        res["log"].append(f"mypy {mode} exit {st}: {o[-1500:]}")
    # (iii) stubtest on stubs that type-check
    todo = [m for m in good if m.name not in bad_mypy]
    cnt["stubtest_modules"] = len(todo)

    def stubtest(ms: list[Mod]) -> tuple[int, str]:
        e2 = dict(env)
        e2["MYPYPATH"] = out
        st, o, infra = tool(vlib, [vlib.PY, "-m", "mypy.stubtest", "--concise", *["pk.gen." + m.name for m in ms]], src, e2, 900)
        return (-1 if infra else st), o

    def handle(ms: list[Mod], o: str) -> None:
        for ln in o.splitlines():
            mm = re.match(r"pk\.gen\.(\w+)(?:\.(\w+))?(\S*) (.*)$", ln)
            if mm and mm.group(1) in by_name:
                found("stubtest", by_name[mm.group(1)], mm.group(2), f"stubtest: {mm.group(2) or ''}{mm.group(3)} {mm.group(4)}")
                res["findings"][-1]["obj"] = f"{mm.group(1)}.{mm.group(2) or ''}{mm.group(3)} {mm.group(4)}"

    # batch run; modules whose stub does not build under stubtest are reported, removed, and the batch is re-run
    rounds = 0
    while todo and rounds < 4:
        rounds += 1
        st, o = stubtest(todo)
        if st == -1:
            res["infra"] = f"stubtest {mode}: {o[-200:]}"
            break
        if "not checking stubs due to mypy build errors" in o or st not in (0, 1):
            offenders: dict[str, str] = {}
            for l in o.splitlines():
                mm = re.search(r"pk/gen/(\w+)\.pyi:\d+: error: (.*)$", l)
                if mm and mm.group(1) in by_name:
                    offenders.setdefault(mm.group(1), mm.group(2))
            if not offenders:
                res["log"].append(f"stubtest batch {mode}: unreadable failure, modules skipped: {o[:300]}")
                res["infra"] = f"stubtest {mode}: {o[:200]}"
                break
            for nm, err in offenders.items():
                found("stubtest", by_name[nm], None, "stubtest cannot build the stub: " + err)
            todo = [m for m in todo if m.name not in offenders]
            continue
        handle(todo, o)
        break
    res["stubs"] = stubs
    return res


# minimised past failures and regression guards: run in every tier through the same four oracles (one extra shard)
CORPUS: list[tuple[str, str, str]] = [
    # (name, construct family used in the finding key, module body after the standard header)
    ("dunder_kwonly", "fn_dunder", "def fd1(*, __x): pass\ndef fd2(**__kw): pass\ndef fd3(a, __b): pass\ndef fd4(__a, __b, c=1, *, __d=2): pass\n"),
    ("default_not_int", "fn", "def fn1(a=not 1): pass\n"),
    ("default_float_overflow", "fn", "def fn1(a=1e999): pass\n"),
    ("default_forms", "fn", "def fn1(a=~1, b=+2, c=-1.5, d=(1,), e=[None, True], f={1: 'x'}, g={1}, h=set(), i=1_000, j=0x10, k='a' 'b', l=-(1)): pass\n"),
    ("alias_string_rhs", "alias", "Al1: TypeAlias = 'Optional[int]'\n"),
    ("cond_class_redef", "cond", "if DEF_K:\n    class co1:\n        a: int = 1\nelse:\n    class co1:  # type: ignore\n        a: int = 2\n"),
    ("cond_platform", "cond", "if sys.platform != 'win32':\n    def co1(x: int) -> int:\n        return x\nelse:\n    co1 = None  # type: ignore\n"),
    ("enum_plain", "enum", "class En1(enum.Enum):\n    A = 1\n    B = 2\n"),
    ("async_ctx", "deco", "@contextlib.asynccontextmanager\nasync def de1(x: int) -> AsyncIterator[int]:\n    yield x\n"),
    ("deco_not_in_all", "deco", "__all__ = ['de1']\ndef dc2(f: Callable[..., int]) -> Callable[..., int]:\n    return f\n@dc2\ndef de1(x: int) -> int:\n    return x\n"),
    ("alias_not_in_all", "alias", "__all__ = ['fa1']\nBl2: typing.TypeAlias = list[int]\ndef fa1(x: Bl2) -> Bl2:\n    return x\n"),
    ("quoted_arg_import", "import_use", "import decimal as iu1_dec\nfrom fractions import Fraction as iu1_Fr\n"
     "def iu1(x: list['iu1_dec.Decimal'], y: dict[str, 'iu1_Fr']) -> None: pass\n"),
    ("class_rebound", "cls_methods", "def reg1(c): return c\nclass Cm2:\n    pass\nCm2 = reg1(Cm2)\n"
     "class Cm3:\n    class In4:\n        pass\n    In4 = reg1(In4)\n"),
    ("namedtuple_default", "namedtuple", "class Nt1(NamedTuple):\n    x: int\n    y: str = 'd'\n"),
    ("namedtuple_coll_defaults", "namedtuple_func", "Nc1 = collections.namedtuple('Nc1', ['x', 'y'], defaults=[1])\n"),
    ("union_annotation", "fn", "def fn1(x: int | None, y: Optional[Union[int, str]] = None) -> int | None:\n    return x\n"),
    ("posonly_defaults", "fn", "def fn1(a=1, /, b=2, *, c, d=3, **kw): pass\nclass Cm2:\n    def m(self, /, x, *, y: int = 3) -> None: pass\n"),
]


def corpus_mods() -> tuple[list[Mod], dict[str, bool]]:
    mods = []
    for i, (name, fam, body) in enumerate(CORPUS):
        m = Mod(f"c{i:03d}_{name}")
        ma = re.match(r"__all__ = (\[.*?\])\n", body)
        if ma:
            m.all = list(ast.literal_eval(ma.group(1)))
            body = body[ma.end():]
        m.body.append(body)
        for nm in re.findall(r"\b([A-Za-z]+\d+(?:_\w+)?)\b", body):
            m.families.setdefault(nm, fam)
        m.default_family = fam
        mods.append(m)
    return mods, {m.name: False for m in mods}


def make_shards(rng, n_shards: int, unit_per_family: int, mixes: int, keep: tuple[int, int] | None = None) -> list[tuple[list[Mod], dict[str, bool]]]:
    """unit modules (one construct family each, several random instances) and mixed modules"""
    mods: list[Mod] = []
    k = 0
    only = [f for f in os.environ.get("C19_FAMILIES", "").split(",") if f]   # debugging knob: restrict the families
    for fam in (only or CONSTRUCTS):
        for j in range(unit_per_family):
            k += 1
            mods.append(gen_module(rng, f"m{k:04d}", [fam] * rng.randint(2, 4), with_all=(j % 4 == 3)))
    fams = only or list(CONSTRUCTS)
    for _ in range(mixes):
        k += 1
        mods.append(gen_module(rng, f"m{k:04d}", [rng.choice(fams) for _ in range(rng.randint(3, 8))], with_all=rng.random() < 0.3))
    future = {m.name: rng.random() < 0.5 for m in mods}
    if keep is not None:
        # quick tier: same random stream as the full sample, but only `keep[0]` unit modules per family and `keep[1]` mixes
        n_unit = len(list(only or CONSTRUCTS)) * unit_per_family
        mods = [m for idx, m in enumerate(mods[:n_unit]) if idx % unit_per_family < keep[0]] + mods[n_unit:n_unit + keep[1]]
    shards: list[list[Mod]] = [[] for _ in range(n_shards)]
    for i, m in enumerate(mods):
        shards[i % n_shards].append(m)
    return [(s, future) for s in shards if s]


def importable_filter(vlib, root: str, mods: list[Mod]) -> tuple[list[Mod], list[str]]:
    """drop generated modules that CPython itself cannot import (generator slip, not a stubgen matter)"""
    code = ("import importlib,sys,json\nbad={}\n"
            "for n in sys.argv[1:]:\n"
            "    try: importlib.import_module('pk.gen.'+n)\n"
            "    except BaseException as e: bad[n]=repr(e)\n"
            "print(json.dumps(bad))\n")
    st, o = vlib.sh([vlib.PY, "-c", code, *[m.name for m in mods]], cwd=os.path.join(root, "src"), env=vlib.py_env(), timeout=300)
    try:
        bad = json.loads(o.strip().splitlines()[-1])
    except Exception:  # noqa
        bad = {m.name: "import check failed: " + o[-200:] for m in mods}
    for n in bad:
        os.remove(os.path.join(root, "src/pk/gen", n + ".py"))
    return [m for m in mods if m.name not in bad], [f"{n}: {e}" for n, e in bad.items()]


_STUBTEST_CATS = [
    ("is not present in stub", "not-in-stub"), ("is not present at runtime", "not-at-runtime"), ("has a default value but", "default"),
    ("should be positional", "param-kind"), ("should be keyword", "param-kind"), ("does not have parameter", "missing-param"),
    ("does not have *", "star-param"), ("differs from runtime parameter", "param-name"), ("variable differs from runtime type", "var-type"),
    ("async def", "async"), ("cannot build the stub", "build-error"), ("is inconsistent", "inconsistent-other"),
]


def category(check: str, msg: str) -> str:
    """coarse, seed-independent class of a report (part of the finding key)"""
    if check == "mypy":
        m = re.search(r"\[([a-z-]+)\]\s*$", msg)
        return m.group(1) if m else "error"
    if check == "struct":
        for k in ("missing from stub", "annotations lost", "class lost", "annotation lost", "annotation of return differs",
                  "annotation of parameter differs", "variable annotation differs"):
            if k in msg:
                return k.replace(" ", "-")
        return "other"
    if check == "stubtest":
        for k, c in _STUBTEST_CATS:
            if k in msg:
                return c
        return "other"
    return "fail"


def finding_key(f: dict[str, Any]) -> str:
    if f["mode"] == "inspect" and f["check"] != "ast":
        # the inspection generator loses so much on pure-Python modules (nearly every construct x check combination fails
        # for some seed) that one entry per check is kept; syntactically invalid output stays keyed by construct
        return f"{f['check']}:inspect"
    if f["check"] == "ast" or f["family"] == "fn_dunder":
        # one root cause, many message variants
        return f"{f['check']}:{f['mode']}:{f['family']}"
    return f"{f['check']}:{f['mode']}:{f['family']}:{category(f['check'], f['msg'])}"


def baseline_stubtest(vlib, root: str, mods: list[Mod], _depth: int = 0) -> set[str]:
    """stubtest of every source module against ITSELF (the .py file is what mypy finds as the 'stub'): whatever it reports
    there is strictness of the oracle that no stub generator could satisfy; those exact reports are subtracted.
    A module for which this baseline cannot be computed (its source does not build under stubtest) gets the marker
    "<nobaseline>NAME": its stubtest reports are not used at all (they could be oracle strictness)."""
    env = vlib.py_env()
    env.pop("MYPYPATH", None)
    st, o, infra = tool(vlib, [vlib.PY, "-m", "mypy.stubtest", "--concise", *["pk.gen." + m.name for m in mods]], os.path.join(root, "src"), env, 900)
    out: set[str] = set()
    if infra:
        return {"<infra>"}
    if "not checking stubs due to" in o or st not in (0, 1):
        offenders = {mm.group(1) for mm in re.finditer(r"pk/gen/(\w+)\.py:\d+: error:", o)} & {m.name for m in mods}
        if not offenders or _depth > 3:
            return {"<nobaseline>" + m.name for m in mods}
        out = {"<nobaseline>" + nm for nm in offenders}
        rest = [m for m in mods if m.name not in offenders]
        return out | (baseline_stubtest(vlib, root, rest, _depth + 1) if rest else set())
    for ln in o.splitlines():
        mm = re.match(r"pk\.gen\.(\w+)(?:\.(\w+))?(\S*) (.*)$", ln)
        if mm:
            out.add(f"{mm.group(1)}.{mm.group(2) or ''}{mm.group(3)} {mm.group(4)}")
    return out


def s_stage(ctx, vlib) -> None:
    rng = vlib.Rng(ctx.seed, "C19-modules")
    n_shards = ctx.n(6, 32)
    shards = make_shards(rng, n_shards, ctx.n(3, 16), ctx.n(20, 200), keep=(2, 6) if ctx.quick else None)
    if os.environ.get("C19_ONLY_CORPUS") == "1":
        shards = []
    shards.append(corpus_mods())
    tmp = tempfile.mkdtemp(prefix="c19-")
    t0 = time.time()
    try:
        jobs = []
        bjobs = []
        rejected: list[str] = []
        for i, (mods, future) in enumerate(shards):
            root = os.path.join(tmp, f"shard{i}")
            write_tree(root, mods, future)
            mods2, bad = importable_filter(vlib, root, mods)
            rejected += bad
            for mode in MODES:
                jobs.append((root, mods2, future, mode))
            bjobs.append((root, mods2))
        if rejected:
            ctx.log(f"generator: {len(rejected)} modules not importable, dropped: {rejected[:3]}")
        ctx.cov["generator_rejects"] = len(rejected)
        with ThreadPoolExecutor(max_workers=vlib.NPROC) as ex:
            fb = [ex.submit(baseline_stubtest, vlib, r, ms) for r, ms in bjobs]
            results = list(ex.map(lambda j: run_shard(vlib, j[0], j[1], j[2], j[3], vlib.REPO), jobs))
            baseline = {r: f.result() for (r, _), f in zip(bjobs, fb)}
        ctx.cov["S_stubtest_baseline_reports"] = sum(len(v) for v in baseline.values())
        subtracted = 0
        nobase: set[tuple[str, str]] = set()
        groups: dict[str, list[tuple[dict, Mod, str, bool]]] = {}
        nmods = 0
        infra_skips = 0
        for (root, mods, future, mode), r in zip(jobs, results):
            for l in r["log"]:
                ctx.log(l[:400])
            if r.get("infra") or "<infra>" in baseline[root]:
                infra_skips += 1
                ctx.log(f"S: shard skipped, a tool did not complete (overloaded machine?): {r.get('infra', 'baseline stubtest')}"[:300])
                if "<infra>" in baseline[root] or not r.get("findings"):
                    continue
                # keep what was established before the tool failure except stubtest results (baseline unknown)
                r["findings"] = [f for f in r["findings"] if f["check"] != "stubtest"]
            nmods += len(mods)
            ctx.add("evaluations", len(mods))
            for k, v in r["counts"].items():
                ctx.cov[f"S_{k}"] = ctx.cov.get(f"S_{k}", 0) + v
            byname = {m.name: m for m in mods}
            for f in r["findings"]:
                if f.get("obj") in baseline[root]:
                    subtracted += 1
                    continue
                if f["check"] == "stubtest" and "<nobaseline>" + f["module"] in baseline[root]:
                    nobase.add((root, f["module"]))
                    continue
                m = byname.get(f["module"])
                groups.setdefault(finding_key(f), []).append((f, m, r.get("stubs", {}).get(f["module"], ""), future.get(f["module"], False)))
        for key in sorted(groups):
            # smallest module exhibiting it
            f, m, stub, fut = min(groups[key], key=lambda x: len(x[1].source(x[3])) if x[1] else 0)
            ctx.violation(key, f"stubgen {f['mode']} mode, construct {f['family']}: {f['msg']}",
                          {"kind": "module", "mode": f["mode"], "check": f["check"], "module": f["module"], "top": f["top"], "message": f["msg"],
                           "occurrences": len(groups[key]), "source": m.source(fut) if m else None, "stub": stub})
        ctx.cov["S_module_mode_pairs"] = nmods
        ctx.cov["S_shard_modes_skipped_tool_did_not_complete"] = infra_skips
        if infra_skips == len(jobs):
            ctx.broke("S", "cross-tool oracle", "no shard could be checked: every tool run was killed or timed out")
        ctx.cov["S_stubtest_reports_subtracted_as_oracle_strictness"] = subtracted
        ctx.cov["S_modules_without_stubtest_baseline"] = sum(1 for v in baseline.values() for y in v if y.startswith("<nobaseline>"))
        ctx.cov["S_modules_whose_stubtest_reports_were_ignored_for_that"] = len(nobase)
        ctx.cov["S_distinct_finding_keys"] = len(groups)
        ctx.log(f"S: {nmods} (module, mode) pairs, {len(groups)} distinct finding keys ({time.time()-t0:.0f}s)")
    finally:
        shutil.rmtree(tmp, ignore_errors=True)


# =====================================================================================
# C: model (coq/C19/Sig.v) vs the real signature lines
# =====================================================================================

SIG_DEFAULTS = [("1", "1", "int"), ("'s'", "'s'", "str"), ("None", "None", None), ("object()", "...", None), ("1.5", "1.5", "float"),
                ("True", "True", "bool"), ("-2", "-2", "int"), ("(1, 2)", "(1, 2)", None)]
SIG_NAMES = ["a", "b", "c", "d", "e", "__p", "__q", "__r__", "_s", "self", "cls", "x1"]


def sig_cases(rng, per_shape: int) -> list[dict[str, Any]]:
    cases = []
    for npo in range(3):
        for npk in range(3):
            for va in range(2):
                for nko in range(3):
                    for kw in range(2):
                        for rep in range(per_shape):
                            names = [n for n in SIG_NAMES]
                            rng.shuffle(names)
                            if rng.random() < 0.3 and "self" in names:
                                names.remove("self")
                                names.append("self")   # popped first -> first parameter
                            plain = rep == 0

                            def mk(can_default: bool, force_default: bool) -> dict[str, Any]:
                                nm = names.pop()
                                if plain and nm.startswith("__"):
                                    nm = "n" + nm.strip("_")
                                p: dict[str, Any] = {"name": nm, "ann": rng.choice([None, None, "int", "str"]), "default": None}
                                if can_default and (force_default or rng.random() < 0.35):
                                    p["default"] = rng.choice(SIG_DEFAULTS)
                                return p
                            seen = False
                            po, pk = [], []
                            for _ in range(npo):
                                q = mk(True, seen); seen = seen or q["default"] is not None; po.append(q)
                            for _ in range(npk):
                                q = mk(True, seen); seen = seen or q["default"] is not None; pk.append(q)
                            c = {"po": po, "pk": pk, "va": mk(False, False) if va else None, "ko": [mk(True, False) for _ in range(nko)],
                                 "kw": mk(False, False) if kw else None}
                            c["magic"] = rep % 7 == 5
                            cases.append(c)
    return cases


def sig_source(c: dict[str, Any]) -> str:
    def one(p, pre=""):
        s = pre + p["name"]
        if p["ann"]:
            s += ": " + p["ann"]
        if p["default"]:
            s += (" = " if p["ann"] else "=") + p["default"][0]
        return s
    parts = [one(p) for p in c["po"]]
    if c["po"]:
        parts.append("/")
    parts += [one(p) for p in c["pk"]]
    if c["va"]:
        parts.append(one(c["va"], "*"))
    elif c["ko"]:
        parts.append("*")
    parts += [one(p) for p in c["ko"]]
    if c["kw"]:
        parts.append(one(c["kw"], "**"))
    return ", ".join(parts)


def sig_coq(c: dict[str, Any]) -> str:
    def cs(x):
        return '"' + x.replace('"', '""') + '"'

    def one(p):
        ann = f'(Some {cs(p["ann"])})' if p["ann"] else "None"
        if p["default"]:
            ity = f'(Some {cs(p["default"][2])})' if p["default"][2] else "None"
            d = f'(Some ({cs(p["default"][1])}, {ity}))'
        else:
            d = "None"
        return f'(mkParam {cs(p["name"])} {ann} {d})'

    def lst(l):
        return "[" + "; ".join(one(p) for p in l) + "]"

    def opt(p):
        return f"(Some {one(p)})" if p else "None"
    a = f'(mkArgs {lst(c["po"])} {lst(c["pk"])} {opt(c["va"])} {lst(c["ko"])} {opt(c["kw"])})'
    mg = "true" if c["magic"] else "false"
    return (f"let a := {a} in (stub_signature {mg} a, isSome (parse_sig (print_sig (get_func_args {mg} (transform_args a)))), "
            f"wf_params a && self_cls_plain a, "
            f"match parse_sig (print_sig (get_func_args {mg} (transform_args a))) with Some r => Some (map pname (posonly r), map pname (args r), map pname (kwonly r)) | None => None end)")


def ast_shape(text: str):
    try:
        f = ast.parse(f"def f({text}): pass").body[0]
    except SyntaxError:
        return None
    a = f.args  # type: ignore[attr-defined]
    return ([x.arg for x in a.posonlyargs], [x.arg for x in a.args], a.vararg.arg if a.vararg else None,
            [x.arg for x in a.kwonlyargs], a.kwarg.arg if a.kwarg else None,
            {x.arg: ast.unparse(x.annotation) for x in a.posonlyargs + a.args + a.kwonlyargs + ([a.vararg] if a.vararg else []) + ([a.kwarg] if a.kwarg else []) if x.annotation})


def c_stage(ctx, vlib) -> None:
    rng = vlib.Rng(ctx.seed, "C19-sig")
    cases = sig_cases(rng, ctx.n(4, 24))
    lines = ["class K:"]
    for i, c in enumerate(cases):
        nm = f"__add{i}__" if False else (f"f{i}")
        if c["magic"]:
            # a magic method name (in MAGIC_METHODS_POS_ARGS_ONLY) is needed: one class per case
            lines.append(f"    class M{i}:\n        def __contains__({sig_source(c)}): pass")
        else:
            lines.append(f"    def f{i}({sig_source(c)}): pass")
    src = "\n".join(lines) + "\n"
    tmp = tempfile.mkdtemp(prefix="c19sig-")
    real: dict[str, list[str | None]] = {}
    try:
        open(os.path.join(tmp, "sigmod.py"), "w").write(src)
        for mode in ("parse", "semantic"):
            out = os.path.join(tmp, "out_" + mode)
            st, o = vlib.sh([vlib.PY, "-m", "mypy.stubgen", *MODES[mode], "-o", out, "sigmod.py"], cwd=tmp, env=vlib.py_env(), timeout=600)
            if st != 0:
                ctx.broke("C", "stubgen on the signature module", f"{mode}: exit {st}: {o[-800:]}")
                return
            txt = open(os.path.join(out, "sigmod.pyi")).read()
            found: dict[int, str] = {}
            cur = None
            for ln in txt.splitlines():
                m1 = re.match(r"\s*class M(\d+):", ln)
                if m1:
                    cur = int(m1.group(1))
                m2 = re.match(r"\s*def (?:f(\d+)|__contains__)\((.*)\)(?: -> [^:]+)?: \.\.\.$", ln)
                if m2:
                    found[int(m2.group(1)) if m2.group(1) else cur] = m2.group(2)  # type: ignore[index]
            real[mode] = [found.get(i) for i in range(len(cases))]
    finally:
        shutil.rmtree(tmp, ignore_errors=True)
    hdr = ("From Coq Require Import List String Bool.\nFrom C19 Require Import Sig.\nImport ListNotations.\nOpen Scope string_scope.\n")
    res = ctx.eval_cases("sig", hdr, [sig_coq(c) for c in cases])
    if res is None:
        return
    n_hyp = n_dunder = bad = 0
    for i, (c, r) in enumerate(zip(cases, res)):
        m = re.match(r'^\("((?:[^"]|"")*)", (true|false), (true|false), (.*)\)$', r)
        if not m:
            ctx.broke("C", "cannot read model output", r[:200])
            return
        mtext = m.group(1).replace('""', '"')[1:-1]
        mvalid, mhyp = m.group(2) == "true", m.group(3) == "true"
        srcshape = ast_shape(sig_source(c))
        for mode in ("parse", "semantic"):
            rt = real[mode][i]
            if rt is None:
                ctx.broke("C", "signature line not found in the stub", f"{mode}: def f{i}({sig_source(c)})")
                bad += 1
                continue
            if rt != mtext:
                bad += 1
                if bad <= 5:
                    ctx.broke("C", "model vs stubgen signature line", f"{mode}: def f({sig_source(c)}) magic={c['magic']}: model `{mtext}` stubgen `{rt}`", c)
                continue
            rshape = ast_shape(rt)
            if (rshape is not None) != mvalid:
                bad += 1
                ctx.broke("C", "model parser vs CPython grammar", f"`{rt}`: model says valid={mvalid}, CPython {'accepts' if rshape else 'rejects'}")
                continue
            if rshape is not None:
                mm = re.match(r'^Some \((\[.*?\]), (\[.*?\]), (\[.*?\])\)$', m.group(4))
                names = [re.findall(r'"([^"]*)"', g) for g in mm.groups()] if mm else None
                if names is None or names[0] != rshape[0] or names[1] != rshape[1] or names[2] != rshape[3]:
                    bad += 1
                    ctx.broke("C", "model parser vs CPython ast", f"`{rt}`: model {m.group(4)} CPython {rshape[:4]}")
                    continue
            # the property on the implementation
            dunder = any(p["name"].startswith("__") and not p["name"].endswith("__")
                         for p in c["po"] + c["pk"] + c["ko"] + [x for x in (c["va"], c["kw"]) if x])
            if rshape is None:
                ctx.violation(f"ast:{mode}:fn_dunder" if dunder else f"sig-invalid:{mode}",
                              f"stubgen {mode} mode prints `def f({sig_source(c)})` as `def f({rt})`: not valid Python",
                              {"kind": "signature", "mode": mode, "source": f"def f({sig_source(c)}): pass", "stub_line": f"def f({rt}): ..."})
            elif mhyp and not c["magic"]:
                assert srcshape is not None
                dun = lambda n: n.startswith("__") and not n.endswith("__")  # noqa
                k = 0
                while k < len(srcshape[1]) and dun(srcshape[1][k]):
                    k += 1
                # positional-only = declared so, plus the __x names that directly continue that leading run
                want = (srcshape[0] + srcshape[1][:k], srcshape[1][k:], srcshape[2], srcshape[3], srcshape[4])
                if tuple(rshape[:5]) != want or any(rshape[5].get(kk) != v for kk, v in srcshape[5].items()):
                    ctx.violation(f"sig-roundtrip:{mode}", f"`def f({sig_source(c)})` -> `def f({rt})`: kinds/names/annotations not preserved",
                                  {"kind": "signature", "mode": mode, "source": sig_source(c), "stub": rt})
        n_hyp += mhyp
    ctx.add("evaluations", len(cases))
    ctx.add("traces_validated_against_impl", 2 * len(cases))
    ctx.cov["C_signature_cases"] = len(cases)
    ctx.cov["C_cases_satisfying_theorem_hypotheses"] = n_hyp
    ctx.cov["C_disagreements"] = bad
    ctx.sample({"source": f"def f({sig_source(cases[len(cases)//2])})", "model": res[len(cases)//2][:120], "stubgen": real["parse"][len(cases)//2]})
    ctx.log(f"C: {len(cases)} parameter lists x 2 modes, {n_hyp} within the theorem's hypotheses, {bad} disagreements")


# ---------------------------------------------------------------- the model's parser vs CPython's grammar
PIECES = ["/", "*", "{n}", "{n}=1", "{n}: int", "{n}: int = 1", "*{n}", "**{n}", "*{n}=1", "**{n}: int"]


def piece_tokens(form: str, n: str) -> str:
    t = {"/": "[TSlash]", "*": "[TStar]", "{n}": '[TId "N"]', "{n}=1": '[TId "N"; TEq false; TExpr "1"]', "{n}: int": '[TId "N"; TColon; TExpr "int"]',
         "{n}: int = 1": '[TId "N"; TColon; TExpr "int"; TEq true; TExpr "1"]', "*{n}": '[TStar; TId "N"]', "**{n}": '[TDblStar; TId "N"]',
         "*{n}=1": '[TStar; TId "N"; TEq false; TExpr "1"]', "**{n}: int": '[TDblStar; TId "N"; TColon; TExpr "int"]'}[form]
    return t.replace('"N"', f'"{n}"')


def grammar_stage(ctx, vlib) -> None:
    import itertools
    rng = vlib.Rng(ctx.seed, "C19-grammar")
    seqs: list[tuple[str, ...]] = [()]
    for k in (1, 2, 3):
        seqs += list(itertools.product(PIECES, repeat=k))
    for _ in range(ctx.n(800, 6000)):
        seqs.append(tuple(rng.choice(PIECES) for _ in range(rng.randint(4, 7))))
    exprs, texts = [], []
    for sq in seqs:
        names = [f"p{j}" for j in range(len(sq))]
        texts.append(", ".join(f.replace("{n}", n) for f, n in zip(sq, names)))
        toks = " ++ [TComma] ++ ".join(piece_tokens(f, n) for f, n in zip(sq, names)) or "[]"
        exprs.append(f"match parse_sig ({toks}) with Some r => Some (map pname (posonly r), map pname (args r), option_map pname (vararg r), "
                     f"map pname (kwonly r), option_map pname (kwarg r)) | None => None end")
    hdr = "From Coq Require Import List String Bool.\nFrom C19 Require Import Sig.\nImport ListNotations.\nOpen Scope string_scope.\n"
    res = ctx.eval_cases("grammar", hdr, exprs)
    if res is None:
        return
    bad = valid = 0
    for text, r in zip(texts, res):
        sh = ast_shape(text)
        if r == "None":
            got = None
        else:
            g = re.match(r"^Some \((\[.*?\]), (\[.*?\]), (None|Some \"[^\"]*\"), (\[.*?\]), (None|Some \"[^\"]*\")\)$", r)
            if not g:
                ctx.broke("C", "cannot read parser output", r[:200])
                return
            f = lambda x: re.findall(r'"([^"]*)"', x)  # noqa
            got = (f(g.group(1)), f(g.group(2)), (f(g.group(3)) or [None])[0], f(g.group(4)), (f(g.group(5)) or [None])[0])
        want = tuple(sh[:5]) if sh is not None else None
        valid += want is not None
        if got != want:
            bad += 1
            if bad <= 5:
                ctx.broke("C", "model parser vs CPython grammar", f"`def f({text})`: model {got}, CPython {want}")
    ctx.add("evaluations", len(seqs))
    ctx.cov["C_grammar_lists"] = len(seqs)
    ctx.cov["C_grammar_lists_valid_python"] = valid
    ctx.cov["C_grammar_disagreements"] = bad
    ctx.log(f"C: parser of Sig.v vs ast.parse on {len(seqs)} parameter lists ({valid} valid), {bad} disagreements")


# ---------------------------------------------------------------- annotation printing (coq/C19/Ann.v) vs the real printer
ANN_LEAVES = [("int", "int"), ("str", "str"), ("Base", "Base"), ("None", "None"), ("bytes", "bytes"), ("Any", "Any")]
ANN_HEADER = ("import typing\nimport typing as t\nimport collections\nimport collections.abc\n"
              "import decimal\nfrom fractions import Fraction\nimport collections as cl\n"      # used ONLY inside quoted arguments
              "from typing import Any, Callable, Dict, List, Literal, Optional, Sequence, Set, Tuple, Type, Union\n"
              "class Base: pass\n")


def gen_ty(rng, depth: int, in_union: bool = False):
    """(python source, Coq term of type Ann.ty)"""
    if depth == 0 or rng.random() < 0.25:
        src, n = rng.choice(ANN_LEAVES)
        return src, f'(UName "{n}" RPlain [])'
    k = rng.choice(["List", "tDict", "Seq", "OD", "Union", "Optional", "tOptional", "bar", "Callable", "CallableEll", "Literal", "tuple", "Type", "Set"]
                   if not in_union else ["List", "tDict", "Seq", "Callable", "Literal", "tuple", "Union", "Optional"])
    def sub(u: bool = False):
        """a sub-type; at a subscript-argument position it may be written as a string literal (forward reference)"""
        x = gen_ty(rng, depth - 1, u)
        if u or rng.random() > 0.35:
            return x
        if rng.random() < 0.6:      # names whose ONLY use in the module is inside quotes
            x = rng.choice([("decimal.Decimal", '(UName "decimal.Decimal" RPlain [])'), ("Fraction", '(UName "Fraction" RPlain [])'),
                            ("cl.OrderedDict[str, Fraction]", '(UName "cl.OrderedDict" RPlain [UName "str" RPlain []; UName "Fraction" RPlain []])'),
                            ("List[decimal.Decimal]", '(UName "List" (RReplace "list") [UName "decimal.Decimal" RPlain []])'),
                            ("Optional[Fraction]", '(UName "Optional" ROptional [UName "Fraction" RPlain []])')])
        if x[1].startswith("(UName") and "'" not in x[0] and '"' not in x[0]:
            return "'" + x[0] + "'", f"(UQuoted {x[1]})"
        return x
    if k == "List":
        a = sub(); return f"List[{a[0]}]", f'(UName "List" (RReplace "list") [{a[1]}])'
    if k == "Set":
        a = sub(); return f"typing.Set[{a[0]}]", f'(UName "typing.Set" (RReplace "set") [{a[1]}])'
    if k == "Type":
        return "Type[Base]", '(UName "Type" (RReplace "type") [UName "Base" RPlain []])'
    if k == "tDict":
        a, b = sub(), sub(); return f"t.Dict[{a[0]}, {b[0]}]", f'(UName "t.Dict" (RReplace "dict") [{a[1]}; {b[1]}])'
    if k == "Seq":
        a = sub(); return f"Sequence[{a[0]}]", f'(UName "Sequence" RPlain [{a[1]}])'
    if k == "OD":
        a, b = sub(), sub(); return f"collections.OrderedDict[{a[0]}, {b[0]}]", f'(UName "collections.OrderedDict" RPlain [{a[1]}; {b[1]}])'
    if k == "Union":
        xs = [sub(True) for _ in range(rng.randint(1, 3))]
        return "Union[" + ", ".join(x[0] for x in xs) + "]", '(UName "Union" RUnion [' + "; ".join(x[1] for x in xs) + "])"
    if k in ("Optional", "tOptional"):
        a = sub(True); nm = "Optional" if k == "Optional" else "t.Optional"
        return f"{nm}[{a[0]}]", f'(UName "{nm}" ROptional [{a[1]}])'
    if k == "bar":
        xs = [gen_ty(rng, depth - 1, True) for _ in range(rng.randint(2, 3))]
        xs = [x for x in xs if not x[1].startswith("(UUnion")]
        return " | ".join(x[0] for x in xs), "(UUnion [" + "; ".join(x[1] for x in xs) + "])"
    if k == "Callable":
        xs = [gen_ty(rng, depth - 1) for _ in range(rng.randint(0, 2))]; r = sub()
        return "Callable[[" + ", ".join(x[0] for x in xs) + f"], {r[0]}]", '(UName "Callable" RPlain [UList [' + "; ".join(x[1] for x in xs) + f"]; {r[1]}])"
    if k == "CallableEll":
        r = sub(); return f"Callable[..., {r[0]}]", f'(UName "Callable" RPlain [UEll; {r[1]}])'
    if k == "Literal":
        vs = rng.sample(["'a'", "1", "True", "'b c'", "-2"], rng.randint(1, 3))
        return "Literal[" + ", ".join(vs) + "]", '(UName "Literal" RPlain [' + "; ".join(f'ULit "{v}"' for v in vs) + "])"
    a = sub()
    return f"tuple[{a[0]}, ...]", f'(UName "tuple" RPlain [{a[1]}; UEll])'


def canon_ast(n: ast.AST) -> str:
    if isinstance(n, ast.BinOp) and isinstance(n.op, ast.BitOr):
        items: list[ast.AST] = []

        def flat(x: ast.AST) -> None:
            if isinstance(x, ast.BinOp) and isinstance(x.op, ast.BitOr):
                flat(x.left); flat(x.right)
            else:
                items.append(x)
        flat(n)
        return "U[" + ",".join(canon_ast(x) for x in items) + "]"
    if isinstance(n, ast.Subscript):
        sl = n.slice
        elts = list(sl.elts) if isinstance(sl, ast.Tuple) else [sl]
        lit = ast.unparse(n.value).endswith("Literal")

        def arg(x: ast.AST) -> str:
            if not lit and isinstance(x, ast.Constant) and isinstance(x.value, str):
                return "Q(" + canon_ast(ast.parse(x.value, mode="eval").body) + ")"
            return canon_ast(x)
        return "N(" + ast.unparse(n.value) + ",[" + ",".join(arg(x) for x in elts) + "])"
    if isinstance(n, (ast.Name, ast.Attribute)):
        return "N(" + ast.unparse(n) + ",[])"
    if isinstance(n, ast.List):
        return "L[" + ",".join(canon_ast(x) for x in n.elts) + "]"
    if isinstance(n, ast.Constant) and n.value is Ellipsis:
        return "E"
    if isinstance(n, ast.Constant) and n.value is None:
        return "N(None,[])"
    return "T(" + ast.unparse(n) + ")"


ANN_COQ_HEADER = """From Coq Require Import List String Bool.
From C19 Require Import Ann.
Import ListNotations.
Open Scope string_scope.
Fixpoint show (t : nty) : string :=
  let fix go (l : list nty) : string := match l with [] => "" | [x] => show x | x :: r => show x ++ "," ++ go r end in
  match t with
  | NName n args => "N(" ++ n ++ ",[" ++ go args ++ "])"
  | NList items => "L[" ++ go items ++ "]"
  | NUnion items => "U[" ++ go items ++ "]"
  | NQuoted n => "Q(" ++ show n ++ ")"
  | NEll => "E"
  | NLit s => "T(" ++ s ++ ")"
  end.
"""


def ann_stage(ctx, vlib) -> None:
    import builtins
    rng = vlib.Rng(ctx.seed, "C19-ann")
    cases = []
    seen = set()
    for _ in range(ctx.n(400, 3000)):
        src, coq = gen_ty(rng, rng.randint(1, 3))
        if src not in seen and "(UUnion []" not in coq and "(UUnion [(" + "" not in "":
            seen.add(src)
            cases.append((src, coq))
    cases = [c for c in cases if "UUnion []" not in c[1] and not re.search(r"\(UUnion \[\([^;]*\)\]\)$", c[1])]
    body = ANN_HEADER + "".join(f"def f{i}(x: {src}) -> None: pass\n" for i, (src, _) in enumerate(cases))
    tmp = tempfile.mkdtemp(prefix="c19ann-")
    real: dict[str, dict[int, str]] = {}
    stubs: dict[str, str] = {}
    try:
        open(os.path.join(tmp, "annmod.py"), "w").write(body)
        for mode in ("parse", "semantic"):
            out = os.path.join(tmp, "out_" + mode)
            st, o = vlib.sh([vlib.PY, "-m", "mypy.stubgen", *MODES[mode], "-o", out, "annmod.py"], cwd=tmp, env=vlib.py_env(), timeout=900)
            if st != 0:
                ctx.broke("C", "stubgen on the annotation module", f"{mode}: exit {st}: {o[-800:]}")
                return
            txt = open(os.path.join(out, "annmod.pyi")).read()
            stubs[mode] = txt
            real[mode] = {int(m.group(1)): m.group(2) for m in re.finditer(r"(?m)^def f(\d+)\(x: (.*)\) -> None: \.\.\.$", txt)}
    finally:
        shutil.rmtree(tmp, ignore_errors=True)
    exprs = [f"let t := {coq} in (render_ann (print_ty t), match parse_ann (print_ty t) with Some n => show n | None => \"NONE\" end, "
             f"match parse_ann (print_ty t) with Some n => String.eqb (show n) (show (norm t)) | None => false end)" for _, coq in cases]
    res = ctx.eval_cases("ann", ANN_COQ_HEADER, exprs)
    if res is None:
        return
    bad = 0
    for i, ((src, coq), r) in enumerate(zip(cases, res)):
        m = re.match(r'^\("((?:[^"]|"")*)", "((?:[^"]|"")*)", (.*)\)$', r)
        if not m:
            ctx.broke("C", "cannot read annotation model output", r[:200])
            return
        mtext, mshow = m.group(1).replace('""', '"'), m.group(2).replace('""', '"')
        if m.group(3).strip() != "true":
            bad += 1
            ctx.broke("C", "annotation model: parse (print t) <> norm t on a generated case", f"`{src}`: {r[:200]}")
        for mode in ("parse", "semantic"):
            rt = real[mode].get(i)
            if rt != mtext:
                bad += 1
                if bad <= 5:
                    ctx.broke("C", "model vs stubgen annotation text", f"{mode}: `{src}`: model `{mtext}` stubgen `{rt}`")
                continue
            try:
                ca = canon_ast(ast.parse(rt, mode="eval").body)
            except SyntaxError:
                ca = "NONE"
            if ca.replace(" ", "") != mshow.replace(" ", ""):
                bad += 1
                if bad <= 5:
                    ctx.broke("C", "model annotation parser vs CPython ast", f"`{rt}`: model {mshow} CPython {ca}")
    # combined tracker theorem on the implementation: every name of a printed annotation is builtin, defined in the stub,
    # or imported exactly once
    for mode in ("parse", "semantic"):
        tree = ast.parse(stubs[mode])
        imported: dict[str, int] = {}
        defined = set()
        for st_ in tree.body:
            if isinstance(st_, ast.Import):
                for a in st_.names:
                    k = a.asname or a.name.split(".")[0]
                    imported[k] = imported.get(k, 0) + (0 if (a.asname is None and k in imported) else 1)
            elif isinstance(st_, ast.ImportFrom):
                for a in st_.names:
                    k = a.asname or a.name
                    imported[k] = imported.get(k, 0) + 1
            elif isinstance(st_, (ast.ClassDef, ast.FunctionDef)):
                defined.add(st_.name)
        for i, (src, _) in enumerate(cases):
            rt = real[mode].get(i)
            if rt is None:
                continue
            try:
                names = set()

                def collect(node: ast.AST) -> None:
                    if isinstance(node, ast.Subscript) and ast.unparse(node.value).endswith("Literal"):
                        collect(node.value)
                        return
                    if isinstance(node, ast.Name):
                        names.add(node.id)
                    elif isinstance(node, ast.Constant) and isinstance(node.value, str):
                        try:
                            collect(ast.parse(node.value, mode="eval").body)      # a quoted forward reference
                        except SyntaxError:
                            pass
                    for ch in ast.iter_child_nodes(node):
                        collect(ch)
                collect(ast.parse(rt, mode="eval").body)
            except SyntaxError:
                continue
            for nm in names:
                ok = (nm in imported and imported[nm] == 1) or (nm not in imported and (nm in defined or hasattr(builtins, nm)))
                if not ok:
                    ctx.violation(f"ann-import:{mode}", f"stubgen {mode} mode: `{nm}` in the printed annotation `{rt}` is not builtin, not defined in the stub "
                                  f"and not imported exactly once (import count {imported.get(nm, 0)})",
                                  {"kind": "annotation", "mode": mode, "source": f"def f(x: {src}) -> None: pass", "annotation": rt,
                                   "imports": [ast.unparse(x) for x in tree.body if isinstance(x, (ast.Import, ast.ImportFrom))]})
    ctx.add("evaluations", len(cases))
    ctx.add("traces_validated_against_impl", 2 * len(cases))
    ctx.cov["C_annotation_cases"] = len(cases)
    ctx.cov["C_annotation_disagreements"] = bad
    ctx.sample({"annotation_source": cases[len(cases) // 2][0], "model": res[len(cases) // 2][:160], "stubgen": real["parse"].get(len(cases) // 2)})
    ctx.log(f"C: {len(cases)} annotations x 2 modes (text, CPython ast of the text, import block), {bad} disagreements")


# =====================================================================================
# C: model (coq/C19/Imports.v) vs the real ImportTracker
# =====================================================================================

IT_MODULES = ["a", "a.b", "a.b.c", "m", "m.n", "typing", "x"]
IT_NAMES = ["x", "y", "T", "a", "m", "p", "q", "a.b", "a.b.c.d", "m.n.f", "typing.Any", "b"]
IT_SIMPLE = ["x", "y", "T", "a", "m", "p", "q", "b"]


def it_ops(rng, n: int) -> list[tuple]:
    ops: list[tuple] = []
    for _ in range(n):
        k = rng.random()
        if k < 0.3:
            names = [(rng.choice(IT_SIMPLE), rng.choice([None, None, rng.choice(IT_SIMPLE)])) for _ in range(rng.randint(1, 3))]
            ops.append(("from", rng.choice(IT_MODULES), names, rng.random() < 0.3))
        elif k < 0.55:
            ops.append(("import", rng.choice(IT_MODULES), rng.choice([None, None, rng.choice(IT_SIMPLE)]), rng.random() < 0.3))
        elif k < 0.85:
            ops.append(("require", rng.choice(IT_NAMES)))
        else:
            ops.append(("reexport", rng.choice(IT_SIMPLE)))
    return ops


def it_coq(ops: list[tuple]) -> str:
    def dn(x: str) -> str:
        return "[" + "; ".join(f'"{c}"' for c in x.split(".")) + "]"

    def od(x) -> str:
        return f"(Some {dn(x)})" if x else "None"
    out = []
    for o in ops:
        if o[0] == "from":
            out.append(f"OAddImportFrom {dn(o[1])} [" + "; ".join(f"({dn(n)}, {od(a)})" for n, a in o[2]) + f"] {'true' if o[3] else 'false'}")
        elif o[0] == "import":
            out.append(f"OAddImport {dn(o[1])} {od(o[2])} {'true' if o[3] else 'false'}")
        elif o[0] == "require":
            out.append(f"ORequire {dn(o[1])}")
        else:
            out.append(f"OReexport {dn(o[1])}")
    return "let t := run [" + "; ".join(out) + "] in (map show_line (import_lines t), map dot (required_names t))"


IT_HEADER = """From Coq Require Import List String Bool.
From C19 Require Import Imports.
Import ListNotations.
Open Scope string_scope.
Definition dot (n : dname) : string := String.concat "." n.
Definition show_line (l : line) : string :=
  match l with
  | LImport s None => "I " ++ dot s
  | LImport s (Some a) => "I " ++ dot s ++ " as " ++ dot a
  | LFrom m n None => "F " ++ dot m ++ " " ++ dot n
  | LFrom m n (Some a) => "F " ++ dot m ++ " " ++ dot n ++ " as " ++ dot a
  end.
"""


def it_real(ops: list[tuple]):
    from mypy.stubutil import ImportTracker
    t = ImportTracker()
    try:
        for o in ops:
            if o[0] == "from":
                t.add_import_from(o[1], [(n, a) for n, a in o[2]], require=o[3])
            elif o[0] == "import":
                t.add_import(o[1], o[2], require=o[3])
            elif o[0] == "require":
                t.require_name(o[1])
            else:
                t.reexport(o[1])
        lines = t.import_lines()
    except AssertionError:
        return None
    out = set()
    for ln in lines:
        ln = ln.strip()
        m = re.match(r"import (\S+)(?: as (\S+))?$", ln)
        if m:
            out.add(f"I {m.group(1)}" + (f" as {m.group(2)}" if m.group(2) else ""))
            continue
        m = re.match(r"from (\S+) import (.*)$", ln)
        assert m, ln
        for part in m.group(2).split(", "):
            out.add(f"F {m.group(1)} {part}")
    return out, set(t.required_names), lines


def it_stage(ctx, vlib) -> None:
    if vlib.REPO not in sys.path:
        sys.path.insert(0, vlib.REPO)
    rng = vlib.Rng(ctx.seed, "C19-imports")
    seqs = []
    # exhaustive: all sequences of length <= 2 over a small op alphabet, then random longer ones
    alpha = [("import", "a.b", None, False), ("import", "a.b", "p", True), ("from", "m", [("x", None)], False), ("from", "m", [("x", "p")], True),
             ("require", "a.b.c.d"), ("require", "x"), ("require", "p"), ("reexport", "x"), ("reexport", "p"), ("import", "x", None, True)]
    for o1 in alpha:
        seqs.append([o1])
        for o2 in alpha:
            seqs.append([o1, o2])
            for o3 in (("require", "a.b"), ("require", "p"), ("reexport", "x")):
                seqs.append([o1, o2, o3])
    for _ in range(ctx.n(600, 6000)):
        seqs.append(it_ops(rng, rng.randint(1, 12)))
    real = [it_real(s) for s in seqs]
    keep = [(s, r) for s, r in zip(seqs, real) if r is not None]
    res = ctx.eval_cases("imports", IT_HEADER, [it_coq(s) for s, _ in keep])
    if res is None:
        return
    bad = nontriv = 0
    for (ops, (rl, rq, raw)), r in zip(keep, res):
        m = re.match(r"^\((\[.*?\]), (\[.*?\])\)$", r)
        if not m:
            ctx.broke("C", "cannot read tracker model output", r[:200])
            return
        ml = set(re.findall(r'"([^"]*)"', m.group(1)))
        mq = set(re.findall(r'"([^"]*)"', m.group(2)))
        nontriv += bool(rl)
        if ml != rl or mq != rq:
            bad += 1
            if bad <= 5:
                ctx.broke("C", "model vs ImportTracker", f"ops {ops}: model lines {sorted(ml)} required {sorted(mq)}; real lines {sorted(rl)} required {sorted(rq)}", ops)
        # the theorem's statement checked on the implementation: every binding once, only required+known names
        bound = [x.split(" as ")[-1].split(" ")[-1] for x in rl]
        if len(bound) != len(set(bound)):
            ctx.violation("imports:duplicate-binding", f"ImportTracker emits a name twice: {raw}", {"kind": "imports", "ops": ops, "lines": raw})
        if len(raw) != len(set(raw)):
            ctx.violation("imports:duplicate-line", f"ImportTracker emits a line twice: {raw}", {"kind": "imports", "ops": ops, "lines": raw})
    ctx.add("evaluations", len(keep))
    ctx.add("traces_validated_against_impl", len(keep))
    ctx.cov["C_import_tracker_sequences"] = len(keep)
    ctx.cov["C_import_tracker_nonempty_blocks"] = nontriv
    ctx.cov["C_import_tracker_disagreements"] = bad
    ctx.sample({"tracker_ops": keep[len(keep) // 2][0], "lines": keep[len(keep) // 2][1][2]})
    ctx.log(f"C: {len(keep)} ImportTracker operation sequences ({nontriv} with a non-empty block), {bad} disagreements")


# =====================================================================================
# wave 3: generated predicates (gen/StubPreds.v), default rendering (Defaults.v), emitted definitions (Emit.v)
# =====================================================================================

PRED_NAMES = ["x", "_x", "__x", "__x__", "_", "__", "___", "__all__", "__str__", "__init__", "__slots__", "__mypy-x", "a__mypy-b", "X_",
              "_Private", "__dunder__", "pub", "__path__", "__new__"]
PRED_CFGS = [(False, None), (True, None), (False, []), (False, ["x", "_x", "__str__"]), (True, ["pub"]), (False, ["__x", "__new__", "_"])]


def cfg_coq(ip: bool, all_) -> str:
    a = "None" if all_ is None else "(Some [" + "; ".join(f'"{x}"' for x in all_) + "])"
    return f"(mkCfg {'true' if ip else 'false'} {a})"


def preds_stage(ctx, vlib) -> None:
    """translator self-correspondence: gen/StubPreds.v against the real methods"""
    if vlib.REPO not in sys.path:
        sys.path.insert(0, vlib.REPO)
    from mypy.stubgen import ASTStubGenerator
    exprs, want = [], []
    for ip, all_ in PRED_CFGS:
        g = ASTStubGenerator(_all_=all_, include_private=ip)
        for nm in PRED_NAMES:
            for fn in (None, "m." + nm, "pyasn1_modules.rfc2437.univ"):
                exprs.append(f'is_private_name {cfg_coq(ip, all_)} "{nm}" ' + ("None" if fn is None else f'(Some "{fn}")'))
                want.append(g.is_private_name(nm, fn))
            for top in (True, False):
                g._indent = "" if top else "    "
                g._toplevel_names = ["x", "_x"]
                exprs.append(f'(is_not_in_all {cfg_coq(ip, all_)} {"true" if top else "false"} "{nm}", '
                             f'is_recorded_name {"true" if top else "false"} ["x"; "_x"] "{nm}")')
                want.append((g.is_not_in_all(nm), g.is_recorded_name(nm)))
            g._indent = ""
    hdr = "From Coq Require Import List String Bool.\nFrom C19 Require Import Strs.\nFrom Gen Require Import StubPreds.\nImport ListNotations.\nOpen Scope string_scope.\n"
    res = ctx.eval_cases("preds", hdr, exprs)
    if res is None:
        return
    bad = 0
    for e, w, r in zip(exprs, want, res):
        got = (r == "true") if isinstance(w, bool) else tuple(x.strip() == "true" for x in r.strip("()").split(","))
        if got != w:
            bad += 1
            if bad <= 5:
                ctx.broke("C", "generated predicate vs real method", f"{e}: model {r}, implementation {w}")
    ctx.add("evaluations", len(exprs))
    ctx.add("traces_validated_against_impl", len(exprs))
    ctx.cov["C_predicate_cases"] = len(exprs)
    ctx.cov["C_predicate_disagreements"] = bad
    ctx.log(f"C: {len(exprs)} evaluations of the generated predicates vs BaseStubGenerator methods, {bad} disagreements")


# ---------------------------------------------------------------- default values
def gen_dexpr(rng, depth: int):
    """(python source, Coq Defaults.dexpr)"""
    k = rng.choice(["name", "int", "float", "unary", "str", "bytes", "other"] if depth == 0 else
                   ["name", "int", "float", "unary", "str", "bytes", "tuple", "tuple", "list", "set", "dict", "other", "inf"])
    if k == "name":
        n = rng.choice(["None", "True", "False", "DEF_K"])
        return n, f'(DName "{n}")'
    if k == "int":
        z = rng.choice([0, 1, 7, 255, 10 ** 30])
        return str(z), f"(DInt {z}%Z)"
    if k == "float":
        t = rng.choice(["1.5", "0.0", "2.0", "1e+100"])
        return t, f'(DFloat (FFinite "{repr(float(t))}"))'
    if k == "inf":
        return "1e999", "(DFloat FInf)"
    if k == "unary":
        op = rng.choice(["-", "+", "~", "not "])
        a = rng.choice([("1", "(DInt 1%Z)"), ("2.5", '(DFloat (FFinite "2.5"))'), ("True", '(DName "True")'), ("(1)", "(DInt 1%Z)")])
        return f"{op}{a[0]}", f'(DUnary "{op.strip()}" {a[1]})'
    if k == "str":
        v = rng.choice(["a", "", "it's", "x" * rng.choice([3, 197, 198, 199, 250])])
        return repr(v), '(DStr "' + repr(v).replace('"', '""') + '")'
    if k == "bytes":
        return "b'x'", "(DBytes \"b'x'\")"
    if k == "other":
        s_ = rng.choice(["object()", "os.sep", "lambda: 0", "1 + 2", "[x for x in ()]", "--1", "1j"])
        return s_, "DOther" if s_ != "--1" else '(DUnary "-" (DUnary "-" (DInt 1%Z)))'
    n = rng.randint(0, 3)
    if k == "dict":
        items = [(gen_dexpr(rng, depth - 1), gen_dexpr(rng, depth - 1)) for _ in range(n)]
        star = rng.random() < 0.15
        src = "{" + ", ".join(f"{a[0]}: {b[0]}" for a, b in items) + (", **{}" if star and items else ("**{}" if star else "")) + "}"
        coq = "[" + "; ".join(f"(Some {a[1]}, {b[1]})" for a, b in items) + ("; " if star and items else "") + ("(None, DDict [])" if star else "") + "]"
        return src, f"(DDict {coq})"
    items1 = [gen_dexpr(rng, depth - 1) for _ in range(n)]
    coq = "[" + "; ".join(x[1] for x in items1) + "]"
    if k == "tuple":
        return "(" + ", ".join(x[0] for x in items1) + ("," if n == 1 else "") + ")", f"(DTuple {coq})"
    if k == "list":
        return "[" + ", ".join(x[0] for x in items1) + "]", f"(DList {coq})"
    if n == 0:
        return "set()", "DOther"
    return "{" + ", ".join(x[0] for x in items1) + "}", f"(DSet {coq})"


DEF_COQ_HEADER = """From Coq Require Import List String Bool ZArith DecimalString.
From C19 Require Import Defaults.
Import ListNotations.
Open Scope string_scope.
Definition show_z (z : Z) : string := NilZero.string_of_int (Z.to_int z).
Fixpoint text (ts : list xtok) : string :=
  match ts with
  | [] => ""
  | XComma :: ((XRP :: _) as r) => "," ++ text r      (* the closing of a one-element tuple is written ",)" *)
  | t :: r => render_x t show_z ++ text r
  end.
Definition tlen (ts : list xtok) : nat := String.length (text ts).
Fixpoint show (e : dexpr) : string :=
  let fix go (l : list dexpr) : string := match l with [] => "" | x :: r => show x ++ ";" ++ go r end in
  let fix gokv (l : list (option dexpr * dexpr)) : string :=
    match l with [] => "" | (Some k, v) :: r => show k ++ ":" ++ show v ++ ";" ++ gokv r | (None, v) :: r => "**" ++ show v ++ ";" ++ gokv r end in
  match e with
  | DName s => "N(" ++ s ++ ")" | DInt z => "I(" ++ show_z z ++ ")" | DFloat (FFinite t) => "F(" ++ t ++ ")" | DFloat FInf => "F(inf)"
  | DUnary op a => "U(" ++ op ++ show a ++ ")" | DStr s => "S(" ++ s ++ ")" | DBytes s => "B(" ++ s ++ ")"
  | DTuple l => "T[" ++ go l ++ "]" | DList l => "L[" ++ go l ++ "]" | DSet l => "E[" ++ go l ++ "]" | DDict kvs => "D[" ++ gokv kvs ++ "]"
  | DOther => "O"
  end.
"""


def canon_default(n: ast.AST) -> str:
    if isinstance(n, ast.Constant):
        v = n.value
        if v is Ellipsis:
            return "O"
        if v is None or isinstance(v, bool):
            return f"N({v})"
        if isinstance(v, int):
            return f"I({v})"
        if isinstance(v, float):
            return f"F({v!r})"
        if isinstance(v, str):
            return f"S({v!r})"
        if isinstance(v, bytes):
            return f"B({v!r})"
    if isinstance(n, ast.Name):
        return f"N({n.id})"
    if isinstance(n, ast.UnaryOp):
        op = {ast.USub: "-", ast.UAdd: "+", ast.Invert: "~", ast.Not: "not"}[type(n.op)]
        return f"U({op}{canon_default(n.operand)})"
    if isinstance(n, ast.Tuple):
        return "T[" + "".join(canon_default(x) + ";" for x in n.elts) + "]"
    if isinstance(n, ast.List):
        return "L[" + "".join(canon_default(x) + ";" for x in n.elts) + "]"
    if isinstance(n, ast.Set):
        return "E[" + "".join(canon_default(x) + ";" for x in n.elts) + "]"
    if isinstance(n, ast.Dict):
        return "D[" + "".join((canon_default(k) + ":" if k is not None else "**") + canon_default(v) + ";" for k, v in zip(n.keys, n.values)) + "]"
    return "?" + ast.dump(n)[:40]


def defaults_stage(ctx, vlib) -> None:
    rng = vlib.Rng(ctx.seed, "C19-defaults")
    cases, seen = [], set()
    for _ in range(ctx.n(1200, 8000)):
        src, coq = gen_dexpr(rng, rng.randint(0, 3))
        if src not in seen:
            seen.add(src)
            cases.append((src, coq))
    body = "import os\nDEF_K = 3\n" + "".join(f"def f{i}(x={src}): pass\n" for i, (src, _) in enumerate(cases))
    tmp = tempfile.mkdtemp(prefix="c19def-")
    try:
        open(os.path.join(tmp, "defmod.py"), "w").write(body)
        st, o = vlib.sh([vlib.PY, "-m", "mypy.stubgen", "--parse-only", "-o", os.path.join(tmp, "out"), "defmod.py"], cwd=tmp, env=vlib.py_env(), timeout=900)
        if st != 0:
            ctx.broke("C", "stubgen on the defaults module", f"exit {st}: {o[-800:]}")
            return
        txt = open(os.path.join(tmp, "out", "defmod.pyi")).read()
    finally:
        shutil.rmtree(tmp, ignore_errors=True)
    real = {int(m.group(1)): m.group(2) for m in re.finditer(r"(?m)^def f(\d+)\(x(?:: [^=]*?)?\s?=\s?(.*)\)(?: -> None)?: \.\.\.$", txt)}
    exprs = [f"let e := {coq} in (text (default_tokens tlen e), match parse_default (default_tokens tlen e) with Some p => show p | None => \"NONE\" end, "
             f"match parse_default (default_tokens tlen e) with Some p => closed p | None => false end, finite e)" for _, coq in cases]
    res = ctx.eval_cases("defaults", DEF_COQ_HEADER, exprs)
    if res is None:
        return
    bad = n_lit = 0
    for i, ((src, coq), r) in enumerate(zip(cases, res)):
        m = re.match(r'^\("((?:[^"]|"")*)", "((?:[^"]|"")*)", (true|false), (true|false)\)$', r)
        if not m:
            ctx.broke("C", "cannot read defaults model output", r[:200])
            return
        mtext, mshow, mclosed = m.group(1).replace('""', '"'), m.group(2).replace('""', '"'), m.group(3) == "true"
        rt = real.get(i)
        if rt != mtext:
            bad += 1
            if bad <= 5:
                ctx.broke("C", "model vs stubgen default text", f"`def f(x={src})`: model `{mtext}` stubgen `{rt}`")
            continue
        n_lit += rt != "..."
        try:
            node = ast.parse(rt, mode="eval").body
            ca = canon_default(node)
            free = sorted({x.id for x in ast.walk(node) if isinstance(x, ast.Name)} - {"True", "False", "None"})
        except SyntaxError:
            ca, free = "NONE", []
        if ca != mshow or (not free) != mclosed:
            bad += 1
            if bad <= 5:
                ctx.broke("C", "model default parser vs CPython ast", f"`{rt}`: model {mshow} closed={mclosed}; CPython {ca} free={free}")
            continue
        # the property on the implementation
        if ca == "NONE":
            ctx.violation("default:invalid", f"default `{src}` is rendered as `{rt}`: not a Python expression", {"kind": "default", "source": src, "stub": rt})
        elif free:
            ctx.violation("default:free-name:" + ",".join(free), f"default `{src}` is rendered as `{rt}`: free identifier(s) {free}",
                          {"kind": "default", "source": f"def f(x={src}): pass", "stub_default": rt})
        elif rt != "...":
            try:
                same = repr(eval(src, {"__builtins__": {}, "DEF_K": 3})) == repr(eval(rt, {"__builtins__": {}}))
            except Exception:  # noqa
                same = True     # source default not evaluable here (set() etc.): nothing to compare
            if not same:
                ctx.violation("default:value", f"default `{src}` is rendered as `{rt}` which has a different value", {"kind": "default", "source": src, "stub": rt})
    ctx.add("evaluations", len(cases))
    ctx.add("traces_validated_against_impl", len(cases))
    ctx.cov["C_default_cases"] = len(cases)
    ctx.cov["C_default_cases_rendered_as_literal"] = n_lit
    ctx.cov["C_default_disagreements"] = bad
    ctx.log(f"C: {len(cases)} default values ({n_lit} rendered as literals): text, CPython ast, free names, value; {bad} disagreements")


# ---------------------------------------------------------------- emitted definitions (coq/C19/Emit.v) vs real stubs
EMIT_NAMES_TOP = ["f", "g", "_h", "__k", "__d__", "X", "Y", "_Z", "v", "w", "_u", "__all2__", "A1", "A2"]
EMIT_NAMES_CLS = ["m", "n", "_p", "__q", "__eq__", "__str__", "__init__", "__slots__", "__repr__", "a", "_b", "In1", "__hash__"]


class EGen:
    """random module of the language of Emit.v: (python source lines, Coq item list)"""

    def __init__(self, rng):
        self.rng = rng

    def deco(self, in_class: bool):
        k = self.rng.choice(["plain", "call", "static"] if in_class else ["plain", "call"])
        if k == "plain":
            return "@dc0", '(mkDeco "dc0" true false)'
        if k == "call":
            return "@dcall(1)", '(mkDeco "dcall" false false)'
        return "@staticmethod", '(mkDeco "staticmethod" true false)'

    def items(self, depth: int, in_class: bool, ind: str, n: int, kinds: dict | None = None):
        src: list[str] = []
        coq: list[str] = []
        names = EMIT_NAMES_CLS if in_class else EMIT_NAMES_TOP
        selfarg = "self" if in_class else ""
        kinds = kinds if kinds is not None else {}
        group = {"func": "f", "dfunc": "f", "overload": "f", "prop": "f", "var": "v", "avar": "v", "alias": "v", "class": "c", "if": None, "rebind": None}
        for _ in range(n):
            nm = self.rng.choice(names)
            k = self.rng.choice(["func", "func", "dfunc", "var", "avar", "alias", "class", "class", "if", "overload", "prop", "rebind", "rebind"])
            # one name = one kind of definition per scope (a class re-bound as a variable makes the semantic analyser
            # report errors and changes what stubgen sees; alternatives of the SAME kind are what the model is about)
            # a name may be re-bound by a plain function, a class, or an un-annotated assignment after ANY earlier kind of
            # definition (that is what _toplevel_names / _vars are for); decorated functions, annotated variables and
            # aliases only bind fresh names (re-binding with those makes the semantic analyser report errors and rewrite
            # the AST, which is outside the model)
            if k in ("dfunc", "overload", "prop", "alias", "avar") and nm in kinds:
                continue
            if kinds.get(nm) == "F!" and k != "rebind":
                continue
            if group[k] is not None:
                kinds[nm] = "F!" if k in ("dfunc", "overload", "prop") else group[k]
            if k == "rebind":
                if not kinds:
                    continue
                nm = self.rng.choice(sorted(kinds))
                src.append(f"{ind}{nm} = dc0({nm})")
                coq.append(f'IVar "{nm}" false VPlain []')
                continue
            if k == "func":
                src.append(f"{ind}def {nm}({selfarg}): pass")
                coq.append(f'IFunc "{nm}" [] []')
            elif k == "dfunc":
                ds = [self.deco(in_class) for _ in range(self.rng.randint(1, 2))]
                st_ = any(d[0] == "@staticmethod" for d in ds)
                src += [ind + d[0] for d in ds] + [f"{ind}def {nm}({'' if st_ else selfarg}): pass"]
                coq.append(f'IFunc "{nm}" [' + "; ".join(d[1] for d in ds) + "] []")
            elif k == "var":
                src.append(f"{ind}{nm} = 1")
                coq.append(f'IVar "{nm}" false VPlain []')
            elif k == "avar":
                src.append(f"{ind}{nm}: int = 1")
                coq.append(f'IVar "{nm}" true VPlain []')
            elif k == "alias" and not in_class:
                form = self.rng.choice(["imp", "exp", "qual"])
                if form == "imp":
                    src.append(f"{ind}{nm} = list[int]"); coq.append(f'IVar "{nm}" false VAliasImplicit []')
                elif form == "exp":
                    src.append(f"{ind}{nm}: TypeAlias = list[int]"); coq.append(f'IVar "{nm}" true VAliasExplicit []')
                else:
                    src.append(f"{ind}{nm}: typing.TypeAlias = list[int]"); coq.append(f'IVar "{nm}" true VAliasQualified []')
            elif k == "class" and depth > 0:
                bs, bc = self.items(depth - 1, True, ind + "    ", self.rng.randint(0, 4))
                src.append(f"{ind}class {nm}:")
                src += bs or [ind + "    pass"]
                coq.append(f'IClass "{nm}" [] [' + "; ".join(bc) + "]")
            elif k == "if" and depth > 0:
                b1s, b1c = self.items(depth - 1, in_class, ind + "    ", self.rng.randint(1, 2), kinds)
                b2s, b2c = self.items(depth - 1, in_class, ind + "    ", self.rng.randint(1, 2), kinds)
                src += [f"{ind}if KCOND:"] + (b1s or [ind + "    pass"]) + [f"{ind}else:"] + (b2s or [ind + "    pass"])
                coq.append("IIf [" + "; ".join(b1c) + "] [" + "; ".join(b2c) + "]")
            elif k == "overload":
                a1 = f"{selfarg}, x: int" if in_class else "x: int"
                a2 = f"{selfarg}, x: str" if in_class else "x: str"
                a3 = f"{selfarg}, x" if in_class else "x"
                src += [f"{ind}@overload", f"{ind}def {nm}({a1}) -> int: ...", f"{ind}@overload", f"{ind}def {nm}({a2}) -> str: ...",
                        f"{ind}def {nm}({a3}): return x"]
                ov = '([mkDeco "overload" true true], [])'
                coq.append(f'IOverloaded "{nm}" [{ov}; {ov}; ([], [])]')
            elif k == "prop" and in_class:
                src += [f"{ind}@property", f"{ind}def {nm}(self): return 1", f"{ind}@{nm}.setter", f"{ind}def {nm}(self, v): pass"]
                coq.append(f'IOverloaded "{nm}" [([mkDeco "property" true false], []); ([mkDeco "{nm}" true false], [])]')
        return src, coq


EMIT_HEADER_SRC = ("import typing\nfrom typing import TypeAlias, overload\n"
                   "def dc0(f): return f\ndef dcall(n): return dc0\nKCOND = 1\n")
EMIT_HEADER_COQ = 'IFunc "dc0" [] []; IFunc "dcall" [] []; IVar "KCOND" false VPlain []'
EMIT_COQ_HEADER = """From Coq Require Import List String Bool.
From C19 Require Import Strs Emit.
From Gen Require Import StubPreds.
Import ListNotations.
Open Scope string_scope.
Fixpoint show (o : out) : string :=
  let fix go (l : list out) : string := match l with [] => "" | x :: r => show x ++ ";" ++ go r end in
  match o with
  | OFunc n ds _ => "F:" ++ n ++ "[" ++ String.concat "," ds ++ "]"
  | OClass n _ body => "C:" ++ n ++ "{" ++ go body ++ "}"
  | OVar n _ | OAlias n _ => "V:" ++ n
  end.
Definition shows (l : list out) : string := String.concat ";" (map show l).
"""


def stub_show(body: list[ast.stmt]) -> str:
    out = []
    for st_ in body:
        if isinstance(st_, (ast.FunctionDef, ast.AsyncFunctionDef)):
            ds = []
            for d in st_.decorator_list:
                x = d.func if isinstance(d, ast.Call) else d
                while isinstance(x, ast.Attribute):
                    x = x.value
                ds.append(x.id if isinstance(x, ast.Name) else "?")
            out.append(f"F:{st_.name}[{','.join(ds)}]")
        elif isinstance(st_, ast.ClassDef):
            inner = stub_show([x for x in st_.body if not (isinstance(x, ast.Expr) and isinstance(x.value, ast.Constant))])
            out.append("C:" + st_.name + "{" + "".join(x + ";" for x in inner.split(";;") if x) + "}" if False else "C:" + st_.name + "{" + inner_join(inner) + "}")
        elif isinstance(st_, ast.AnnAssign) and isinstance(st_.target, ast.Name):
            out.append("V:" + st_.target.id)
        elif isinstance(st_, ast.Assign) and len(st_.targets) == 1 and isinstance(st_.targets[0], ast.Name):
            out.append("V:" + st_.targets[0].id)
        elif isinstance(st_, (ast.Import, ast.ImportFrom)):
            continue
        else:
            out.append("?" + type(st_).__name__)
    return "\x00".join(out)


def inner_join(inner: str) -> str:
    return "".join(x + ";" for x in inner.split("\x00") if x)


def emit_stage(ctx, vlib) -> None:
    rng = vlib.Rng(ctx.seed, "C19-emit")
    g = EGen(rng)
    cfgs = [(False, None), (False, "all"), (True, None)]
    n_mod = ctx.n(40, 300)
    mods = []
    for i in range(n_mod):
        src, coq = g.items(2, False, "", rng.randint(2, 7))
        ip, al = cfgs[i % 3]
        all_ = None
        if al:
            tops = sorted({m.group(1) for l in src for m in [re.match(r"(?:def |class )?(\w+)", l)] if m and not l.startswith((" ", "@", "if", "else"))} - {"def", "class"})
            all_ = [t for t in tops if rng.random() < 0.6] or tops[:1]
        mods.append((f"em{i:03d}", src, coq, ip, all_))
    # FIXED directed shard (every tier, every seed, independent of the RNG): a decorated definition that is SKIPPED because the
    # name is already recorded must not leave its decorators behind for the next emitted function
    dc = '(mkDeco "dc0" true false)'
    cm = '(mkDeco "contextlib" true false)'
    directed = [
        (["if KCOND:", "    @dc0", "    def locked(): pass", "else:", "    @dc0", "    def locked(): pass", "def after(): pass"],
         [f'IIf [IFunc "locked" [{dc}] []] [IFunc "locked" [{dc}] []]', 'IFunc "after" [] []']),
        (["import contextlib", "if KCOND:", "    @contextlib.contextmanager", "    def locked(): yield 1", "else:", "    @contextlib.contextmanager",
          "    def locked(): yield 2", "def after(): pass", "@dc0", "def last(): pass"],
         [f'IIf [IFunc "locked" [{cm}] []] [IFunc "locked" [{cm}] []]', 'IFunc "after" [] []', f'IFunc "last" [{dc}] []']),
        (["def f(): pass", "sep1 = 1", "@dc0", "def f(): pass", "def g(): pass"],
         ['IFunc "f" [] []', 'IVar "sep1" false VPlain []', f'IFunc "f" [{dc}] []', 'IFunc "g" [] []']),
        (["import contextlib", "def f(): pass", "sep1 = 1", "@contextlib.contextmanager", "def f(): yield 1", "class After:", "    pass", "def g(): pass"],
         ['IFunc "f" [] []', 'IVar "sep1" false VPlain []', f'IFunc "f" [{cm}] []', 'IClass "After" [] []', 'IFunc "g" [] []']),
        (["v1 = 1", "@dc0", "@dcall(1)", "def v1(): pass", "def g(): pass"],
         ['IVar "v1" false VPlain []', f'IFunc "v1" [{dc}; (mkDeco "dcall" false false)] []', 'IFunc "g" [] []']),
        (["class C:", "    if KCOND:", "        @property", "        def p(self): return 1", "    else:", "        @property", "        def p(self): return 2",
          "    def q(self): pass", "if KCOND:", "    @dc0", "    def h(): pass", "else:", "    @dc0", "    def h(): pass", "class D:", "    def m(self): pass"],
         ['IClass "C" [] [IIf [IFunc "p" [(mkDeco "property" true false)] []] [IFunc "p" [(mkDeco "property" true false)] []]; IFunc "q" [] []]',
          f'IIf [IFunc "h" [{dc}] []] [IFunc "h" [{dc}] []]', 'IClass "D" [] [IFunc "m" [] []]']),
    ]
    for k, (dsrc, dcoq) in enumerate(directed):
        mods.append((f"emd{k:02d}", dsrc, dcoq, False, None))
    tmp = tempfile.mkdtemp(prefix="c19emit-")
    stubs: dict[tuple[str, str], str] = {}
    try:
        for ip in (False, True):
            d = os.path.join(tmp, "ip" if ip else "np")
            os.makedirs(d)
            names = []
            for nm, src, coq, mip, all_ in mods:
                if mip != ip:
                    continue
                body = EMIT_HEADER_SRC + (f"__all__ = {all_!r}\n" if all_ is not None else "") + "\n".join(src) + "\n"
                open(os.path.join(d, nm + ".py"), "w").write(body)
                names.append(nm + ".py")
            for mode in ("parse", "semantic"):
                out = os.path.join(d, "out_" + mode)
                st, o = vlib.sh([vlib.PY, "-m", "mypy.stubgen", *MODES[mode], *( ["--include-private"] if ip else []), "-o", out, *names],
                                cwd=d, env=vlib.py_env(), timeout=900)
                if st != 0:
                    ctx.broke("C", "stubgen on the emit modules", f"{mode} include_private={ip}: exit {st}: {o[-800:]}")
                    return
                for nm, *_ in mods:
                    pth = os.path.join(out, nm + ".pyi")
                    if os.path.exists(pth):
                        stubs[(nm, mode)] = open(pth).read()
    finally:
        shutil.rmtree(tmp, ignore_errors=True)
    exprs = []
    for nm, src, coq, ip, all_ in mods:
        its = "[" + "; ".join([EMIT_HEADER_COQ] + coq) + "]"
        # stubgen on FILES in --parse-only mode never learns __all__ (it comes from the import or the semantic analysis)
        env = '["staticmethod"; "property"; "overload"; "dcall"]'
        exprs.append(f"(shows (emit_module {cfg_coq(ip, None)} {its}), shows (emit_module {cfg_coq(ip, all_)} {its}), "
                     f"no_redefinition_guard {its}, refs_guard {cfg_coq(ip, None)} {env} {its}, refs_guard {cfg_coq(ip, all_)} {env} {its}, "
                     f"String.concat \",\" (overload_names {its}))")
    res = ctx.eval_cases("emit", EMIT_COQ_HEADER, exprs, per_file=100)
    if res is None:
        return
    bad = 0
    n_guard = {"modules": 0, "no_redefinition_guard": 0, "refs_guard_parse": 0, "refs_guard_semantic": 0}
    for (nm, src, coq, ip, all_), r in zip(mods, res):
        mm = re.match(r'^\("([^"]*)", "([^"]*)", (true|false), (true|false), (true|false), "([^"]*)"\)$', r.strip())
        if not mm:
            ctx.broke("C", "cannot read emit model output", r[:200])
            return
        g_nodup = mm.group(3) == "true"
        ovl = set(mm.group(6).split(",")) - {""}
        n_guard["modules"] += 1
        n_guard["no_redefinition_guard"] += g_nodup
        for mode in ("parse", "semantic"):
            model = mm.group(1) if mode == "parse" else mm.group(2)
            g_refs = (mm.group(4) if mode == "parse" else mm.group(5)) == "true"
            n_guard["refs_guard_" + mode] += g_refs
            # the guarded theorems, checked on the real stub
            stub0 = stubs.get((nm, mode))
            if stub0 is not None:
                tb = [x for x in ast.parse(stub0).body]
                tops = [x.name if isinstance(x, (ast.FunctionDef, ast.ClassDef)) else (x.target.id if isinstance(x, ast.AnnAssign) and isinstance(x.target, ast.Name)
                        else (x.targets[0].id if isinstance(x, ast.Assign) and isinstance(x.targets[0], ast.Name) else None)) for x in tb]
                tops = [t for t in tops if t and t != "__all__"]
                if g_nodup:
                    dups = sorted({t for t in tops if tops.count(t) > 1 and t not in ovl})
                    if dups:
                        ctx.violation(f"emit-guarded:unique:{mode}", f"no_redefinition_guard holds but the {mode} stub defines {dups} twice",
                                      {"kind": "emit", "mode": mode, "source": "\n".join(src), "stub": stub0})
                if g_refs:
                    import builtins as _b
                    used = {d.id for x in tb if isinstance(x, ast.FunctionDef) for d0 in x.decorator_list
                            for d in [d0.func if isinstance(d0, ast.Call) else d0] if isinstance(d, ast.Name)}
                    missing = sorted(u for u in used if u not in tops and not hasattr(_b, u) and u not in ("overload",))
                    if missing:
                        ctx.violation(f"emit-guarded:refs:{mode}", f"refs_guard holds but the {mode} stub uses undefined decorator(s) {missing}",
                                      {"kind": "emit", "mode": mode, "source": "\n".join(src), "stub": stub0})
            stub = stubs.get((nm, mode))
            if stub is None:
                ctx.broke("C", "no stub for an emit module", f"{nm} {mode}")
                bad += 1
                continue
            tree = ast.parse(stub)
            body = [x for x in tree.body if not (isinstance(x, ast.Assign) and isinstance(x.targets[0], ast.Name) and x.targets[0].id == "__all__")]
            real = ";".join(x for x in stub_show(body).split("\x00") if x)
            if real != model:
                bad += 1
                if bad <= 4:
                    ctx.broke("C", "model vs stubgen emitted definitions", f"{mode} include_private={ip} __all__={all_}:\n" + "\n".join(src) +
                              f"\nmodel: {model}\nstub : {real}")
    ctx.add("evaluations", len(mods))
    ctx.add("traces_validated_against_impl", 2 * len(mods))
    ctx.cov["C_emit_modules"] = len(mods)
    ctx.cov["C_emit_disagreements"] = bad
    ctx.cov["C_emit_guard"] = n_guard      # how often the hypotheses of definitions_unique_guarded / references_defined_guarded hold
    ctx.log(f"C: {len(mods)} modules of the Emit.v language x 2 modes (names, kinds, order, nesting, decorators of the stub), {bad} disagreements; guards hold: {n_guard}")


def run(ctx) -> None:
    import vlib
    ctx.cov["rule"] = ("S: generated modules (19 construct families; unit modules of one family + random mixes; with/without __all__ and "
                       "`from __future__ import annotations`) x 3 stubgen modes; a case is one (module, mode) pair checked by ast.parse, "
                       "mypy, stubtest and the structural comparison")
    ctx.assumptions += [
        "annotation printer, default renderer (get_str_default_of_node/get_str_type_of_node) and infer_method_arg_types are not modelled: "
        "a parameter carries the printed annotation, rendered default and inferred type as data (the tie uses forms whose rendering is known)",
        "the parser of coq/C19/Sig.v is tied to CPython's grammar by ast.parse on every printed signature of the run",
        "ImportTracker model (coq/C19/Imports.v) returns one binding per name in its own order; the real sorted/grouped lines are compared as sets of bindings",
        "whether the emitter registers (add_import*) and requires every name it prints is NOT modelled: covered by the S oracle (mypy on the stub: name-defined)",
        "S oracle: stubtest reports that also occur when the source module is checked against itself are subtracted as oracle strictness",
        "hand-written generator/normaliser in tools/harness/C19.py (structural comparison normalises qualification, quoting, Optional/Union)",
    ]
    try:
        from extractors import t19
        t19.generate()
    except Exception as e:  # noqa  (fail-closed translator: Unsupported and everything else)
        ctx.broke("T", "t19 translator (gen/StubPreds.v)", repr(e))
    ctx.prove("C19/Properties.v", ["C19", "gen"])
    if os.environ.get("C19_SKIP_C") != "1":
        c_stage(ctx, vlib)
        grammar_stage(ctx, vlib)
        ann_stage(ctx, vlib)
        it_stage(ctx, vlib)
        preds_stage(ctx, vlib)
        defaults_stage(ctx, vlib)
        emit_stage(ctx, vlib)
    if os.environ.get("C19_SKIP_S") != "1":
        s_stage(ctx, vlib)
    ctx.cov["distinct_nontrivial"] = ctx.cov.get("C_signature_cases", 0) + ctx.cov.get("S_stubs_parsed", 0)


def replay(ctx, path: str) -> None:
    d = json.load(open(path))
    print(json.dumps(d, indent=1)[:6000])
    run(ctx)
