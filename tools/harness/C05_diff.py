"""C05 — S oracle: differential search, mypyc-compiled extension vs the same source under CPython.

Generated typed modules (type-directed random expressions + a library of construct templates + generated class
hierarchies with traits/glue) are compiled with the real mypyc from vlib.REPO under several configurations; the
same interpreted driver then runs against the plain .py and against the .so (subprocesses) and the transcripts
(results as repr, exception type + message, state of passed-in objects, printed output) must be identical.
run-*.test programs are reused the same way (their own driver, compiled vs interpreted, expected text ignored).
"""
from __future__ import annotations

import glob
import hashlib
import os
import re
import shutil
import tempfile
import time
from concurrent.futures import ThreadPoolExecutor
from typing import Any

import vlib

CONFIGS = [
    {"name": "O0-single", "opt": "0", "multi_file": False, "separate": False},
    {"name": "O3-single", "opt": "3", "multi_file": False, "separate": False},
    {"name": "O3-multifile", "opt": "3", "multi_file": True, "separate": False},
    {"name": "O0-separate", "opt": "0", "multi_file": False, "separate": True},
]

INTS = [0, 1, -1, 2, 3, -3, 7, 10, -10, 255, 256, 2 ** 30 - 1, 2 ** 30, -2 ** 30, 2 ** 31 - 1, 2 ** 31, -2 ** 31, 2 ** 32,
        2 ** 61, 2 ** 62 - 1, 2 ** 62, -2 ** 62, -2 ** 62 - 1, 2 ** 63 - 1, 2 ** 63, -2 ** 63, -2 ** 63 - 1, 2 ** 64, 2 ** 64 + 1,
        -2 ** 64, 10 ** 20, -10 ** 30]
STRS = ["", "a", "ab", "Hello", "x y", "été", "0", "a,b,,c", "  pad ", "AbC"]
LISTS = [[], [1], [1, 2, 3], [3, 1, 2], [0, -1, 2 ** 62, 5], [7] * 5]


class Gen:
    def __init__(self, rng: vlib.Rng, hist: dict[str, int]) -> None:
        self.r = rng
        self.hist = hist
        self.k = 0

    def note(self, f: str) -> None:
        self.hist[f] = self.hist.get(f, 0) + 1

    def pick(self, xs):
        return xs[self.r.randrange(len(xs))]

    def expr(self, ty: str, env: dict[str, list[str]], d: int) -> str:
        r = self.r
        leaf = d <= 0 or r.random() < 0.25
        vs = env.get(ty, [])
        if ty == "int":
            if leaf:
                return self.pick(vs) if vs and r.random() < 0.7 else repr(self.pick(INTS))
            c = r.randrange(22)
            e = lambda t="int": self.expr(t, env, d - 1)  # noqa
            if c < 6:
                op = self.pick(["+", "-", "*", "&", "|", "^"])
                self.note("int" + op)
                return f"({e()} {op} {e()})"
            if c < 8:
                op = self.pick(["//", "%"])
                self.note("int" + op)
                return f"({e()} {op} {e()})"
            if c == 8:
                self.note("int<<")
                return f"({e()} << ({e()} & 63))"
            if c == 9:
                self.note("int>>")
                return f"({e()} >> ({e()} & 127))"
            if c == 10:
                self.note("int**")
                return f"({e()} ** ({e()} & 3))"
            if c == 11:
                self.note("unary")
                return f"({self.pick(['-', '~', '+'])}{e()})"
            if c == 12:
                self.note("abs/min/max")
                return self.pick([f"abs({e()})", f"min({e()}, {e()})", f"max({e()}, {e()})"])
            if c == 13:
                self.note("len")
                return f"len({e(self.pick(['str', 'list']))})"
            if c == 14:
                self.note("list-index")
                return f"{e('list')}[{e()} & 3]"
            if c == 15:
                self.note("cond-expr")
                return f"({e()} if {e('bool')} else {e()})"
            if c == 16:
                self.note("sum")
                return f"sum({e('list')})"
            if c == 17:
                self.note("int(bool)")
                return f"int({e('bool')})"
            if c == 18:
                self.note("ord/str-index")
                return f"ord({e('str')}[{e()} & 1])"
            if c == 19:
                self.note("str.find/count")
                return f"{e('str')}.{self.pick(['find', 'count'])}({e('str')})"
            if c == 20:
                self.note("int(str)")
                return f"int(str({e()}))"
            self.note("divmod")
            return f"divmod({e()}, {e()})[{self.pick([0, 1])}]"
        if ty == "bool":
            if leaf:
                return self.pick(vs) if vs and r.random() < 0.6 else self.pick(["True", "False"])
            c = r.randrange(9)
            e = lambda t="bool": self.expr(t, env, d - 1)  # noqa
            if c < 3:
                op = self.pick(["<", "<=", "==", "!=", ">", ">="])
                self.note("cmp")
                return f"({e('int')} {op} {e('int')})"
            if c == 3:
                self.note("cmp-chain")
                return f"({e('int')} < {e('int')} <= {e('int')})"
            if c == 4:
                self.note("boolop")
                return f"({e()} {self.pick(['and', 'or'])} {e()})"
            if c == 5:
                return f"(not {e()})"
            if c == 6:
                self.note("str-cmp")
                return self.pick([f"({e('str')} == {e('str')})", f"({e('str')} < {e('str')})", f"({e('str')} in {e('str')})",
                                  f"{e('str')}.startswith({e('str')})", f"{e('str')}.endswith({e('str')})"])
            if c == 7:
                self.note("in-list")
                return f"({e('int')} in {e('list')})"
            self.note("list-cmp")
            return f"({e('list')} == {e('list')})"
        if ty == "str":
            if leaf:
                return self.pick(vs) if vs and r.random() < 0.6 else repr(self.pick(STRS))
            c = r.randrange(11)
            e = lambda t="str": self.expr(t, env, d - 1)  # noqa
            if c == 0:
                return f"({e()} + {e()})"
            if c == 1:
                self.note("str*")
                return f"({e()} * ({e('int')} & 3))"
            if c == 2:
                self.note("str-slice")
                return f"{e()}[({e('int')} & 3):({e('int')} & 7)]"
            if c == 3:
                self.note("str-method")
                return f"{e()}.{self.pick(['upper', 'lower', 'strip', 'lstrip', 'rstrip'])}()"
            if c == 4:
                self.note("str(int)")
                return f"str({e('int')})"
            if c == 5:
                self.note("fstring")
                return "f\"{" + e('int') + "}:{" + e() + "}" + self.pick(["", "{" + e('int') + ":x}", "{" + e('bool') + "}"]) + "\""
            if c == 6:
                self.note("str.replace")
                return f"{e()}.replace({e()}, {e()})"
            if c == 7:
                self.note("join/split")
                return self.pick([f"'-'.join({e()}.split(','))", f"','.join([{e()}, {e()}])", f"{e()}.join([str(x) for x in {e('list')}])"])
            if c == 8:
                self.note("percent-format")
                return f"('%d|%s' % ({e('int')}, {e()}))"
            if c == 9:
                self.note("str-index")
                return f"{e()}[{e('int')} & 1]"
            self.note("format")
            return f"'{{}}/{{}}'.format({e('int')}, {e()})"
        if ty == "list":
            if leaf:
                return self.pick(vs) if vs and r.random() < 0.6 else (repr(self.pick(LISTS)).replace("[]", "[0][:0]"))
            c = r.randrange(9)
            e = lambda t="list": self.expr(t, env, d - 1)  # noqa
            if c == 0:
                return f"[{e('int')}, {e('int')}]"
            if c == 1:
                return f"({e()} + {e()})"
            if c == 2:
                self.note("list-slice")
                return f"{e()}[({e('int')} & 3):({e('int')} & 7)]"
            if c == 3:
                self.note("listcomp")
                return f"[(x * {e('int')}) for x in {e()} if x != {e('int')}]"
            if c == 4:
                self.note("sorted/reversed")
                return self.pick([f"sorted({e()})", f"list(reversed({e()}))"])
            if c == 5:
                self.note("range")
                return self.pick([f"list(range({e('int')} & 7))", f"list(range({e('int')} & 7, {e('int')} & 15, 2))",
                                  f"list(range(({e('int')} & 7), -1, -1))"])
            if c == 6:
                self.note("list*")
                return f"({e()} * ({e('int')} & 3))"
            if c == 7:
                self.note("enumerate/zip")
                return self.pick([f"[i + x for i, x in enumerate({e()})]", f"[x - y for x, y in zip({e()}, {e()})]"])
            self.note("dict")
            return f"sorted({{x: x + 1 for x in {e()}}}.values())"
        raise ValueError(ty)

    PYTYPE = {"int": "int", "bool": "bool", "str": "str", "list": "List[int]"}

    @staticmethod
    def clamps(ind: str) -> list[str]:
        """Keep values bounded across loop iterations (repeated squaring / doubling would not terminate in practice)."""
        return [f"{ind}if i0 > LIM or i0 < -LIM:", f"{ind}    i0 = i0 % 1000003",
                f"{ind}if i1 > LIM or i1 < -LIM:", f"{ind}    i1 = i1 % 1000003",
                f"{ind}if len(s) > 60:", f"{ind}    s = s[:7]", f"{ind}if len(s0) > 60:", f"{ind}    s0 = s0[:5]",
                f"{ind}if len(l) > 60:", f"{ind}    del l[7:]", f"{ind}if len(m0) > 60:", f"{ind}    del m0[5:]"]

    def stmts(self, env: dict[str, list[str]], d: int, ind: str, n: int, in_loop: bool) -> list[str]:
        out: list[str] = []
        r = self.r
        for _ in range(n):
            c = r.randrange(13)
            ty = self.pick(["int", "int", "str", "list", "bool"])
            tgt = self.pick([v for v in env[ty] if v[0] in "ijsmc"] or env[ty])
            if c < 3 or d <= 0:
                out.append(f"{ind}{tgt} = {self.expr(ty, env, 2)}")
            elif c == 3:
                self.note("augassign")
                v = self.pick([v for v in env["int"] if v[0] == "i"])
                out.append(f"{ind}{v} {self.pick(['+=', '-=', '*=', '|=', '^=', '//=', '%='])} {self.expr('int', env, 1)}")
            elif c == 4:
                self.note("if")
                out.append(f"{ind}if {self.expr('bool', env, 2)}:")
                out += self.stmts(env, d - 1, ind + "    ", 2, in_loop)
                if r.random() < 0.6:
                    if r.random() < 0.4:
                        out.append(f"{ind}elif {self.expr('bool', env, 1)}:")
                        out += self.stmts(env, d - 1, ind + "    ", 1, in_loop)
                    out.append(f"{ind}else:")
                    out += self.stmts(env, d - 1, ind + "    ", 2, in_loop)
            elif c == 5:
                self.note("for")
                self.k += 1
                x = f"x{self.k}"
                it = self.pick([f"range({self.expr('int', env, 1)} & 7)", self.expr("list", env, 1), f"{self.expr('list', env, 1)}[::-1]"])
                out.append(f"{ind}for {x} in {it}:")
                env2 = dict(env, int=env["int"] + [x])
                out += self.clamps(ind + "    ")
                out += self.stmts(env2, d - 1, ind + "    ", 2, True)
                if r.random() < 0.3:
                    self.note("for-else")
                    out.append(f"{ind}else:")
                    out += self.stmts(env, d - 1, ind + "    ", 1, in_loop)
            elif c == 6:
                self.note("while")
                self.k += 1
                w = f"w{self.k}"
                out.append(f"{ind}{w} = 0")
                out.append(f"{ind}while {w} < ({self.expr('int', env, 1)} & 7):")
                out.append(f"{ind}    {w} += 1")
                env2 = dict(env, int=env["int"] + [w])
                out += self.clamps(ind + "    ")
                out += self.stmts(env2, d - 1, ind + "    ", 2, True)
            elif c == 7:
                self.note("try")
                k = r.randrange(3)
                out.append(f"{ind}try:")
                # mypyc does not implement break/continue out of a try/finally: not generated
                out += self.stmts(env, d - 1, ind + "    ", 2, in_loop and k == 0)
                if k != 1:
                    out.append(f"{ind}except (ZeroDivisionError, IndexError, ValueError) as ex:")
                    out.append(f"{ind}    s0 = type(ex).__name__ + ':' + str(ex)")
                if k >= 1:
                    self.note("finally")
                    out.append(f"{ind}finally:")
                    out.append(f"{ind}    i0 = i0 + 1")
            elif c == 8 and in_loop:
                self.note("break/continue")
                out.append(f"{ind}if {self.expr('bool', env, 1)}:")
                out.append(f"{ind}    {self.pick(['break', 'continue'])}")
            elif c == 9:
                self.note("list-mutation")
                v = self.pick(env["list"])
                out.append(self.pick([f"{ind}{v}.append({self.expr('int', env, 1)})", f"{ind}{v}.extend({self.expr('list', env, 1)})",
                                      f"{ind}{v}.insert({self.expr('int', env, 0)} & 3, {self.expr('int', env, 1)})",
                                      f"{ind}if {v}:\n{ind}    i0 = {v}.pop()", f"{ind}{v}.sort()", f"{ind}{v}.reverse()",
                                      f"{ind}{v}[{self.expr('int', env, 0)} & 1] = {self.expr('int', env, 1)}"]))
            elif c == 10:
                self.note("unpack")
                out.append(f"{ind}i0, i1 = i1, {self.expr('int', env, 1)}")
            elif c == 11:
                self.note("closure")
                self.k += 1
                out.append(f"{ind}def h{self.k}(q: int) -> int:")
                out.append(f"{ind}    return q + {self.pick(env['int'])} + len({self.pick(env['str'])})")
                out.append(f"{ind}i1 = h{self.k}({self.expr('int', env, 1)})")
            else:
                self.note("return-in-try" if False else "assert")
                out.append(f"{ind}assert {self.expr('bool', env, 1)} or True, {self.expr('str', env, 1)}")
        return out

    def function(self, name: str) -> tuple[str, str]:
        env = {"int": ["a", "b", "i0", "i1"], "str": ["s", "s0"], "list": ["l", "m0"], "bool": ["c0"]}
        ret = self.pick(["int", "int", "str", "list", "bool"])
        lines = [f"def {name}(a: int, b: int, s: str, l: List[int]) -> {self.PYTYPE[ret]}:",
                 "    i0 = a", "    i1 = b", "    s0 = s", "    m0 = [b, a]", "    c0 = a < b"]
        lines += self.stmts(env, 2, "    ", self.r.randint(2, 5), False)
        lines.append(f"    return {self.expr(ret, env, 2)}")
        return name, "\n".join(lines)


FEATURES_A = '''
class Shape:
    """native class with properties, class attribute, __eq__-free repr via method"""
    count: int = 0
    def __init__(self, w: int, h: int = 2) -> None:
        self.w = w
        self.h = h
        self._tag = "shape"
    @property
    def area(self) -> int:
        return self.w * self.h
    @property
    def tag(self) -> str:
        return self._tag
    @tag.setter
    def tag(self, v: str) -> None:
        self._tag = v + "!"
    def scale(self, k: int) -> "Shape":
        return Shape(self.w * k, self.h * k)
    def describe(self) -> str:
        return f"{self.tag}:{self.w}x{self.h}={self.area}"
    @staticmethod
    def unit() -> "Shape":
        return Shape(1, 1)
    @classmethod
    def square(cls, n: int) -> "Shape":
        return cls(n, n)

class Square(Shape):
    def __init__(self, n: int) -> None:
        super().__init__(n, n)
        self.tag = "sq"
    def describe(self) -> str:
        return "Square<" + super().describe() + ">"

@trait
class Named:
    def name(self) -> str:
        return "anon"
    def greet(self, who: str = "you") -> str:
        return self.name() + " greets " + who

class Person(Named):
    def __init__(self, n: str) -> None:
        self.n = n
    def name(self) -> str:
        return self.n

class Robot(Shape, Named):
    def __init__(self) -> None:
        super().__init__(3)
    def name(self) -> str:
        return "robot" + str(self.area)

class MyErr(Exception):
    def __init__(self, code: int) -> None:
        super().__init__("code %d" % code)
        self.code = code

class Ctx:
    def __init__(self, log: List[str], swallow: bool) -> None:
        self.log = log
        self.swallow = swallow
    def __enter__(self) -> "Ctx":
        self.log.append("enter")
        return self
    def __exit__(self, t: object, v: object, tb: object) -> bool:
        self.log.append("exit:" + (type(v).__name__ if v is not None else "none"))
        return self.swallow

BIG: Final = 2 ** 62
LIM: Final = 2 ** 200
COUNTER = 0

def shapes(n: int) -> List[str]:
    xs: List[Shape] = [Shape(n), Square(n), Shape.unit(), Shape.square(n + 1), Robot(), Shape(n).scale(BIG)]
    return [x.describe() for x in xs]

def set_tag(sh: Shape, t: str) -> str:
    sh.tag = t
    return sh.tag

def greet_all(ns: List[Named], who: Optional[str]) -> List[str]:
    return [x.greet() if who is None else x.greet(who) for x in ns]

def mk_named(k: int) -> Named:
    if k % 2 == 0:
        return Person("p" + str(k))
    return Robot()

def kw(a: int, b: int = 10, *args: int, c: int = 100, **kws: int) -> str:
    return f"{a},{b},{args},{c},{sorted(kws.items())}"

def posonly(a: int, b: int = 5, /, c: int = 7, *, d: int) -> int:
    return a * 1000 + b * 100 + c * 10 + d

def call_shapes(n: int) -> List[str]:
    t = (n, n + 1)
    d = {"c": n, "z": 1}
    return [kw(1), kw(1, 2), kw(1, 2, 3, 4), kw(*t), kw(1, c=n), kw(a=n, z=3), kw(n, **d), kw(*t, *t, **d),
            str(posonly(1, d=n & 7)), str(posonly(1, 2, 3, d=4)), str(posonly(1, 2, c=9, d=0))]

def gen_count(n: int) -> Generator[int, Optional[int], None]:
    i = 0
    try:
        while i < n:
            got = yield i * i
            if got is not None:
                i += got
            i += 1
    finally:
        global COUNTER
        COUNTER += 1

def gen_chain(n: int) -> Iterator[int]:
    yield -1
    yield from gen_count(n)
    yield from [n, n + BIG]

def use_gens(n: int) -> List[int]:
    out = list(gen_chain(n & 7))
    g = gen_count(10)
    out.append(next(g))
    out.append(g.send(3))
    g.close()
    out.append(sum(x for x in gen_count(n & 7) if x % 2 == 0))
    out.append(COUNTER)
    return out

def make_counter(start: int) -> Callable[[int], int]:
    total = start
    def add(k: int) -> int:
        nonlocal total
        total += k
        return total
    return add

def closures(n: int) -> List[int]:
    c1 = make_counter(n)
    c2 = make_counter(BIG)
    fs = [lambda x, k=k: x * k + n for k in range(3)]
    return [c1(1), c1(n), c2(BIG), c2(-1)] + [f(2) for f in fs]

def try_finally(n: int, log: List[str]) -> int:
    for i in range(5):
        try:
            try:
                if i == n:
                    raise MyErr(i)
                if i == n + 1:
                    return i * 100
                if i != n - 1:
                    log.append("body%d" % i)
            finally:
                log.append("fin%d" % i)
        except MyErr as e:
            log.append("caught " + str(e) + " " + str(e.code))
            if n % 2 == 0:
                break
        else:
            log.append("else%d" % i)
    else:
        log.append("loop-else")
    return -1

def reraise(n: int) -> str:
    try:
        try:
            return str(10 // n)
        except ZeroDivisionError as e:
            raise ValueError("wrapped: " + str(e)) from e
        finally:
            n += 1
    except ValueError as e2:
        return type(e2).__name__ + "/" + str(e2)

def with_ctx(n: int, log: List[str]) -> str:
    with Ctx(log, n % 2 == 0) as c:
        log.append("in")
        if n >= 2:
            raise MyErr(n)
    return "done" + str(len(c.log))

def dict_ops(n: int, d: Dict[str, int]) -> List[object]:
    d["n"] = n
    d.setdefault("k", BIG)
    d.update({"u": n * 2})
    r: List[object] = [d.get("zz"), d.get("zz", -1), "n" in d, len(d), sorted(d.items()), sorted(d)]
    e = {i: str(i) for i in range(n & 3)}
    r.append(e)
    r.append(d.pop("u"))
    del d["n"]
    for k, v in sorted(d.items()):
        r.append(k + "=" + str(v))
    try:
        r.append(d["missing"])
    except KeyError as ex:
        r.append("KeyError " + str(ex))
    return r

def set_ops(n: int) -> List[object]:
    a = {1, 2, n}
    b = {n, 5}
    a.add(BIG)
    a.discard(99)
    return [sorted(a | b), sorted(a & b), sorted(a - b), n in a, len(a), sorted(frozenset(a))]

def str_ops(s: str, n: int) -> List[object]:
    b = s.encode("utf-8")
    return [s.split(), s.split(","), s.upper(), s[::-1], s * (n & 3), s.center(8, "*") if False else s.strip(), s.startswith("a"),
            s.find("b"), s.replace("a", "AA"), b, len(b), b + b"!", b.decode("utf-8"), s.isdigit(), "%s=%d" % (s, n),
            "{:>6}|{:<4}|{:05d}".format(s[:3], n & 15, n & 1023), s.join(["<", ">"]), ord(s[0]) if s else -1, chr(65 + (n & 7)),
            tuple(s[:2]), s == "ab", s != "ab", s < "b", list(s[:3]), s.partition(","), s.rsplit(",", 1)]

def int_edge(a: int, b: int) -> List[object]:
    r: List[object] = [a + b, a - b, a * b, -a, abs(a), a & b, a | b, a ^ b, ~a, a == b, a < b, a >= b, a << (b & 31), a >> (b & 63),
                       bool(a), float(a) if abs(a) < 2 ** 1000 else 0.0, str(a), hash(a) == hash(a), divmod(a, 7), a ** 2,
                       int(str(a)), a.bit_length() if False else 0, max(a, b), min(a, b, 0), sum([a, b]), [a] * 2, (a, b) < (b, a)]
    for f in ("//", "%"):
        try:
            r.append(a // b if f == "//" else a % b)
        except ZeroDivisionError as e:
            r.append("ZeroDivisionError " + str(e))
    try:
        r.append(a / b)
    except (ZeroDivisionError, OverflowError) as e2:
        r.append(type(e2).__name__ + " " + str(e2))
    return r

def i64_ops(a: int, b: int) -> List[int]:
    x: i64 = a
    y: i64 = b
    z: i32 = 7
    return [x + y, x - y, x * 3, x & y, x | y, x ^ y, x >> 3, -x, x // (y | 1), x % (y | 1), int(z) + 1, x < y, x == y]

def tuples(a: int, s: str) -> Tuple[int, str, Tuple[int, int]]:
    t = (a, s)
    u, v = t
    return (u + 1, v + "!", (a, a * 2))

def opt(x: Optional[int], u: Union[int, str]) -> str:
    r = "none" if x is None else str(x + 1)
    if isinstance(u, int):
        return r + "/int" + str(u * 2)
    return r + "/str" + u.upper()

def walrus_and_friends(l: List[int]) -> List[object]:
    out: List[object] = []
    if (n := len(l)) > 2:
        out.append(n)
    out.append([y for x in l if (y := x * 2) > 2])
    out.append(any(x > 2 for x in l))
    out.append(all(x > 0 for x in l))
    a, *rest = l + [0]
    out.append((a, rest))
    out.append(l[-1] if l else None)
    out.append(l[1:-1])
    out.append(l[::2])
    out.append(sorted(l, reverse=True))
    out.append(sorted(l, key=lambda x: -x))
    out.append({x % 3 for x in l} == set(x % 3 for x in l))
    del l[:1]
    out.append(l)
    return out

def unbound_and_index(n: int, l: List[int]) -> str:
    try:
        return str(l[n])
    except IndexError as e:
        return "IndexError " + str(e)

def _mk_cause(log: List[str]) -> KeyError:
    log.append("cause evaluated")
    return KeyError("k")

def raise_from(log: List[str]) -> str:
    """probe: everything observable about `raise X from Y`"""
    try:
        raise ValueError("x") from _mk_cause(log)
    except ValueError as e:
        return "cause=" + type(e.__cause__).__name__ + " suppress=" + str(e.__suppress_context__) + " log=" + str(log)

def raise_from_none() -> str:
    try:
        try:
            raise KeyError("k")
        except KeyError:
            raise ValueError("x") from None
    except ValueError as e:
        return "cause=" + type(e.__cause__).__name__ + " suppress=" + str(e.__suppress_context__) + " context=" + type(e.__context__).__name__

class LBox:
    def __init__(self, n: int) -> None:
        self.n = n
    def __len__(self) -> int:
        return self.n

def opt_len_truth(b: Optional[LBox]) -> str:
    if b:
        return "truthy"
    return "falsy"

def range_empty_keeps(n: int) -> int:
    i = 99
    for i in range(n):
        pass
    return i

@trait
class TBool:
    def __bool__(self) -> bool:
        return False
    def __len__(self) -> int:
        return 0

class TBase:
    def __init__(self) -> None:
        self.x = 1

class TImpl(TBase, TBool):
    pass

def bool_via_base(o: TBase) -> bool:
    return bool(o)

def ord_at(s: str, i: int) -> int:
    return ord(s[i])

def prints(n: int) -> None:
    print("printing", n, BIG + n, sep="|")
    print([n], {"k": n}, (n,), end="<\\n")
'''

FEATURES_B = '''
class Cube(Square):
    def describe(self) -> str:
        return "Cube(" + super().describe() + ")"
    @property
    def area(self) -> int:
        return self.w * self.w * 6

class Dog(Named):
    def name(self) -> str:
        return "dog"
    def greet(self, who: str = "nobody") -> str:
        return "woof " + who

def cross(n: int) -> List[str]:
    xs: List[Shape] = [Cube(n), Square(n), Shape(n, BIG)]
    ns: List[Named] = [Dog(), Person("x"), mk_named(n), mk_named(n + 1)]
    return [x.describe() for x in xs] + greet_all(ns, None) + greet_all(ns, "b") + [set_tag(xs[0], "t"), str(xs[0].area)] + shapes(n)[:2]

def cross_exc(n: int, log: List[str]) -> str:
    try:
        return with_ctx(n, log)
    except MyErr as e:
        return "MyErr " + str(e.code + BIG)

def cross_gen(n: int) -> List[int]:
    return [x + 1 for x in gen_chain(n & 3)] + closures(n)[:2]
'''


# ---------------------------------------------------------------------------------------- control-flow family
CF_ACT = {"none": None, "return": "return i * 100 + {tag}", "break": "break", "continue": "continue",
          "raise": 'raise ValueError("v%d" % i)'}


def cf_function(name: str, fin: bool, ta: str, xa: str, ea: str, fa: str, g: tuple[int, int, int, int]) -> str:
    """while-loop around try/except/else[/finally]; each body optionally returns/breaks/continues/raises when i == guard."""
    L = [f"def {name}(n: int, bad: int, log: List[str]) -> int:", "    i = 0", "    while i < n:", "        i += 1", "        try:",
         '            log.append("t%d" % i)', "            if i == bad:", "                raise MyErr(i)"]

    def act(a: str, tag: int, guard: int) -> None:
        if CF_ACT[a] is not None:
            L.append(f"            if i == {guard}:")
            L.append("                " + CF_ACT[a].format(tag=tag))
    act(ta, 1, g[0])
    L += ["        except MyErr as e:", '            log.append("x%d" % e.code)']
    act(xa, 2, g[1])
    L += ["        else:", '            log.append("e")']
    act(ea, 3, g[2])
    if fin:
        L += ["        finally:", '            log.append("f")']
        act(fa, 4, g[3])
    L += ['        log.append("a%d" % i)', "    else:", '        log.append("loop-else")', "    return -i"]
    return "\n".join(L) + "\n"


def control_flow_family(rng: vlib.Rng, quick: bool) -> tuple[str, list[str]]:
    """All combinations mypyc implements: with a finally clause, break/continue are only allowed in the finally body."""
    combos = []
    for ta in ("none", "return", "raise"):
        for xa in ("none", "return", "raise"):
            for ea in ("none", "return", "raise"):
                for fa in ("none", "return", "break", "continue", "raise"):
                    combos.append((True, ta, xa, ea, fa))
    for ta in ("none", "return", "break", "continue", "raise"):
        for xa in ("none", "return", "break", "continue", "raise"):
            for ea in ("none", "return", "break", "continue"):
                combos.append((False, ta, xa, ea, "none"))
    core = [c for c in combos if c[0] and c[4] in ("continue", "break", "return") and "return" in c[1:4]]
    rest = [c for c in combos if c not in core]
    rng.shuffle(rest)
    rng.shuffle(core)
    chosen = (core[:14] + rest[:12]) if quick else combos
    src, names = [], []
    for c in chosen:
        fin, ta, xa, ea, fa = c
        guards = [(1, 1, 1, 1)]
        if not quick or rng.random() < 0.3:
            guards.append((rng.choice((1, 2)), rng.choice((1, 2)), rng.choice((1, 2)), rng.choice((1, 2, 3))))
        for gi, g in enumerate(guards):
            nm = f"cf_{'fin' if fin else 'nofin'}_{ta}_{xa}_{ea}_{fa}" + ("" if gi == 0 else "_g" + "".join(map(str, g)))
            if nm in names:
                continue
            names.append(nm)
            src.append(cf_function(nm, fin, ta, xa, ea, fa, g))
    return "\n".join(src), names


CF_FIXED = """
def with_loop(n: int, mode: int, log: List[str]) -> int:
    for i in range(n):
        try:
            with Ctx(log, mode == 5):
                log.append("w%d" % i)
                if mode == 3 and i == 1:
                    return 77
                if mode >= 4 and i == 1:
                    raise MyErr(i)
                with Ctx(log, False):
                    log.append("inner%d" % i)
                    if mode == 6 and i == 0:
                        return 66
        except MyErr as e:
            log.append("caught%d" % e.code)
            if mode == 4:
                continue
        log.append("after%d" % i)
    return -1

def nested_try(n: int, log: List[str]) -> int:
    r = 0
    for i in range(4):
        try:
            try:
                log.append("in%d" % i)
                if i == n:
                    return 10 + i
                if i == n + 1:
                    raise MyErr(i)
            finally:
                log.append("inner-fin")
                if i == 1:
                    continue
            r += 1
        except MyErr as e:
            log.append("outer-x%d" % e.code)
            try:
                raise ValueError("again")
            except ValueError as e2:
                log.append(str(e2))
            finally:
                log.append("handler-fin")
                if i == 3:
                    break
    return -r

def finally_return_overrides(n: int, log: List[str]) -> int:
    for i in range(3):
        try:
            if i == n:
                return 1
            if i == n + 1:
                raise MyErr(i)
            log.append("body%d" % i)
        finally:
            log.append("fin%d" % i)
            if i == 2:
                return 2
    return 3

def gen_fin(n: int, stop: int, log: List[str]) -> Generator[int, None, None]:
    for i in range(n):
        try:
            log.append("g%d" % i)
            yield i
            if i == stop:
                return
            try:
                yield i + 100
            finally:
                log.append("gin%d" % i)
        finally:
            log.append("gf%d" % i)
    log.append("gend")

def use_gen_fin(n: int, stop: int, mode: int) -> List[object]:
    log: List[str] = []
    out: List[object] = []
    g = gen_fin(n, stop, log)
    if mode == 0:
        out.extend(g)
    elif mode == 1:
        for x in g:
            out.append(x)
            if x == 100:
                break
        g.close()
    else:
        try:
            out.append(next(g))
            out.append(next(g))
            out.append(g.throw(ValueError("boom")))
        except (ValueError, StopIteration) as e:
            out.append(type(e).__name__ + ":" + str(e))
    out.append(list(log))
    return out
"""


# ---------------------------------------------------------------------------------------- class-attribute-defaults family
def defaults_family(rng: vlib.Rng, quick: bool) -> tuple[str, str, list[str], list[str]]:
    """Chains of depth 2-4; every level independently has / has not class-level defaults (exhaustive), and randomly a
    property, an __init__, a trait.  The chain is cut at a varying level: lower levels in module A, upper levels in module B (separate compilation crosses them).
    Returns (source for A, source for B, names B must import from A, driver lines)."""
    a_src = ["@trait", "class DTrait:", "    def tname(self) -> str:", "        return 'T' + self.tsuffix()",
             "    def tsuffix(self) -> str:", "        return '?'", ""]
    b_src: list[str] = []
    imports = ["DTrait"]
    drv: list[str] = []
    chains = []
    for depth in (2, 3, 4):
        for mask in range(2 ** depth):
            chains.append((depth, mask))
    if quick:
        must = [c for c in chains if c in ((3, 0b101), (4, 0b1001), (4, 0b0101), (4, 0b1101), (3, 0b100), (3, 0b001), (2, 0b10))]
        rest = [c for c in chains if c not in must]
        rng.shuffle(rest)
        chains = must + rest[:5]
    for ci, (depth, mask) in enumerate(chains):
        prev = None
        attrs: list[str] = []
        for lv in range(depth):
            name = f"D{depth}_{mask}_{lv}"
            in_b = lv >= ci % (depth + 1)      # lower levels in module A, upper levels in module B
            out = b_src if in_b else a_src
            if not in_b:
                imports.append(name)
            has_def = bool(mask >> lv & 1)
            has_prop = rng.random() < 0.35
            has_init = rng.random() < 0.35
            has_trait = lv == 0 and rng.random() < 0.4
            bases = ([prev] if prev else []) + (["DTrait"] if has_trait else [])
            out.append(f"class {name}" + (f"({', '.join(bases)})" if bases else "") + ":")
            body = []
            if has_def:
                body += [f"    x{lv}: int = {lv * 10 + depth}", f"    s{lv}: str = 'd{lv}'", f"    retries{lv}: int = {2 ** 62 + lv}"]
                attrs += [f"x{lv}", f"s{lv}", f"retries{lv}"]
            if has_init:
                body += ["    def __init__(self) -> None:"] + (["        super().__init__()"] if prev else []) + [f"        self.i{lv} = {lv} + 1000"]
                attrs.append(f"i{lv}")
            if has_prop:
                data = [a for a in attrs if a[0] in 'xsri']      # data attributes only (a bound method's repr has an address)
                tgt = data[0] if data else None
                body += ["    @property", f"    def p{lv}(self) -> str:", f"        return 'p{lv}:' + " + (f"str(self.{tgt})" if tgt else "'-'")]
                attrs.append(f"p{lv}")
            if has_trait:
                body += ["    def tsuffix(self) -> str:", f"        return '{name}'"]
                attrs.append("tname")
            body += [f"    def who{lv}(self) -> str:", f"        return '{name}'"]
            out += body + [""]
            # a compiled reader with the static type of this class
            reads = " + ',' + ".join([f"str(o.{a}() if False else o.{a})" if a != "tname" else "o.tname()" for a in attrs] or ["'-'"])
            out += [f"def read_{name}(o: {name}) -> str:", f"    return {reads}", ""]
            mod = "B" if in_b else "M"
            drv.append(f"call('defaults-fresh-instance', lambda: [(a, getattr({mod}.{name}(), a) if a != 'tname' else {mod}.{name}().tname()) for a in {attrs!r}])")
            drv.append(f"call('defaults-compiled-reader', lambda: {mod}.read_{name}({mod}.{name}()))")
            prev = name
    return "\n".join(a_src) + "\n", "\n".join(b_src) + "\n", imports, drv


PRELUDE = ("from typing import List, Dict, Optional, Union, Tuple, Iterator, Generator, Callable, Final\n"
           "from mypy_extensions import trait, i64, i32\n")


def hierarchy_source(hiers: list[tuple[int, list[dict]]]) -> tuple[str, list[str]]:
    """Classes of the generated hierarchies + a via_* function per (concrete class, ancestor, method) and an ops_* function
    per ancestor that applies ==, !=, bool(), truth test and -- where the ancestor declares them -- len(), in, [], hash()
    through an ancestor-typed reference; driver calls for every concrete class."""
    from harness.C05 import render_hierarchy, py_mro, DUNDERS
    lines: list[str] = []
    calls: list[str] = []
    done: set[str] = set()
    for k, h in hiers:
        src, _ = render_hierarchy(k, h)
        lines += src
        mro, _look = py_mro(h)
        for i, c in enumerate(h):
            if c["trait"]:
                continue
            for p in mro[i]:
                vis = []
                for q in mro[p]:
                    for n in h[q]["methods"]:
                        if n != "__init__" and n not in vis:
                            vis.append(n)
                for n in vis:
                    if n in DUNDERS:
                        continue
                    fn = f"via_H{k}_C{p}_{n}"
                    if fn not in done:
                        done.add(fn)
                        lines.append(f"def {fn}(o: H{k}_C{p}, x: int) -> object:")
                        lines.append(f"    return o.{n}(x)")
                    calls.append(f"call('{fn}(H{k}_C{i}())', lambda: M.{fn}(M.H{k}_C{i}(), 5))")
                fn = f"ops_H{k}_C{p}"
                if fn not in done:
                    done.add(fn)
                    parts = ["'eq:' + str(o == o2)", "'ne:' + str(o != o2)", "'bool:' + str(bool(o))", "'if:' + ('T' if o else 'F')",
                             "'not:' + str(not o)"]
                    if "__len__" in vis:
                        parts.append("'len:' + str(len(o))")
                    if "__contains__" in vis:
                        parts.append("'in:' + str(3 in o)")
                    if "__getitem__" in vis:
                        parts.append("'item:' + str(o[2])")
                    if "__hash__" in vis:
                        parts.append("'hash:' + str(hash(o))")
                    lines.append(f"def {fn}(o: H{k}_C{p}, o2: H{k}_C{p}) -> List[str]:")
                    lines.append("    return [" + ", ".join(parts) + "]")
                calls.append(f"call('{fn}(H{k}_C{i}())', lambda: M.{fn}(M.H{k}_C{i}(), M.H{k}_C{i}()))")
            calls.append(f"call('ops_py(H{k}_C{i}())', lambda: ['bool:' + str(bool(M.H{k}_C{i}())), 'eq:' + str(M.H{k}_C{i}() == M.H{k}_C{i}())])")
    return "\n".join(lines) + "\n", calls


def make_set(rng: vlib.Rng, idx: int, hiers, nfuncs: int, hist: dict[str, int], quick: bool = True) -> dict:
    g = Gen(rng, hist)
    funcs = [g.function(f"f{idx}_{k}") for k in range(nfuncs)]
    hsrc, hcalls = hierarchy_source(hiers)
    cf_src, cf_names = control_flow_family(rng, quick)
    da_src, db_src, d_imports, d_drv = defaults_family(rng, quick)
    ma = PRELUDE + FEATURES_A + "\n" + da_src + "\n" + hsrc + "\n" + "\n\n".join(f[1] for f in funcs) + "\n"
    mb = (PRELUDE + f"from ma{idx} import Shape, Square, Named, Person, MyErr, Ctx, BIG, shapes, greet_all, mk_named, set_tag, with_ctx, gen_chain, closures\n"
          + f"from ma{idx} import " + ", ".join(d_imports) + "\n" + FEATURES_B + CF_FIXED + "\n" + cf_src + "\n" + db_src)
    d = ["import sys, json", f"import ma{idx} as M, mb{idx} as B",
         "want = sys.argv[1]",
         "assert M.__file__.endswith(want) and B.__file__.endswith(want), (M.__file__, B.__file__, want)",
         "def call(name, f):",
         "    try:",
         "        r = f()",
         "        print('ok ', name, repr(r))",
         "    except BaseException as e:",
         "        print('exc', name, type(e).__name__, str(e))",
         "class PyNamed(M.Named):",
         "    def name(self): return 'interp'",
         ]
    ncalls = 0
    for name, _ in funcs:
        for _ in range(4):
            a, b = rng.choice(INTS), rng.choice(INTS + [0, 1, 2, 3])
            s, l = rng.choice(STRS), list(rng.choice(LISTS))
            d.append(f"_l = {l!r}")
            nm = f"{name}({a},{b},{s!r},{l!r})"
            d.append(f"call({nm!r}, lambda: M.{name}({a}, {b}, {s!r}, _l)); print('   arg after', _l)")
            ncalls += 1
    d += hcalls
    ncalls += len(hcalls)
    d += d_drv
    ncalls += len(d_drv)
    d += [f"CF_NAMES = {cf_names!r}",
          "for _nm in CF_NAMES:",
          "    for _n in range(5):",
          "        for _bad in (0, 1, 2):",
          "            _log = []",
          "            call('%s(%d,%d)' % (_nm, _n, _bad), lambda: getattr(B, _nm)(_n, _bad, _log)); print('   log', _log)",
          "for _n in range(4):",
          "    for _mode in range(7):",
          "        _log = []",
          "        call('with_loop(%d,%d)' % (_n, _mode), lambda: B.with_loop(_n, _mode, _log)); print('   log', _log)",
          "for _n in range(-1, 5):",
          "    _log = []",
          "    call('nested_try(%d)' % _n, lambda: B.nested_try(_n, _log)); print('   log', _log)",
          "    _log = []",
          "    call('finally_return_overrides(%d)' % _n, lambda: B.finally_return_overrides(_n, _log)); print('   log', _log)",
          "for _n in range(4):",
          "    for _stop in range(-1, 3):",
          "        for _mode in range(3):",
          "            call('use_gen_fin(%d,%d,%d)' % (_n, _stop, _mode), lambda: B.use_gen_fin(_n, _stop, _mode))"]
    ncalls += len(cf_names) * 15 + 28 + 12 + 48
    ivals = [rng.choice(INTS) for _ in range(6)] + [0, 1, 2, 3, 4, 5]
    for n in ivals:
        small = n if abs(n) < 50 else n % 7
        d += [f"call('shapes({small})', lambda: M.shapes({small}))", f"call('call_shapes({n})', lambda: M.call_shapes({n}))",
              f"call('use_gens({n})', lambda: M.use_gens({n}))", f"call('closures({n})', lambda: M.closures({n}))",
              f"_log = []; call('try_finally({small})', lambda: M.try_finally({small}, _log)); print('   log', _log)",
              f"call('reraise({small})', lambda: M.reraise({small}))",
              f"_log = ['x']; call('with_ctx({small})', lambda: M.with_ctx({small}, _log)); print('   log', _log)",
              f"_d = {{'a': 1}}; call('dict_ops({n})', lambda: M.dict_ops({n}, _d)); print('   d', sorted(_d.items()))",
              f"call('set_ops({n})', lambda: M.set_ops({n}))", f"call('prints({n})', lambda: M.prints({n}))",
              f"call('tuples({n})', lambda: M.tuples({n}, 's'))", f"call('opt({n})', lambda: M.opt({n}, {n}))",
              f"call('opt(None)', lambda: M.opt(None, 'u{small}'))",
              f"call('cross({small})', lambda: B.cross({small}))", f"_log = []; call('cross_exc({small})', lambda: B.cross_exc({small}, _log)); print('   log', _log)",
              f"call('cross_gen({small})', lambda: B.cross_gen({small}))",
              f"call('unbound_and_index({small})', lambda: M.unbound_and_index({small}, [1, 2, 3]))"]
        ncalls += 17
        for m in (rng.choice(INTS), 0, 7, -7):
            d.append(f"call('int_edge({n},{m})', lambda: M.int_edge({n}, {m}))")
            ncalls += 1
            if abs(n) < 2 ** 31 and abs(m) < 2 ** 31:
                d.append(f"call('i64_ops({n},{m})', lambda: M.i64_ops({n}, {m}))")
                ncalls += 1
    for s in STRS:
        nm = f"str_ops({s!r})"
        d.append(f"call({nm!r}, lambda: M.str_ops({s!r}, {rng.choice(INTS)}))")
        ncalls += 1
    for l in LISTS:
        nm = f"walrus({l!r})"
        d.append(f"_l = {l!r}; call({nm!r}, lambda: M.walrus_and_friends(_l)); print('   arg after', _l)")
        ncalls += 1
    d += ["call('opt_len_truth', lambda: [M.opt_len_truth(M.LBox(0)), M.opt_len_truth(M.LBox(2)), M.opt_len_truth(None)])",
          "call('range_empty_keeps', lambda: [M.range_empty_keeps(0), M.range_empty_keeps(3)])",
          "call('trait_slot_bool', lambda: bool(M.TImpl()))", "call('trait_slot_len', lambda: len(M.TImpl()))",
          "call('bool_via_base', lambda: M.bool_via_base(M.TImpl()))",
          "call('raise_from', lambda: M.raise_from([]))", "call('raise_from_none', lambda: M.raise_from_none())",
          "call('ord_at_in', lambda: M.ord_at('ab', 1))", "call('ord_at_out', lambda: M.ord_at('ab', 5))",
          "call('kw from interpreted', lambda: M.kw(1, 2, 3, c=4, zz=5))", "call('kw **', lambda: M.kw(*[1, 2], **{'c': 3, 'q': 4}))",
          "call('posonly', lambda: M.posonly(1, 2, 3, d=4))", "call('defaults', lambda: M.Shape(5).describe())",
          "call('kwarg ctor', lambda: M.Shape(h=3, w=2).describe())",
          "call('greet interpreted subclass of trait', lambda: M.greet_all([M.Person('z'), M.Robot()], 'w'))",
          "call('property set from interpreted', lambda: M.set_tag(M.Square(2), 'q'))",
          "sq = M.Square(3); sq.tag = 'direct'; call('attr', lambda: (sq.tag, sq.area, sq.w, sq.describe()))",
          "call('callback', lambda: M.make_counter(5)(6))", "g = M.gen_count(3); call('gen from driver', lambda: [next(g), g.send(1), list(g)])",
          "call('exc attrs', lambda: M.MyErr(3).code)", "call('isinstance', lambda: [isinstance(M.Robot(), M.Named), isinstance(B.Cube(1), M.Shape), issubclass(M.MyErr, Exception)])"]
    ncalls += 21
    return {"idx": idx, "files": {f"ma{idx}.py": ma, f"mb{idx}.py": mb}, "driver": "\n".join(d) + "\n", "ncalls": ncalls,
            "nfuncs": nfuncs + ma.count("\ndef ") + mb.count("\ndef ") + ma.count("\n    def ") + mb.count("\n    def ")}


BUILD_PY = '''
import sys, os
from setuptools import setup
from mypyc.build import mypycify
files = {files!r}
setup(name="c05_{tag}", ext_modules=mypycify(files, opt_level={opt!r}, multi_file={multi_file!r}, separate={separate!r}),
      script_args=["-q", "build_ext", "--inplace"])
'''


def compile_and_run(work: str, files: dict[str, str], driver: str, cfg: dict, timeout: int = 7200) -> dict:
    """Returns {'status': 'ok'|'compile-failed'|..., 'interp': str, 'compiled': str, ...}."""
    os.makedirs(work, exist_ok=True)
    src = os.path.join(work, "src")
    pyd = os.path.join(work, "py")
    sod = os.path.join(work, "so")
    for d in (src, pyd, sod):
        os.makedirs(d, exist_ok=True)
    for fn, txt in files.items():
        for d in (src, pyd):
            with open(os.path.join(d, fn), "w", encoding="utf-8") as f:
                f.write(txt)
    for d in (pyd, sod):
        with open(os.path.join(d, "driver.py"), "w", encoding="utf-8") as f:
            f.write(driver)
    with open(os.path.join(src, "build_c05.py"), "w") as f:
        f.write(BUILD_PY.format(files=sorted(files), tag=cfg["name"].replace("-", "_"), opt=cfg["opt"],
                                multi_file=cfg["multi_file"], separate=cfg["separate"]))
    env = vlib.py_env({"MYPY_CACHE_DIR": os.path.join(work, "cache")})
    # gcc -Werror rejects C that mypyc emits for `x == x` (tautological compare): a build nuisance, not behaviour
    env["CFLAGS"] = "-Wno-tautological-compare"
    t0 = time.time()
    st, out = vlib.sh([vlib.PY, "build_c05.py"], cwd=src, env=env, timeout=timeout)
    res: dict[str, Any] = {"compile_s": round(time.time() - t0, 1)}
    sos = glob.glob(os.path.join(src, "*.so"))
    if st != 0 or not sos:
        res.update(status="compile-failed", detail=out[-3000:])
        return res
    for s in sos:
        shutil.copy(s, sod)
    outs = {}
    for mode, d, want in (("interp", pyd, ".py"), ("compiled", sod, ".so")):
        e = vlib.py_env({"PYTHONPATH": d + os.pathsep + vlib.REPO})
        st, o = vlib.sh([vlib.PY, "driver.py", want], cwd=d, env=e, timeout=3600)
        outs[mode] = (st, o)
    res.update(status="ok", interp=outs["interp"], compiled=outs["compiled"])
    return res


def first_diff(a: str, b: str) -> tuple[int, str, str]:
    la, lb = a.splitlines(), b.splitlines()
    for i in range(max(len(la), len(lb))):
        x = la[i] if i < len(la) else "<missing>"
        y = lb[i] if i < len(lb) else "<missing>"
        if x != y:
            return i, x, y
    return -1, "", ""


# ---------------------------------------------------------------------------------------- run-*.test corpus
SKIP_TOKENS = ["testutil", "__file__", "is_compiled", "getrefcount", "traceback", "TypeError", "AttributeError", "interpreted",
               "i64", "i32", "i16", "u8", "asyncio", "# cmd:", "typing fixtures", "sys.modules", "__dict__", "inspect", "gc.",
               "__del__", "weakref", "monkey", "setattr", "__mypyc", "mypyc_attr", "import native", "RecursionError", "globals()",
               "locals()", "__annotations__", "pickle", "copy", "librt", "time", "random", "id(", "hash(", "__name__", "__module__",
               "__qualname__", "__doc__", "singledispatch", "dataclass", "attr", "Protocol", "NamedTuple", "TypedDict", "Enum",
               "__slots__", "del ", "vec", "async ", "await ", "stderr", "subprocess", "os.", "bytearray", "memoryview", "float", "math", "Final"]


def select_run_cases(repo: str) -> tuple[list[dict], dict[str, int]]:
    from harness.C05_irdump import parse_test_file
    td = os.path.join(repo, "mypyc", "test-data")
    sel: list[dict] = []
    skipped: dict[str, int] = {}
    for f in sorted(glob.glob(os.path.join(td, "run-*.test"))):
        for name, main, files in parse_test_file(f):
            why = None
            fnames = [x[0] for x in files]
            if len(files) > 1 or (files and fnames != ["driver.py"]):
                why = "extra files"
            elif any(t in name for t in ("_separate", "_multimodule", "_librt", "_experimental", "_python3_", "_64bit", "_32bit", "Fail")):
                why = "tagged name"
            else:
                text = main + "\n" + "\n".join(x[1] for x in files)
                for t in SKIP_TOKENS:
                    if t in text:
                        why = "token " + t.strip()
                        break
            if why is None and not files and "def test_" not in main:
                why = "no driver and no test_ functions"
            if why:
                skipped[why.split()[0]] = skipped.get(why.split()[0], 0) + 1
                continue
            driver = files[0][1] if files else None
            sel.append({"file": os.path.basename(f), "case": name, "main": main, "driver": driver})
    return sel, skipped


DEFAULT_DRIVER = '''
import native
for name in sorted(dir(native)):
    if name.startswith("test_"):
        try:
            getattr(native, name)()
            print("ran", name)
        except BaseException as e:
            print("exc", name, type(e).__name__, str(e))
'''


def run_case(work: str, case: dict, cfg: dict) -> dict:
    drv = case["driver"] if case["driver"] is not None else DEFAULT_DRIVER
    driver = ("import sys\n_want = sys.argv[1]\nimport native as _n\nassert _n.__file__.endswith(_want), _n.__file__\n"
              "sys.argv = sys.argv[:1]\n" + drv)
    return compile_and_run(work, {"native.py": case["main"]}, driver, cfg)


# ---------------------------------------------------------------------------------------- entry points
_EXC = r"([A-Za-z_]+Error|[A-Za-z_]+Exception|StopIteration|KeyboardInterrupt|MyErr)"
_TOK = re.compile(r"[A-Za-z_][A-Za-z_0-9]*|-?\d+|\S")

# named constructs: (probe function, regex on the interpreted payload, regex on the compiled payload) -> key
CONSTRUCTS = [
    ("opt_len_truth", r"^\['falsy'", r"^\['truthy'", "optional-truthiness-ignores-len"),
    ("range_empty_keeps", r"^\[99,", r"^\[0,", "for-range-empty-clobbers-variable"),
    ("trait_slot_bool", r"False", r"True", "trait-dunder-not-in-type-slot"),
    ("trait_slot_len", r"^0", r"TypeError", "trait-dunder-not-in-type-slot"),
    ("bool_via_base", r"False", r"True", "trait-dunder-not-in-type-slot"),
    ("raise_from", r"cause=KeyError suppress=True log=\['cause evaluated'\]", r"cause=NoneType suppress=False log=\[\]", "raise-from-cause-dropped"),
    ("raise_from_none", r"cause=NoneType suppress=True", r"cause=NoneType suppress=False", "raise-from-cause-dropped"),
]


def diff_signature(a: str, b: str) -> str:
    """First differing token pair (numbers abstracted) -- identifies WHAT differs, not on which input."""
    ta, tb = _TOK.findall(a), _TOK.findall(b)
    canon = lambda t: "N" if re.fullmatch(r"-?\d+", t) else t  # noqa
    for i in range(max(len(ta), len(tb))):
        x = ta[i] if i < len(ta) else "<end>"
        y = tb[i] if i < len(tb) else "<end>"
        if x != y:
            return f"{canon(x)}=>{canon(y)}"
    return "same"


def classify(x: str, y: str) -> str | None:
    """Input-independent identity of a transcript-line difference: the construct (probe function of the fixed
    feature library, or exception class) and what differs; None for generated functions / unparsable lines."""
    mx = re.match(r"^(ok |exc) (\S+?)(\(.*?\))? (.*)$", x)
    my = re.match(r"^(ok |exc) (\S+?)(\(.*?\))? (.*)$", y)
    ex = re.match(r"^exc (.*?) " + _EXC + r" (.*)$", x)
    ey = re.match(r"^exc (.*?) " + _EXC + r" (.*)$", y)
    if ex and ey and ex.group(1) == ey.group(1) and ex.group(2) == ey.group(2):
        canon = lambda m: re.sub(r"-?\d+", "N", m)[:80]  # noqa
        return f"excmsg:{ex.group(2)}:{canon(ex.group(3))}=>{canon(ey.group(3))}"
    if not (mx and my) or mx.group(2) != my.group(2):
        return None
    probe = mx.group(2)
    if re.fullmatch(r"f\d+_\d+", probe):
        return None                      # a randomly generated function: keyed by its source (caller)
    probe = re.sub(r"^via_H\d+_C\d+_\w+$", "vtable-dispatch", probe)
    if re.fullmatch(r"ops_(H\d+_C\d+|py)", probe):
        # operator dispatch through an ancestor-typed reference: key = the first operator whose result differs
        try:
            import ast
            a, b = ast.literal_eval(mx.group(4)), ast.literal_eval(my.group(4))
            for u, v in zip(a, b):
                if u != v:
                    return "dunder-dispatch:" + ("slot:" if probe == "ops_py" else "") + u.split(":")[0]
        except Exception:  # noqa
            pass
        return "dunder-dispatch:" + mx.group(1).strip() + "/" + my.group(1).strip()
    for p, ri, rc, key in CONSTRUCTS:
        if probe == p and re.search(ri, mx.group(4)) and re.search(rc, my.group(4)):
            return key
    kind = mx.group(1).strip() + "/" + my.group(1).strip()
    return f"diff:{probe}:{kind}:{diff_signature(mx.group(4), my.group(4))}"


def check_result(ctx: vlib.Ctx, what: str, key: str, res: dict, replay: dict) -> str:
    if res["status"] != "ok":
        return "compile-failed"
    (si, oi), (sc, oc) = res["interp"], res["compiled"]
    if si != 0:
        return "interpreted-run-failed"
    if sc == si and oc == oi:
        return "same"
    la, lb = oi.splitlines(), oc.splitlines()
    other = None
    if len(la) == len(lb) and sc == si:
        for i, (x, y) in enumerate(zip(la, lb)):
            if x != y:
                k = classify(x, y)
                if k is None and x.startswith("   "):
                    # state of a passed-in object / log printed after a call: attribute it to that call
                    j = i
                    while j >= 0 and not (la[j].startswith("ok ") or la[j].startswith("exc")):
                        j -= 1
                    m = re.match(r"^(?:ok |exc) (\S+?)(\(.*?\))? ", la[j]) if j >= 0 else None
                    if m and not re.fullmatch(r"f\d+_\d+", m.group(1)):
                        k = f"diff:{m.group(1)}:effects:{diff_signature(x, y)}"
                if k is None:
                    other = other or (i, x, y)
                else:
                    ctx.violation(k, f"compiled differs from interpreted: interpreted `{x[:200]}` compiled `{y[:200]}` ({what}, {replay['config']['name']})",
                                  dict(replay, interpreted_line=x, compiled_line=y, line_no=i))
    else:
        other = first_diff(oi, oc)
    if other is not None:
        i, x, y = other
        # generated function: identity = its source text (names normalised)
        mx = re.match(r"^(?:ok |exc) (f\d+_\d+)\(", x)
        if mx:
            src = "".join(replay.get("files", {}).values())
            j = src.find(f"def {mx.group(1)}(")
            body = src[j:src.find("\ndef ", j + 1)] if j >= 0 else mx.group(1)
            key = "diff:fn:" + hashlib.sha1(re.sub(r"f\d+_\d+", "f", body).encode()).hexdigest()[:12]
        ctx.violation(key, f"{what}: compiled ({replay['config']['name']}) differs from interpreted at transcript line {i}: "
                           f"interpreted `{x[:300]}` compiled `{y[:300]}`" + (f" (exit status {sc} vs {si})" if sc != si else ""),
                      dict(replay, interpreted_line=x, compiled_line=y, line_no=i, compiled_status=sc, compiled_tail=oc[-1500:]))
    return "mismatch"


def run_diff(ctx: vlib.Ctx, hiers: list | None = None) -> None:
    tmp = tempfile.mkdtemp(prefix="c05diff_")
    try:
        _run_diff(ctx, hiers or [], tmp)
    except Exception:  # noqa
        import traceback
        ctx.broke("S", "diff", traceback.format_exc())
    finally:
        shutil.rmtree(tmp, ignore_errors=True)


def _run_diff(ctx: vlib.Ctx, hiers: list, tmp: str) -> None:
    rng = vlib.Rng(ctx.seed, "c05diff")
    hist: dict[str, int] = {}
    nsets = ctx.n(2, 6)
    # hierarchies with traits + overriding preferred
    interesting = list(hiers)
    sets = []
    for i in range(nsets):
        hs = interesting[i * ctx.n(6, 12):(i + 1) * ctx.n(6, 12)]
        sets.append(make_set(rng, i, hs, ctx.n(10, 80), hist, ctx.quick))
    jobs: list[tuple[str, Any, dict]] = []
    for s in sets:
        cfgs = CONFIGS if not ctx.quick else ([CONFIGS[1], CONFIGS[3]] if s["idx"] % 2 == 0 else [CONFIGS[0], CONFIGS[2]])
        for cfg in cfgs:
            jobs.append(("gen", s, cfg))
    cases, skipped = select_run_cases(vlib.REPO)
    ctx.cov["runtest_selected_total"] = len(cases)
    ctx.cov["runtest_skipped"] = skipped
    rng.shuffle(cases)
    for c in cases[: ctx.n(4, 60)]:
        jobs.append(("case", c, CONFIGS[1] if rng.random() < 0.5 else CONFIGS[0]))
    t0 = time.time()

    def one(a):
        i, (kind, obj, cfg) = a
        work = os.path.join(tmp, f"j{i}")
        try:
            if kind == "gen":
                return compile_and_run(work, obj["files"], obj["driver"], cfg)
            return run_case(work, obj, cfg)
        finally:
            shutil.rmtree(os.path.join(work, "src", "build"), ignore_errors=True)
    with ThreadPoolExecutor(max_workers=min(vlib.NPROC, 10)) as ex:
        results = list(ex.map(one, enumerate(jobs)))
    stats: dict[str, int] = {}
    for (kind, obj, cfg), res in zip(jobs, results):
        if kind == "gen":
            srcs = obj["files"]
            key = f"diff:gen:{cfg['name']}:{hashlib.sha1(''.join(srcs.values()).encode()).hexdigest()[:10]}"
            r = check_result(ctx, f"generated module set {obj['idx']}", key, res,
                             {"kind": "diff", "config": cfg, "files": srcs, "driver": obj["driver"]})
            if r == "compile-failed":
                ctx.broke("S", "generated module rejected by mypyc (generator bug or compiler crash)", res.get("detail", "")[-2500:],
                          {"config": cfg})
            elif r == "interpreted-run-failed":
                ctx.broke("S", "driver failed on the interpreted module", res["interp"][1][-2000:])
            else:
                ctx.add("diff_programs")
                ctx.add("diff_functions", obj["nfuncs"])
                ctx.add("diff_calls_compared", obj["ncalls"])
                ctx.add("evaluations", obj["ncalls"])
            stats["gen-" + r] = stats.get("gen-" + r, 0) + 1
        else:
            key = f"diff:runtest:{obj['file']}::{obj['case']}:{cfg['name']}"
            r = check_result(ctx, f"{obj['file']}::{obj['case']}", key, res,
                             {"kind": "diff-runtest", "config": cfg, "file": obj["file"], "case": obj["case"]})
            stats["runtest-" + r] = stats.get("runtest-" + r, 0) + 1
            if r == "same":
                ctx.add("evaluations")
    ctx.cov["diff_outcomes"] = stats
    ctx.cov["diff_configs"] = sorted({j[2]["name"] for j in jobs})
    ctx.cov["diff_feature_histogram"] = dict(sorted(hist.items()))
    ctx.cov["diff_compile_seconds"] = [r.get("compile_s") for r in results]
    ctx.log(f"(S) {len(jobs)} builds compared in {time.time()-t0:.1f}s: {stats}")
    if sets:
        f = sets[0]["files"]["ma0.py"]
        i = f.find("def f0_0(")
        ctx.sample({"generated_function": f[i:i + 700]})


def replay_diff(ctx: vlib.Ctx, replay: dict) -> None:
    tmp = tempfile.mkdtemp(prefix="c05replay_")
    try:
        if replay.get("kind") == "diff":
            res = compile_and_run(tmp, replay["files"], replay["driver"], replay["config"])
            check_result(ctx, "replayed module set", "replay", res, replay)
        else:
            cases, _ = select_run_cases(vlib.REPO)
            for c in cases:
                if c["file"] == replay["file"] and c["case"] == replay["case"]:
                    res = run_case(tmp, c, replay["config"])
                    check_result(ctx, "replayed run-test case", "replay", res, replay)
    finally:
        shutil.rmtree(tmp, ignore_errors=True)
